#!/bin/bash
# Confirm and evaluate one seeded breaking change produced by an independent agent.
# usage: tools_seeded.sh <ID> <worktree> <artefact dir> [check ids to run; default: the property itself]
# 1. demo exits 0 on /repo and 1 on the changed tree; 2. the repository suite passes on the changed tree;
# 3. artefacts are stored under /verif/seeded/<ID>/; 4. the named checks are run against a copy of the changed
#    tree (VERIF_REPO) and their verdicts recorded in seeded/<ID>/result.txt.  The worktree is removed at the end.
set -u
ID=$1; WT=$2; ART=$3; shift 3
CHECKS=${*:-${ID%%-*}}
OUT=/verif/seeded/$ID
mkdir -p $OUT
cp $ART/patch.diff $ART/demo.py $ART/meta.json $OUT/ 2>/dev/null
{
echo "== confirmation of seeded change $ID ($(date -u +%FT%TZ))"
PYTHONPATH=/repo timeout 600 /venv/bin/python -W ignore $OUT/demo.py > /dev/null 2>&1; echo "demo on /repo (unchanged): exit $?"
PYTHONPATH=$WT timeout 600 /venv/bin/python -W ignore $OUT/demo.py > $OUT/demo_modified.out 2>&1; echo "demo on changed tree: exit $?"
tail -3 $OUT/demo_modified.out | cut -c1-300
if [ "${SKIP_SUITE:-0}" != "1" ]; then
  (cd $WT && PYTHONPATH=$WT timeout 5000 /venv/bin/python -m pytest -q -p no:cacheprovider --timeout=900 -n 6 2>&1 | grep -E "passed|failed|error" | tail -1) | sed 's/^/suite on changed tree: /'
fi
rm -rf /var/tmp/seed-$ID; mkdir -p /var/tmp/seed-$ID; cp -r $WT/problog /var/tmp/seed-$ID/
for c in $CHECKS; do
  (cd /verif && VERIF_OUT=/var/tmp/seed-$ID/out VERIF_REPO=/var/tmp/seed-$ID VERIF_BUDGET=${VERIF_BUDGET:-3000} timeout 4000 ./check $c --tier quick --quiet > /var/tmp/seed-$ID/$c.log 2>&1; echo "check $c on changed tree: exit $? ; $(grep -c '^VIOLATION' /var/tmp/seed-$ID/$c.log) unlisted violation(s)"; grep -A0 '^VIOLATION' /var/tmp/seed-$ID/$c.log | head -3)
  # keep the first replay for the record
  f=$(grep '^VIOLATION' /var/tmp/seed-$ID/$c.log | head -1 | sed 's/.*replay=//'); [ -n "$f" ] && [ -f "$f" ] && cp "$f" $OUT/caught_by_$c.json
done
rm -rf /var/tmp/seed-$ID
} > $OUT/result.txt 2>&1
# restore the evidence of the unchanged tree is the caller's business (re-run the check on /repo)
cat $OUT/result.txt
