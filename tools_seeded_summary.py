#!/usr/bin/env python3
"""Regenerates seeded/SUMMARY.md from seeded/<ID>/meta.json and result.txt (last verdict per check wins)."""
import json, os, re, glob
here = os.path.dirname(os.path.abspath(__file__))
rows = []
for d in sorted(glob.glob(os.path.join(here, "seeded", "C*"))):
    sid = os.path.basename(d)
    try:
        meta = json.load(open(os.path.join(d, "meta.json")))
    except Exception:
        meta = {}
    res = open(os.path.join(d, "result.txt")).read() if os.path.exists(os.path.join(d, "result.txt")) else ""
    verdicts = {}
    history = {}
    for m in re.finditer(r"check (C\d+) on changed tree: exit (\d+) ; (\d+) unlisted", res):
        verdicts[m.group(1)] = (int(m.group(2)), int(m.group(3)))
        history.setdefault(m.group(1), []).append(int(m.group(2)))
    suite = re.findall(r"suite on changed tree: (\d+ passed[^\n]*)", res)
    demo = re.findall(r"demo on ([^:]+): exit (\d)", res)
    caught = [c for c, (rc, n) in verdicts.items() if rc == 1]
    missed_first = [c for c, h in history.items() if h[0] == 0 and h[-1] == 1]
    rows.append((sid, meta.get("summary", ""), meta.get("needs", ""), suite[-1] if suite else "?", demo, caught,
                 [c for c, (rc, n) in verdicts.items() if rc != 1], missed_first))
with open(os.path.join(here, "seeded", "SUMMARY.md"), "w") as f:
    f.write("# Seeded breaking changes (produced by independent agents that saw only the property text)\n\n")
    f.write("Each directory holds patch.diff, demo.py (exit 0 on /repo, 1 with the change), meta.json (the author's notes) and "
            "result.txt (my confirmation: demo on both trees, repository suite on the changed tree, verdict of the checks run "
            "against a copy of the changed tree).  'strengthened' = the check missed the change at first and was extended.\n\n")
    f.write("| id | change | needs | suite with change | caught by | strengthened first | not caught by |\n|---|---|---|---|---|---|---|\n")
    for sid, summ, needs, suite, demo, caught, missed, mf in rows:
        f.write("| %s | %s | %s | %s | %s | %s | %s |\n" % (sid, summ.replace("|", "/")[:260], needs.replace("|", "/")[:200],
                                                         suite[:40], ", ".join(caught) or "-", ", ".join(mf) or "-", ", ".join(missed) or "-"))
print(len(rows), "seeded changes")
