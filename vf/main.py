"""CLI of the verification framework (see ../check)."""
import argparse
import glob
import importlib
import json
import os
import sys

from . import core


def prop_modules():
    d = os.path.join(core.VERIF, "vf", "props")
    return sorted(os.path.basename(p)[:-3] for p in glob.glob(os.path.join(d, "c[0-9][0-9]*.py")))


def main(argv=None):
    argv = list(sys.argv[1:] if argv is None else argv)
    if not argv:
        print(__doc__)
        print("properties:", " ".join(m.upper() for m in prop_modules()))
        return 2
    seed = int(os.environ.get("VERIF_SEED", "0") or 0)
    if argv[0] == "replay":
        path = argv[1]
        rec = json.load(open(path))
        mod = importlib.import_module("vf.props." + rec["property"].lower())
        res = mod.PROP.replay(dict(rec["case"], **(rec.get("extra") or {})))
        print("property:", rec["property"], " symptom:", rec.get("symptom"))
        print("case:    ", core.canon(rec["case"]))
        print("expected:", res.get("expected"))
        print("observed:", res.get("observed"))
        print("verdict: ", "property holds on this case" if res.get("ok") else "VIOLATION reproduced")
        return 0 if res.get("ok") else 1
    ap = argparse.ArgumentParser()
    ap.add_argument("pid")
    ap.add_argument("--tier", default=os.environ.get("VERIF_TIER", "quick"), choices=["quick", "thorough"])
    ap.add_argument("--quiet", action="store_true")
    args = ap.parse_args(argv)
    if args.pid == "all":
        rc = 0
        for m in prop_modules():
            r = core.run_check("vf.props." + m, args.tier, seed, quiet=True)
            rc = max(rc, r)
        return rc
    return core.run_check("vf.props." + args.pid.lower(), args.tier, seed, quiet=args.quiet)


if __name__ == "__main__":
    sys.exit(main())
