"""Framework core: property interface, result accumulator, process pool, evidence, replays,
known findings.  See DESIGN.md section 2.

A property module (vf/props/cXX.py) defines ``PROP = SomeProp()`` where SomeProp derives from
``Prop`` and implements

    shards(tier)              -> list of picklable shard descriptors (deterministic)
    run_shard(shard, tier, acc)   executes every case of the shard on the real implementation,
                                  reports into ``acc`` (an ``Acc``)
    replay(case)              -> dict(ok=bool, expected=..., observed=...) re-executing one case
                                 without any explorer

Nothing here samples: ``VERIF_SEED`` only rotates the order in which shards are handed out.
"""
import collections
import hashlib
import json
import multiprocessing
import os
import signal
import sys
import time
import traceback

VERIF = os.path.dirname(os.path.dirname(os.path.abspath(__file__)))
REPO = os.environ.get("VERIF_REPO", "/repo")
NPROC = int(os.environ.get("VERIF_NPROC", "16"))


def canon(obj):
    return json.dumps(obj, sort_keys=True, default=str, separators=(",", ":"))


def short_hash(obj):
    return hashlib.sha1(canon(obj).encode()).hexdigest()[:12]


class WatchdogTimeout(BaseException):
    """Raised by the per-case wall clock watchdog (BaseException so that the code under test
    cannot swallow it with ``except Exception``)."""


class watchdog(object):
    """``with watchdog(5):`` raises WatchdogTimeout in the main thread after 5 s."""

    def __init__(self, seconds):
        self.seconds = seconds

    def _handler(self, signum, frame):
        raise WatchdogTimeout()

    def __enter__(self):
        self.old = signal.signal(signal.SIGALRM, self._handler)
        signal.setitimer(signal.ITIMER_REAL, self.seconds)
        return self

    def __exit__(self, *exc):
        signal.setitimer(signal.ITIMER_REAL, 0)
        signal.signal(signal.SIGALRM, self.old)
        return False


class Acc(object):
    """Per-shard accumulator; merged by the parent."""

    MAX_KEYS = 400

    def __init__(self, pid, deadline=None):
        self.pid = pid
        self.deadline = deadline
        self.evaluations = 0  # implementation executions
        self.nontrivial = 0  # distinct cases non-trivial by the property's rule
        self.states = 0
        self.transitions = 0
        self.traces = 0  # implementation executions compared with the reference model
        self.outcomes = collections.Counter()
        self.counters = collections.Counter()
        self.violations = {}  # key -> record
        self.violation_count = 0
        self.samples = []
        self.caps = []
        self.notes = {}
        self.slow = []

    def expired(self):
        return self.deadline is not None and time.time() > self.deadline

    def sample(self, case, every=1, limit=3):
        if len(self.samples) < limit:
            self.samples.append(case)

    def violation(self, symptom, case, expected=None, observed=None, what=None, extra=None):
        """``case`` must be the *minimised* case; key = (symptom, case).  ``extra`` (a dict) is
        stored with the record and merged into the case handed to replay(), but is not part of the
        key: used for call-site keyed findings that carry one example."""
        self.violation_count += 1
        key = short_hash([symptom, case])
        if key in self.violations:
            self.violations[key]["count"] += 1
            return key
        if len(self.violations) >= self.MAX_KEYS:
            self.caps.append("violation-key cap %d reached" % self.MAX_KEYS)
            return key
        self.violations[key] = dict(
            property=self.pid,
            key=key,
            symptom=symptom,
            case=case,
            expected=expected,
            observed=observed,
            what=what or symptom,
            extra=extra or {},
            count=1,
        )
        return key

    def cap(self, text):
        if text not in self.caps:
            self.caps.append(text)

    def merge(self, other):
        self.evaluations += other.evaluations
        self.nontrivial += other.nontrivial
        self.states += other.states
        self.transitions += other.transitions
        self.traces += other.traces
        self.outcomes.update(other.outcomes)
        self.counters.update(other.counters)
        self.violation_count += other.violation_count
        for k, v in other.violations.items():
            if k in self.violations:
                self.violations[k]["count"] += v["count"]
            else:
                self.violations[k] = v
        for s in other.samples:
            if len(self.samples) < 6:
                self.samples.append(s)
        for c in other.caps:
            self.cap(c)
        self.slow = sorted(self.slow + other.slow, reverse=True)[:5]
        for k, v in other.notes.items():
            self.notes.setdefault(k, v)


class Prop(object):
    pid = None
    title = ""
    technique = ""
    rule = ""
    level = "model_checking"
    assumptions = ()
    # wall-clock budget of one run (seconds); exceeding it is reported as a cap
    budget = {"quick": 150, "thorough": 1800}

    def shards(self, tier):
        raise NotImplementedError

    def run_shard(self, shard, tier, acc):
        raise NotImplementedError

    def replay(self, case):
        raise NotImplementedError

    def precheck(self, tier):
        """Validation of the reference model against independent ground truth.  Returns a dict
        merged into the evidence; raises RuntimeError if the reference is broken (exit 2)."""
        return {}


def shrink(case, candidates, fails, limit=400):
    """Deterministic greedy shrink: repeatedly replace ``case`` by the first candidate (in the
    fixed order produced by ``candidates(case)``) for which ``fails`` still holds."""
    n = 0
    changed = True
    while changed and n < limit:
        changed = False
        for cand in candidates(case):
            n += 1
            if n >= limit:
                break
            if fails(cand):
                case = cand
                changed = True
                break
    return case


# ---------------------------------------------------------------------------------------------
# pool

_PROP = None
_TIER = None
_DEADLINE = None


def _init_worker(modname, tier, deadline, silence=False):
    global _PROP, _TIER, _DEADLINE
    import importlib

    if silence:  # the code under test prints debugging output (e.g. printStack) to stdout
        sys.stdout = open(os.devnull, "w")

    _PROP = importlib.import_module(modname).PROP
    _TIER = tier
    _DEADLINE = deadline
    sys.setrecursionlimit(10000)


def _run_one(shard):
    acc = Acc(_PROP.pid, _DEADLINE)
    if acc.expired():
        acc.cap("wall budget reached; shard skipped")
        acc.counters["shards_skipped"] += 1
        return acc
    t0 = time.time()
    try:
        _PROP.run_shard(shard, _TIER, acc)
        acc.slow = [(round(time.time() - t0, 2), repr(shard)[:80])]
    except WatchdogTimeout:
        acc.cap("shard aborted by watchdog: %r" % (shard,))
    except Exception:
        acc.notes["harness_error"] = traceback.format_exc()
    return acc


def load_findings():
    """KNOWN_FINDINGS.txt: ``open: property=Cxx key=<k> text`` / ``fixed: property=Cxx <commit> text``"""
    path = os.path.join(VERIF, "KNOWN_FINDINGS.txt")
    res = collections.defaultdict(dict)
    if os.path.exists(path):
        for line in open(path):
            line = line.strip()
            if not line.startswith("open:"):
                continue
            parts = line.split(None, 3)
            pid = parts[1].split("=", 1)[1]
            key = parts[2].split("=", 1)[1]
            res[pid][key] = parts[3] if len(parts) > 3 else ""
    return res


def run_check(modname, tier, seed, quiet=False):
    import importlib

    t0 = time.time()
    prop = importlib.import_module(modname).PROP
    pid = prop.pid
    pre = prop.precheck(tier) or {}
    shards = list(prop.shards(tier))
    nshards = len(shards)
    if nshards and seed:
        r = seed % nshards
        shards = shards[r:] + shards[:r]
    # wall budget: the property's own figure, but never below a floor that a loaded machine needs;
    # past it the remaining shards are skipped and reported as CAP (exhaustive=False), never as a verdict
    floor = {"quick": 900, "thorough": 5400}.get(tier, 900)
    budget = float(os.environ.get("VERIF_BUDGET", max(prop.budget.get(tier, 150), floor)))
    deadline = t0 + budget
    total = Acc(pid)
    nproc = min(NPROC, max(1, nshards))
    if nproc == 1 or os.environ.get("VERIF_SERIAL"):
        _init_worker(modname, tier, deadline)
        for s in shards:
            total.merge(_run_one(s))
    else:
        ctx = multiprocessing.get_context("fork")
        with ctx.Pool(nproc, initializer=_init_worker, initargs=(modname, tier, deadline, True)) as pool:
            for acc in pool.imap_unordered(_run_one, shards, chunksize=1):
                total.merge(acc)
    wall = time.time() - t0
    if "harness_error" in total.notes:
        sys.stdout.write("HARNESS ERROR in %s:\n%s\n" % (pid, total.notes["harness_error"]))
        return 2

    known = load_findings().get(pid, {})
    unlisted = []
    matched = []
    for key in sorted(total.violations, key=lambda k: (len(canon(total.violations[k]["case"])), k)):
        v = total.violations[key]
        if key in known:
            matched.append(v)
        else:
            unlisted.append(v)
    outroot = os.environ.get("VERIF_OUT", VERIF)  # mutant evaluations write elsewhere
    rdir = os.path.join(outroot, "replays", pid)
    for v in unlisted:
        os.makedirs(rdir, exist_ok=True)
        path = os.path.join(rdir, v["key"] + ".json")
        with open(path, "w") as f:
            json.dump(dict(v, tier=tier), f, indent=1, default=str, sort_keys=True)
        v["path"] = path

    exhaustive = not total.caps
    cov = dict(
        states=max(total.states, 0),
        transitions=max(total.transitions, 0),
        traces_validated_against_impl=total.traces,
        evaluations=total.evaluations,
        distinct_nontrivial=total.nontrivial,
        rule=prop.rule,
        samples=total.samples[:6] or ["(no case executed)"],
        exhaustive=exhaustive,
        distinct_outcomes=len(total.outcomes),
        outcomes={str(k): v for k, v in total.outcomes.most_common(40)},
        counters=dict(total.counters),
        caps=total.caps,
        shards=nshards,
        slowest_shards=total.slow,
        technique=prop.technique,
        known_findings_matched=sorted(v["key"] for v in matched),
        violating_executions=total.violation_count,
        unlisted_violation_keys=[v["key"] for v in unlisted],
    )
    cov.update(pre)
    ev = dict(
        property_id=pid,
        tier=tier,
        seed=seed,
        level=prop.level,
        coverage=cov,
        assumptions=list(prop.assumptions),
        wall_s=round(wall, 2),
        violations=len(unlisted),
    )
    os.makedirs(os.path.join(outroot, "evidence"), exist_ok=True)
    with open(os.path.join(outroot, "evidence", pid + ".json"), "w") as f:
        json.dump(ev, f, indent=1, default=str)

    out = sys.stdout
    out.write(
        "%s tier=%s seed=%d shards=%d executions=%d states=%d transitions=%d validated=%d "
        "nontrivial=%d outcomes=%d exhaustive=%s wall=%.1fs\n"
        % (pid, tier, seed, nshards, total.evaluations, total.states, total.transitions, total.traces,
           total.nontrivial, len(total.outcomes), exhaustive, wall)
    )
    for c in total.caps:
        out.write("CAP: %s\n" % c)
    for v in matched:
        out.write("KNOWN-FINDING: property=%s key=%s %s\n" % (pid, v["key"], known[v["key"]]))
    stale = sorted(set(known) - set(v["key"] for v in matched))
    if stale:
        out.write("note: %d listed finding(s) of %s did not reproduce at tier %s: %s\n"
                  % (len(stale), pid, tier, " ".join(stale[:8]) + (" ..." if len(stale) > 8 else "")))
    for v in unlisted:
        out.write("VIOLATION property=%s replay=%s\n" % (pid, v["path"]))
        if not quiet:
            out.write("   [%s] %s\n      case: %s\n      expected: %s\n      observed: %s  (x%d)\n"
                      % (v["symptom"], v["what"], canon(v["case"])[:600], str(v["expected"])[:300],
                         str(v["observed"])[:300], v["count"]))
    return 1 if unlisted else 0
