"""R8 — brute-force optimisers on top of the possible-world reference R1 (DESIGN.md 2.4).

Everything here enumerates: all total choices of R1 (``worlds.GroundProgram(prog).worlds()``), per
world the well-founded model (``worlds.wfm``), all strategies of a decision program, all joint
states of the MAP query facts.  Exact arithmetic (Fractions) throughout.

Program AST = the AST of vf/ref/worlds.py with two extensions used by the decision grammar:
    a head probability "?" marks a decision (``?::d.`` / ``?::d :- body.``),
    prog["utilities"] = [[sign(bool), atom, value(int)], ...]   (utility(a, v) / utility(\\+a, v)).
"""
import itertools
from fractions import Fraction

from . import worlds


# ---------------------------------------------------------------------------------------------
# MPE

def mpe_reference(prog):
    """All evidence-consistent worlds of ``prog`` with the probabilities of their choices.

    Returns dict:
        negcycle     the ground program has a cycle through negation (caller skips)
        twovalued    every world has a total well-founded model
        nworlds      worlds enumerated
        nchoices     number of ground choices (probabilistic clause instances)
        nlits        number of weighted literals (upper bound of the soft clauses of the MaxSAT encoding)
        consistent   [(probs, T)] per world satisfying the evidence; probs[i] = probability of the option taken
                     by choice i, T = set of true atoms
        excludable   indices of the choices that a goal-directed grounder may legitimately leave out of the
                     ground program: the clause body is false in every world (never fires), or the selection
                     never changes the model (e.g. ``0.3::p. p.``)
        pe           P(evidence)
    """
    gp = worlds.GroundProgram(prog)
    ev = [(worlds.atom_str(e[0]), bool(e[1])) for e in prog.get("evidence", [])]
    qatoms = [worlds.atom_str(q) for q in prog.get("queries", [])]
    universe = gp.atoms() | set(qatoms) | set(a for a, _ in ev)
    choice_insts = [inst for inst in gp.instances if any(p is not None for p, _ in inst[2])]
    n = len(choice_insts)
    res = dict(negcycle=gp.has_negative_cycle(), twovalued=True, nworlds=0, nchoices=n,
               nlits=sum(len(inst[2]) + 1 for inst in choice_insts), consistent=[], excludable=[],
               pe=Fraction(0), gp=gp)
    if res["negcycle"]:
        return res
    fires = [False] * n
    rows = []
    for pw, rules, combo in gp.worlds():
        res["nworlds"] += 1
        T, U = worlds.wfm(rules, universe)
        if T != U:
            res["twovalued"] = False
            return res
        for i, (ci, vals, heads, pos, neg) in enumerate(choice_insts):
            if not fires[i] and all(a in T for a in pos) and all(a not in T for a in neg):
                fires[i] = True
        rows.append((pw, combo, frozenset(T)))
    for i in range(n):
        inert = True
        seen = {}
        for pw, combo, T in rows:
            k = tuple(h for j, (p, h) in enumerate(combo) if j != i)
            if seen.setdefault(k, T) != T:
                inert = False
                break
        if inert or not fires[i]:
            res["excludable"].append(i)
    for pw, combo, T in rows:
        if all((a in T) == v for a, v in ev):
            res["consistent"].append(([p for p, h in combo], T))
            res["pe"] += pw
    return res


# ---------------------------------------------------------------------------------------------
# expected utility

def decisions_of(prog):
    """[(clause index, head atom string)] of the decision clauses (single head with probability '?')"""
    out = []
    for i, cl in enumerate(prog["clauses"]):
        if any(p == "?" for p, _ in cl["heads"]):
            if len(cl["heads"]) != 1:
                raise ValueError("decision ADs are outside the grammar")
            out.append((i, worlds.atom_str(cl["heads"][0][1])))
    return out


def apply_strategy(prog, strategy):
    """program in which decision clause i is deterministic (strategy[i] true) or removed (false)"""
    clauses = []
    for i, cl in enumerate(prog["clauses"]):
        if i in strategy:
            if strategy[i]:
                clauses.append({"heads": [[None, cl["heads"][0][1]]], "body": cl["body"]})
        else:
            clauses.append(cl)
    return {"clauses": clauses, "queries": [], "evidence": []}


def expected_utility(prog, strategy):
    """(EU Fraction, worlds enumerated) or (None, n) if some world is not two-valued"""
    p = apply_strategy(prog, strategy)
    gp = worlds.GroundProgram(p)
    uts = [(bool(s), worlds.atom_str(a), v) for s, a, v in prog.get("utilities", [])]
    universe = gp.atoms() | set(a for _, a, _ in uts)
    eu = Fraction(0)
    n = 0
    for pw, rules, combo in gp.worlds():
        n += 1
        T, U = worlds.wfm(rules, universe)
        if T != U:
            return None, n
        for s, a, v in uts:
            if (a in T) == s:
                eu += pw * v
    return eu, n


def all_strategies(prog):
    """{tuple of bools (one per decision clause, program order): EU}, decisions, worlds enumerated"""
    decs = decisions_of(prog)
    table = {}
    total = 0
    for bits in itertools.product((False, True), repeat=len(decs)):
        eu, n = expected_utility(prog, {ci: b for (ci, _), b in zip(decs, bits)})
        total += n
        table[bits] = eu
    return table, decs, total


# ---------------------------------------------------------------------------------------------
# MAP

def map_reference(prog):
    """Joint distribution of the query atoms with the evidence.
    -> dict(joint {tuple of bools (query order): P(state and e)}, pe, negcycle, twovalued, nworlds)"""
    gp = worlds.GroundProgram(prog)
    qatoms = [worlds.atom_str(q) for q in prog.get("queries", [])]
    ev = [(worlds.atom_str(e[0]), bool(e[1])) for e in prog.get("evidence", [])]
    universe = gp.atoms() | set(qatoms) | set(a for a, _ in ev)
    res = dict(joint={}, pe=Fraction(0), negcycle=gp.has_negative_cycle(), twovalued=True, nworlds=0, qatoms=qatoms)
    if res["negcycle"]:
        return res
    for pw, rules, combo in gp.worlds():
        res["nworlds"] += 1
        T, U = worlds.wfm(rules, universe)
        if T != U:
            res["twovalued"] = False
            return res
        if all((a in T) == v for a, v in ev):
            res["pe"] += pw
            k = tuple(a in T for a in qatoms)
            res["joint"][k] = res["joint"].get(k, Fraction(0)) + pw
    return res
