"""R2 — least-model evaluation of ground AND/OR graphs (possibly cyclic, negation on lower
strata) and a small CNF model counter.  Works on plain data extracted from ProbLog formulas."""
import itertools


def extract(formula):
    """-> list of (index, type, payload): payload = identifier for atoms, tuple of children else"""
    nodes = []
    for i, n, t in formula:
        if t == "atom":
            nodes.append((i, "atom", n.identifier))
        else:
            nodes.append((i, t, tuple(n.children)))
    return nodes


def _sccs(nodes):
    """Tarjan over compound nodes; edges to children (by abs)"""
    graph = {i: [abs(c) for c in pl if c not in (0, None)] for i, t, pl in nodes if t != "atom"}
    index = {}
    low = {}
    onstack = set()
    stack = []
    out = []
    counter = [0]

    def strong(v):
        work = [(v, 0)]
        while work:
            v, pi = work[-1]
            if pi == 0:
                index[v] = low[v] = counter[0]
                counter[0] += 1
                stack.append(v)
                onstack.add(v)
            recurse = False
            succ = graph.get(v, [])
            for k in range(pi, len(succ)):
                w = succ[k]
                if w not in graph:
                    continue
                if w not in index:
                    work[-1] = (v, k + 1)
                    work.append((w, 0))
                    recurse = True
                    break
                elif w in onstack:
                    low[v] = min(low[v], index[w])
            if recurse:
                continue
            if low[v] == index[v]:
                comp = []
                while True:
                    w = stack.pop()
                    onstack.discard(w)
                    comp.append(w)
                    if w == v:
                        break
                out.append(comp)
            work.pop()
            if work:
                u = work[-1][0]
                low[u] = min(low[u], low[v])

    for v in graph:
        if v not in index:
            strong(v)
    return out  # reverse topological: children components first


class Graph(object):
    def __init__(self, nodes):
        self.nodes = nodes
        self.byidx = {i: (t, pl) for i, t, pl in nodes}
        self.atoms = [(i, pl) for i, t, pl in nodes if t == "atom"]
        self.comps = _sccs(nodes)
        self.negative_in_cycle = False
        for comp in self.comps:
            cs = set(comp)
            selfloop = len(comp) == 1 and comp[0] in [abs(c) for c in self.byidx[comp[0]][1] if c not in (0, None)]
            if len(comp) > 1 or selfloop:
                for v in comp:
                    for c in self.byidx[v][1]:
                        if c not in (0, None) and c < 0 and abs(c) in cs:
                            self.negative_in_cycle = True

    def evaluate(self, atom_values):
        """atom_values: {node index: bool}.  Returns {index: bool} for all nodes (least model,
        components evaluated bottom-up)."""
        val = dict(atom_values)

        def lit(c, cur):
            if c == 0:
                return True
            if c is None:
                return False
            v = cur.get(abs(c), False)
            return (not v) if c < 0 else v

        for comp in self.comps:
            for v in comp:
                val[v] = False
            changed = True
            while changed:
                changed = False
                for v in comp:
                    if val[v]:
                        continue
                    t, ch = self.byidx[v]
                    if t == "conj":
                        nv = all(lit(c, val) for c in ch)
                    else:
                        nv = any(lit(c, val) for c in ch)
                    if nv:
                        val[v] = True
                        changed = True
        return val

    def key_value(self, key, val):
        if key == 0:
            return True
        if key is None:
            return False
        v = val.get(abs(key), False)
        return (not v) if key < 0 else v


def clauses_of(cnf):
    """plain list of literal lists from a problog CNF (constraint clauses have head False/None)"""
    res = []
    for c in cnf.clauses:
        if c and c[0] == "c" and isinstance(c[0], str):
            continue
        head, body = c[0], list(c[1:])
        if head is None or (type(head) == bool and not head):
            res.append(body)
        else:
            res.append([head] + body)
    return res


def satisfied(clauses, val):
    for cl in clauses:
        if not any((val.get(abs(l), False) if l > 0 else not val.get(abs(l), False)) for l in cl):
            return False
    return True


def count_models(clauses, nvars, fixed, cap=2):
    """number of models (up to cap) over variables 1..nvars extending the partial assignment
    ``fixed`` {var: bool}; DPLL with unit propagation"""
    count = [0]

    def propagate(assign):
        changed = True
        while changed:
            changed = False
            for cl in clauses:
                unassigned = []
                sat = False
                for l in cl:
                    v = assign.get(abs(l))
                    if v is None:
                        unassigned.append(l)
                    elif v == (l > 0):
                        sat = True
                        break
                if sat:
                    continue
                if not unassigned:
                    return False
                if len(unassigned) == 1:
                    l = unassigned[0]
                    assign[abs(l)] = l > 0
                    changed = True
        return True

    def rec(assign):
        if count[0] >= cap:
            return
        if not propagate(assign):
            return
        free = [v for v in range(1, nvars + 1) if v not in assign]
        if not free:
            count[0] += 1
            return
        v = free[0]
        for b in (False, True):
            a2 = dict(assign)
            a2[v] = b
            rec(a2)

    rec(dict(fixed))
    return count[0]


def all_assignments(keys):
    for bits in itertools.product((False, True), repeat=len(keys)):
        yield dict(zip(keys, bits))
