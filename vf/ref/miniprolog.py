"""R3 -- mini-Prolog reference model (DESIGN.md 2.4), independent of the implementation under test.

Term representation (nothing from ``problog`` is imported here):

    variable   ``Var`` instance (identity = the variable; ``ref`` = binding or None)
    atom       ``str``            'a', '[]', 'true'
    integer    ``int``
    compound   ``tuple``          (functor, arg1, ..., argn)      f(a) = ('f', 'a'); [a] = ('.', 'a', '[]')

Parts:

    read_program / read_term   small standard-Prolog reader (operators of the fragment only)
    show                       writer producing text that both this reader and ProbLog's parser accept
    Machine                    SLD resolution: leftmost literal, depth-first, clauses in textual order;
                               ``,`` ``;`` ``true`` ``fail`` ``=`` ``\\=`` ``\\+`` ``findall/3`` ``call/1`` and
                               a few deterministic builtins needed by the corpus (``is`` with + - *,
                               comparisons, ``between/3``, ``length/2`` on proper lists, ``==``, ``\\==``)
                               -- step bounded (``StepBound``), ``\\+`` on a non-ground goal raises
                               ``Flounder``, anything outside the fragment raises ``Unsupported``
    least_model                bottom-up least Herbrand model of a definite, function-free-pattern
                               program by naive fixpoint over a finite universe (step bounded)

Cut, if-then-else, assert, strings, floats and probabilities are *outside* the fragment: the reader
or the machine raises ``Unsupported`` and the caller skips the program.
"""
import itertools


class Unsupported(Exception):
    """The program lies outside the fragment modelled by this reference."""


class StepBound(Exception):
    """The step / depth bound was exceeded (the program may not terminate)."""


class Flounder(Exception):
    """``\\+`` was called on a non-ground goal (Prolog's answer is not the logical one)."""


class UnknownProcedure(Exception):
    """A goal calls a predicate without clauses (Prolog: existence_error)."""


class InstantiationError(Exception):
    """A goal was an unbound variable / arithmetic on unbound variable."""


class Var(object):
    __slots__ = ("name", "ref")

    def __init__(self, name="_"):
        self.name = name
        self.ref = None

    def __repr__(self):
        return "Var(%s)" % self.name


# ---------------------------------------------------------------------------------------------
# reader

_SYMCH = set("+-*/\\^<>=~:.?@#&$")
_ALNUM = set("abcdefghijklmnopqrstuvwxyzABCDEFGHIJKLMNOPQRSTUVWXYZ0123456789_")

# infix operators: name -> (priority, type)
INFIX = {
    ":-": (1200, "xfx"),
    "::": (1150, "xfx"),   # only recognised in order to reject probabilistic programs
    "<-": (1200, "xfx"),
    ";": (1100, "xfy"),
    "->": (1050, "xfy"),
    ",": (1000, "xfy"),
    "=": (700, "xfx"), "\\=": (700, "xfx"), "==": (700, "xfx"), "\\==": (700, "xfx"),
    "is": (700, "xfx"), "<": (700, "xfx"), ">": (700, "xfx"), "=<": (700, "xfx"), ">=": (700, "xfx"),
    "=:=": (700, "xfx"), "=\\=": (700, "xfx"), "=..": (700, "xfx"),
    "@<": (700, "xfx"), "@>": (700, "xfx"), "@=<": (700, "xfx"), "@>=": (700, "xfx"),
    "+": (500, "yfx"), "-": (500, "yfx"),
    "*": (400, "yfx"), "/": (400, "yfx"), "//": (400, "yfx"), "mod": (400, "yfx"),
    "**": (200, "xfx"), "^": (200, "xfy"),
}
PREFIX = {":-": (1200, "fx"), "\\+": (900, "fy"), "-": (200, "fy"), "+": (200, "fy")}


def tokenize(text):
    """-> list of (kind, value); kinds: atom qatom var int punct end eof.  ``punct`` '(' directly after
    a name is reported as 'open_ct'."""
    toks = []
    i = 0
    n = len(text)
    while i < n:
        c = text[i]
        if c in " \t\r\n":
            i += 1
            continue
        if c == "%":
            while i < n and text[i] != "\n":
                i += 1
            continue
        if c == "/" and text[i:i + 2] == "/*":
            j = text.find("*/", i + 2)
            if j < 0:
                raise Unsupported("unterminated block comment")
            i = j + 2
            continue
        if c.isdigit():
            j = i
            while j < n and text[j].isdigit():
                j += 1
            if j + 1 < n and text[j] == "." and text[j + 1].isdigit():
                raise Unsupported("float")
            if j < n and text[j] in "eE'":
                raise Unsupported("number syntax")
            toks.append(("int", int(text[i:j])))
            i = j
            continue
        if c == "_" or c.isalpha():
            j = i
            while j < n and text[j] in _ALNUM:
                j += 1
            word = text[i:j]
            kind = "var" if (c == "_" or c.isupper()) else "atom"
            toks.append((kind, word))
            i = j
            if i < n and text[i] == "(":
                toks.append(("open_ct", "("))
                i += 1
            continue
        if c == "'":
            j = i + 1
            buf = []
            while True:
                if j >= n:
                    raise Unsupported("unterminated quoted atom")
                if text[j] == "'":
                    if text[j + 1:j + 2] == "'":
                        buf.append("'")
                        j += 2
                        continue
                    break
                if text[j] == "\\":
                    raise Unsupported("escape in quoted atom")
                buf.append(text[j])
                j += 1
            toks.append(("qatom", "".join(buf)))
            i = j + 1
            if i < n and text[i] == "(":
                toks.append(("open_ct", "("))
                i += 1
            continue
        if c == '"':
            raise Unsupported("string")
        if c in "()[]{}|,":
            if c in "{}":
                raise Unsupported("curly term")
            toks.append(("punct", c))
            i += 1
            continue
        if c == "!":
            raise Unsupported("cut")
        if c == ";":
            toks.append(("atom", ";"))
            i += 1
            continue
        if c in _SYMCH:
            j = i
            while j < n and text[j] in _SYMCH:
                j += 1
            sym = text[i:j]
            if sym == "." and (j >= n or text[j] in " \t\r\n%"):
                toks.append(("end", "."))
                i = j
                continue
            if sym.endswith(".") and len(sym) > 1 and (j >= n or text[j] in " \t\r\n%") and sym != "=..":
                # symbol atom followed by the end token, e.g. "X = +."  -- not needed by the fragment
                sym = sym[:-1]
                toks.append(("atom", sym))
                toks.append(("end", "."))
                i = j
                continue
            toks.append(("atom", sym))
            i = j
            if i < n and text[i] == "(":
                toks.append(("open_ct", "("))
                i += 1
            continue
        raise Unsupported("character %r" % c)
    toks.append(("eof", None))
    return toks


class _Parser(object):
    def __init__(self, toks):
        self.toks = toks
        self.pos = 0
        self.vars = {}

    def peek(self):
        return self.toks[self.pos]

    def next(self):
        t = self.toks[self.pos]
        self.pos += 1
        return t

    def expect(self, kind, value):
        t = self.next()
        if t != (kind, value):
            raise Unsupported("syntax: expected %r, got %r" % (value, t))

    def starts_term(self):
        k, v = self.peek()
        if k in ("int", "var", "qatom", "open_ct"):
            return True
        if k == "punct":
            return v in "(["
        if k == "atom":
            return v not in INFIX or v in PREFIX
        return False

    def parse(self, maxprec):
        left, lp = self.primary(maxprec)
        while True:
            k, v = self.peek()
            if k == "punct" and v == ",":
                name = ","
            elif k == "punct" and v == "|":
                break
            elif k == "atom" and v in INFIX:
                name = v
            else:
                break
            prec, typ = INFIX[name]
            if prec > maxprec:
                break
            la = prec - 1 if typ[0] == "x" else prec
            ra = prec - 1 if typ[2] == "x" else prec
            if lp > la:
                break
            self.next()
            right = self.parse(ra)
            left = (name, left, right)
            lp = prec
        return left

    def arglist(self):
        args = [self.parse(999)]
        while self.peek() == ("punct", ","):
            self.next()
            args.append(self.parse(999))
        return args

    def primary(self, maxprec):
        k, v = self.next()
        if k == "int":
            return v, 0
        if k == "var":
            if v == "_":
                return Var("_"), 0
            if v not in self.vars:
                self.vars[v] = Var(v)
            return self.vars[v], 0
        if k == "punct" and v == "(":
            t = self.parse(1200)
            self.expect("punct", ")")
            return t, 0
        if k == "punct" and v == "[":
            if self.peek() == ("punct", "]"):
                self.next()
                name = "[]"
                if self.peek() == ("open_ct", "("):
                    raise Unsupported("[](...)")
                return name, 0
            items = self.arglist()
            tail = "[]"
            if self.peek() == ("punct", "|"):
                self.next()
                tail = self.parse(999)
            self.expect("punct", "]")
            for it in reversed(items):
                tail = (".", it, tail)
            return tail, 0
        if k in ("atom", "qatom"):
            if self.peek() == ("open_ct", "("):
                self.next()
                args = self.arglist()
                self.expect("punct", ")")
                return (v,) + tuple(args), 0
            if k == "atom" and v == "-" and self.peek()[0] == "int":
                return -self.next()[1], 0
            if k == "atom" and v in PREFIX and self.starts_term():
                prec, typ = PREFIX[v]
                if prec > maxprec:
                    prec = 999
                ra = prec - 1 if typ[1] == "x" else prec
                arg = self.parse(ra)
                return (v, arg), prec
            if k == "atom" and v in INFIX and v not in ("-", "+"):
                # an infix operator as an atom: priority 1201 unless in parentheses; keep simple
                return v, 0
            return v, 0
        raise Unsupported("syntax: unexpected token %r" % ((k, v),))


def read_term(text):
    """Parse one term (no terminating '.' required)."""
    toks = tokenize(text)
    if len(toks) >= 2 and toks[-2] == ("end", "."):
        toks = toks[:-2] + [("eof", None)]
    p = _Parser(toks)
    t = p.parse(1200)
    if p.peek()[0] != "eof":
        raise Unsupported("syntax: trailing input %r" % (p.peek(),))
    return t


def read_clauses(text):
    """Parse a program text -> list of clause terms (each with its own variables)."""
    toks = tokenize(text)
    res = []
    pos = 0
    while toks[pos][0] != "eof":
        p = _Parser(toks)
        p.pos = pos
        t = p.parse(1200)
        if p.peek() != ("end", "."):
            raise Unsupported("syntax: expected end of clause, got %r" % (p.peek(),))
        pos = p.pos + 1
        res.append(t)
    return res


CONTROL = {(",", 2), (";", 2), ("\\+", 1), ("findall", 3), ("call", 1)}
BUILTINS = {
    ("true", 0), ("fail", 0), ("false", 0), ("=", 2), ("\\=", 2), ("==", 2), ("\\==", 2), ("is", 2),
    ("<", 2), (">", 2), ("=<", 2), (">=", 2), ("=:=", 2), ("=\\=", 2), ("between", 3), ("length", 2),
} | CONTROL


def signature(t):
    if isinstance(t, tuple):
        return (t[0], len(t) - 1)
    if isinstance(t, str):
        return (t, 0)
    return None


class Program(object):
    """Clauses grouped by predicate, in textual order.  ``directives`` are kept separately."""

    def __init__(self, clause_terms):
        self.clauses = []      # (head, body) in textual order
        self.preds = {}        # (name, arity) -> list of (head, body)
        self.directives = []
        for c in clause_terms:
            if isinstance(c, tuple) and c[0] == ":-" and len(c) == 2:
                self.directives.append(c[1])
                continue
            if isinstance(c, tuple) and c[0] in ("::", "<-"):
                raise Unsupported("probabilistic clause")
            if isinstance(c, tuple) and c[0] == ":-" and len(c) == 3:
                head, body = c[1], c[2]
            else:
                head, body = c, "true"
            if isinstance(head, tuple) and head[0] in ("::", ";"):
                raise Unsupported("probabilistic / disjunctive head")
            sig = signature(head)
            if sig is None or isinstance(head, Var):
                raise Unsupported("clause head %r" % (head,))
            if sig in BUILTINS:
                raise Unsupported("redefinition of builtin %s/%d" % sig)
            _check_body(body)
            self.clauses.append((head, body))
            self.preds.setdefault(sig, []).append((head, body))

    @classmethod
    def from_text(cls, text):
        return cls(read_clauses(text))


def _check_body(b):
    if isinstance(b, tuple):
        if b[0] == "::":
            raise Unsupported("probabilistic body")
        if b[0] == "->" and len(b) == 3:
            raise Unsupported("if-then-else")
        if b[0] in (",", ";") and len(b) == 3:
            _check_body(b[1])
            _check_body(b[2])
        elif b[0] == "\\+" and len(b) == 2:
            _check_body(b[1])
        elif b[0] == "findall" and len(b) == 4:
            _check_body(b[2])
        elif b[0] == "call" and len(b) == 2:
            _check_body(b[1])


def body_literals(b, out=None, negated=False, inner=False):
    """Flatten a body into (signature, negated?, inside findall/negation?) of the user/builtin atoms."""
    if out is None:
        out = []
    if isinstance(b, Var):
        out.append((None, negated, inner))
    elif isinstance(b, tuple) and b[0] in (",", ";") and len(b) == 3:
        body_literals(b[1], out, negated, inner)
        body_literals(b[2], out, negated, inner)
    elif isinstance(b, tuple) and b[0] == "\\+" and len(b) == 2:
        out.append((("\\+", 1), negated, inner))
        body_literals(b[1], out, True, True)
    elif isinstance(b, tuple) and b[0] == "findall" and len(b) == 4:
        out.append((("findall", 3), negated, inner))
        body_literals(b[2], out, negated, True)
    elif isinstance(b, tuple) and b[0] == "call" and len(b) == 2:
        out.append((("call", 1), negated, inner))
        body_literals(b[1], out, negated, inner)
    else:
        out.append((signature(b), negated, inner))
    return out


# ---------------------------------------------------------------------------------------------
# writer

def _atom_text(a):
    if a == "[]":
        return a
    if a and (a[0].islower() and all(ch in _ALNUM for ch in a)):
        return a
    if a and all(ch in _SYMCH for ch in a):
        return a
    if a == ";" or a == ",":
        return "'%s'" % a
    return "'%s'" % a.replace("'", "''")


VAR_NAMES = ("X", "Y", "Z", "W", "V", "U")


def var_name(i):
    return VAR_NAMES[i] if i < len(VAR_NAMES) else "X%d" % (i + 1)


def show(t, names=None, maxprec=999):
    """Text of a term.  ``names``: dict Var -> name, filled in first-occurrence order (X, Y, Z, ...)."""
    if names is None:
        names = {}
    return _show(t, names, maxprec)


def _show(t, names, maxprec):
    t = deref(t)
    if isinstance(t, Var):
        if t not in names:
            names[t] = var_name(len(names))
        return names[t]
    if isinstance(t, bool):
        raise Unsupported("bool")
    if isinstance(t, int):
        return str(t)
    if isinstance(t, str):
        return _atom_text(t)
    f = t[0]
    n = len(t) - 1
    if f == "." and n == 2:
        items = []
        while isinstance(t, tuple) and t[0] == "." and len(t) == 3:
            items.append(_show(t[1], names, 999))
            t = deref(t[2])
        if t == "[]":
            return "[" + ",".join(items) + "]"
        return "[" + ",".join(items) + "|" + _show(t, names, 999) + "]"
    if n == 2 and f in INFIX:
        prec, typ = INFIX[f]
        la = prec - 1 if typ[0] == "x" else prec
        ra = prec - 1 if typ[2] == "x" else prec
        if f == ",":
            s = _show(t[1], names, la) + ", " + _show(t[2], names, ra)
        else:
            s = _show(t[1], names, la) + " " + f + " " + _show(t[2], names, ra)
        if prec > maxprec:
            s = "(" + s + ")"
        return s
    if n == 1 and f in PREFIX and f != ":-":
        prec, typ = PREFIX[f]
        ra = prec - 1 if typ[1] == "x" else prec
        if f == "\\+":
            s = "\\+ " + _show(t[1], names, ra)
        else:
            s = f + "(" + _show(t[1], names, 999) + ")"
            prec = 0
        if prec > maxprec:
            s = "(" + s + ")"
        return s
    return _atom_text(f) + "(" + ",".join(_show(a, names, 999) for a in t[1:]) + ")"


def show_clause(head, body, names=None):
    if names is None:
        names = {}
    if body == "true":
        return show(head, names, 999) + "."
    return show(head, names, 999) + " :- " + show(body, names, 1199) + "."


# ---------------------------------------------------------------------------------------------
# terms

def deref(t):
    while type(t) is Var and t.ref is not None:
        t = t.ref
    return t


def resolve(t):
    """Fully dereferenced copy (unbound variables stay the same Var objects)."""
    t = deref(t)
    if type(t) is tuple:
        return (t[0],) + tuple(resolve(a) for a in t[1:])
    return t


def rename(t, m):
    """Copy with fresh variables (``m``: old Var -> new Var)."""
    t = deref(t)
    if type(t) is Var:
        v = m.get(t)
        if v is None:
            v = m[t] = Var(t.name)
        return v
    if type(t) is tuple:
        return (t[0],) + tuple(rename(a, m) for a in t[1:])
    return t


def term_vars(t, acc=None):
    if acc is None:
        acc = []
    t = deref(t)
    if type(t) is Var:
        if t not in acc:
            acc.append(t)
    elif type(t) is tuple:
        for a in t[1:]:
            term_vars(a, acc)
    return acc


def is_ground(t):
    t = deref(t)
    if type(t) is Var:
        return False
    if type(t) is tuple:
        return all(is_ground(a) for a in t[1:])
    return True


def canon(t, m=None):
    """Hashable canonical form up to variable renaming: variables become ('$VAR', i) in first-occurrence
    order."""
    if m is None:
        m = {}
    t = deref(t)
    if type(t) is Var:
        if t not in m:
            m[t] = ("$VAR", len(m))
        return m[t]
    if type(t) is tuple:
        return (t[0],) + tuple(canon(a, m) for a in t[1:])
    return t


def list_items(t):
    """Proper list -> python list of items, else None."""
    out = []
    t = deref(t)
    while type(t) is tuple and t[0] == "." and len(t) == 3:
        out.append(t[1])
        t = deref(t[2])
    if t == "[]":
        return out
    return None


def make_list(items):
    t = "[]"
    for x in reversed(items):
        t = (".", x, t)
    return t


# ---------------------------------------------------------------------------------------------
# SLD machine

class Machine(object):
    def __init__(self, program, max_steps=20000, max_depth=40, on_unknown="error"):
        self.program = program
        self.preds = program.preds
        self.max_steps = max_steps
        self.max_depth = max_depth
        self.steps = 0
        self.trail = []
        self.on_unknown = on_unknown

    # -- bindings
    def undo(self, mark):
        trail = self.trail
        while len(trail) > mark:
            trail.pop().ref = None

    def unify(self, a, b):
        """Unify, binding on the trail.  On failure bindings made so far are left for the caller to undo.
        An occurs-check hit is outside the fragment (Prolog would build a cyclic term)."""
        stack = [(a, b)]
        while stack:
            a, b = stack.pop()
            a = deref(a)
            b = deref(b)
            if a is b:
                continue
            if type(b) is Var:
                # (the right-hand side is the freshly renamed clause head: binding it keeps reference
                # chains short in deep recursions)
                if type(a) is tuple and self._occurs(b, a):
                    raise Unsupported("cyclic term")
                b.ref = a
                self.trail.append(b)
            elif type(a) is Var:
                if type(b) is tuple and self._occurs(a, b):
                    raise Unsupported("cyclic term")
                a.ref = b
                self.trail.append(a)
            elif type(a) is tuple:
                if type(b) is not tuple or a[0] != b[0] or len(a) != len(b):
                    return False
                for x, y in zip(a[1:], b[1:]):
                    stack.append((x, y))
            else:
                if type(a) is not type(b) or a != b:
                    return False
        return True

    def _occurs(self, v, t):
        t = deref(t)
        if t is v:
            return True
        if type(t) is tuple:
            return any(self._occurs(v, x) for x in t[1:])
        return False

    def tick(self):
        self.steps += 1
        if self.steps > self.max_steps:
            raise StepBound()

    # -- arithmetic (corpus validation only)
    def arith(self, e):
        e = deref(e)
        if type(e) is Var:
            raise InstantiationError()
        if type(e) is int:
            return e
        if type(e) is tuple and len(e) == 3 and e[0] in ("+", "-", "*"):
            x = self.arith(e[1])
            y = self.arith(e[2])
            return x + y if e[0] == "+" else x - y if e[0] == "-" else x * y
        if type(e) is tuple and len(e) == 2 and e[0] == "-":
            return -self.arith(e[1])
        raise Unsupported("arithmetic %r" % (e,))

    # -- resolution
    def solve(self, goal, depth=0):
        """Generator: yields once per solution, with the bindings live (read them before resuming)."""
        if depth > self.max_depth:
            raise StepBound()
        trail = self.trail
        base = len(trail)
        # frames: (0, goals, mark) | (1, goal, clauses, index, rest, mark);  goals = (goal, rest) | None
        stack = [(0, (goal, None), base)]
        try:
            while stack:
                fr = stack.pop()
                self.undo(fr[-1])
                if fr[0] == 0:
                    goals = fr[1]
                else:
                    _, g, clauses, i, rest, mark = fr
                    n = len(clauses)
                    found = False
                    while i < n:
                        if not _may_match(g, clauses[i][0]):
                            i += 1     # (pure optimisation: an atomic argument clashes)
                            continue
                        self.tick()
                        m = {}
                        head = rename(clauses[i][0], m)
                        i += 1
                        if self.unify(g, head):
                            body = clauses[i - 1][1]
                            if i < n:
                                stack.append((1, g, clauses, i, rest, mark))
                            goals = rest if body == "true" else (rename(body, m), rest)
                            found = True
                            break
                        self.undo(mark)
                    if not found:
                        continue
                while True:
                    if goals is None:
                        yield True
                        break
                    self.tick()
                    g, rest = goals
                    g = deref(g)
                    if type(g) is Var:
                        raise InstantiationError()
                    if type(g) is int:
                        raise Unsupported("callable expected")
                    sig = (g[0], len(g) - 1) if type(g) is tuple else (g, 0)
                    if sig == (",", 2):
                        goals = (g[1], (g[2], rest))
                    elif sig == ("true", 0):
                        goals = rest
                    elif sig == ("fail", 0) or sig == ("false", 0):
                        break
                    elif sig == (";", 2):
                        left = deref(g[1])
                        if type(left) is tuple and left[0] == "->" and len(left) == 3:
                            raise Unsupported("if-then-else")
                        stack.append((0, (g[2], rest), len(trail)))
                        goals = (g[1], rest)
                    elif sig == ("->", 2):
                        raise Unsupported("if-then")
                    elif sig == ("=", 2):
                        mark = len(trail)
                        if self.unify(g[1], g[2]):
                            goals = rest
                        else:
                            self.undo(mark)
                            break
                    elif sig == ("\\=", 2):
                        mark = len(trail)
                        ok = self.unify(g[1], g[2])
                        self.undo(mark)
                        if ok:
                            break
                        goals = rest
                    elif sig == ("==", 2) or sig == ("\\==", 2):
                        same = canon_pair_equal(g[1], g[2])
                        if same == (sig[0] == "=="):
                            goals = rest
                        else:
                            break
                    elif sig == ("\\+", 1):
                        if not is_ground(g[1]):
                            raise Flounder()
                        succeeded = False
                        gen = self.solve(g[1], depth + 1)
                        try:
                            for _ in gen:
                                succeeded = True
                                break
                        finally:
                            gen.close()
                        if succeeded:
                            break
                        goals = rest
                    elif sig == ("call", 1):
                        goals = (g[1], rest)
                    elif sig == ("findall", 3):
                        tail = deref(g[3])
                        while type(tail) is tuple and tail[0] == "." and len(tail) == 3:
                            tail = deref(tail[2])
                        if type(tail) is not Var and tail != "[]":
                            # ISO / SWI-Prolog: type_error(list, ...) -- an error, not a failure
                            raise Unsupported("findall/3: third argument is not a (partial) list")
                        sols = []
                        for _ in self.solve(g[2], depth + 1):
                            sols.append(rename(g[1], {}))   # findall copies each solution
                        mark = len(trail)
                        if self.unify(g[3], make_list(sols)):
                            goals = rest
                        else:
                            self.undo(mark)
                            break
                    elif sig == ("is", 2):
                        v = self.arith(g[2])
                        mark = len(trail)
                        if self.unify(g[1], v):
                            goals = rest
                        else:
                            self.undo(mark)
                            break
                    elif sig in (("<", 2), (">", 2), ("=<", 2), (">=", 2), ("=:=", 2), ("=\\=", 2)):
                        x = self.arith(g[1])
                        y = self.arith(g[2])
                        ok = {"<": x < y, ">": x > y, "=<": x <= y, ">=": x >= y, "=:=": x == y,
                              "=\\=": x != y}[sig[0]]
                        if ok:
                            goals = rest
                        else:
                            break
                    elif sig == ("between", 3):
                        lo = deref(g[1])
                        hi = deref(g[2])
                        x = deref(g[3])
                        if type(lo) is not int or type(hi) is not int:
                            raise Unsupported("between/3 mode")
                        if type(x) is int:
                            if lo <= x <= hi:
                                goals = rest
                            else:
                                break
                        elif type(x) is Var:
                            if lo > hi:
                                break
                            # X = lo ; X = lo+1 ; ... ; X = hi, built right-nested
                            alt = ("=", x, hi)
                            for k in range(hi - 1, lo - 1, -1):
                                alt = (";", ("=", x, k), alt)
                            goals = (alt, rest)
                        else:
                            raise Unsupported("between/3 type")
                    elif sig == ("length", 2):
                        items = list_items(g[1])
                        if items is None:
                            raise Unsupported("length/2 on partial list")
                        mark = len(trail)
                        if self.unify(g[2], len(items)):
                            goals = rest
                        else:
                            self.undo(mark)
                            break
                    else:
                        clauses = self.preds.get(sig)
                        if clauses is None:
                            if self.on_unknown == "fail":
                                break
                            raise UnknownProcedure("%s/%d" % sig)
                        stack.append((1, g, clauses, 0, rest, len(trail)))
                        break
        finally:
            self.undo(base)

    def solutions(self, goal, template):
        """All solutions of ``goal`` in SLD order: list of copies of ``template`` (fresh variables per
        solution, as ``findall/3`` would return them)."""
        out = []
        for _ in self.solve(goal):
            out.append(rename(template, {}))
        return out


def _may_match(goal, head):
    """False only if some argument pair clashes on atomic values / principal functors."""
    if type(goal) is not tuple:
        return True
    for x, y in zip(goal[1:], head[1:]):
        if type(y) is Var:
            continue
        x = deref(x)
        if type(x) is Var:
            continue
        if type(x) is tuple:
            if type(y) is not tuple or x[0] != y[0] or len(x) != len(y):
                return False
        elif type(y) is tuple or type(x) is not type(y) or x != y:
            return False
    return True


def canon_pair_equal(a, b):
    """Structural identity (==): same term with the *same* variables."""
    a = deref(a)
    b = deref(b)
    if type(a) is Var or type(b) is Var:
        return a is b
    if type(a) is tuple:
        return (type(b) is tuple and a[0] == b[0] and len(a) == len(b)
                and all(canon_pair_equal(x, y) for x, y in zip(a[1:], b[1:])))
    return type(a) is type(b) and a == b


# ---------------------------------------------------------------------------------------------
# static analysis

def dependency_graph(program):
    """(name, arity) -> set of (callee signature, negated?, inner?) for user predicates."""
    g = {}
    for head, body in program.clauses:
        s = g.setdefault(signature(head), set())
        for sig, neg, inner in body_literals(body):
            s.add((sig, neg, inner))
    return g


def reachable(program, goal):
    """User predicate signatures reachable from ``goal`` (a body term); None in the result set means a
    variable goal (call/1 on unknown) was seen."""
    g = dependency_graph(program)
    seen = set()
    todo = [sig for sig, _, _ in body_literals(goal)]
    while todo:
        s = todo.pop()
        if s in seen:
            continue
        seen.add(s)
        for (c, _, _) in g.get(s, ()):
            todo.append(c)
    return seen


def analyse(program, goal):
    """-> dict(recursive=bool, through_inner=bool, undefined=[sigs], unstratified=bool, definite=bool,
    variable_goal=bool) for the part of the program reachable from ``goal``.

    recursive       a reachable user predicate lies on a predicate-level cycle
    through_inner   such a cycle passes through a goal inside findall/3 or \\+ (Prolog loops; unstratified
                    if through \\+)
    definite        the reachable part uses only user atoms, ``=``, ``,``, ``;``, true, fail
    """
    g = dependency_graph(program)
    reach = reachable(program, goal)
    user = set(s for s in reach if s in program.preds)
    undefined = sorted(s for s in reach if s is not None and s not in program.preds and s not in BUILTINS)
    # edges among user predicates
    edges = {s: set() for s in user}
    inner_edges = set()
    for s in user:
        for c, neg, inner in g.get(s, ()):
            if c in user:
                edges[s].add(c)
                if inner or neg:
                    inner_edges.add((s, c))

    def reaches(a, b):
        seen = set()
        todo = [a]
        while todo:
            x = todo.pop()
            for y in edges.get(x, ()):
                if y == b:
                    return True
                if y not in seen:
                    seen.add(y)
                    todo.append(y)
        return False

    recursive = any(reaches(s, s) for s in user)
    through_inner = any(c == s or reaches(c, s) for (s, c) in inner_edges)
    allowed = {("=", 2), (",", 2), (";", 2), ("true", 0), ("fail", 0), ("false", 0), ("call", 1)}
    lits = list(body_literals(goal))
    for s in user:
        for head, body in program.preds[s]:
            lits.extend(body_literals(body))
    definite = all((sig in program.preds or sig in allowed) and not neg and not inner and sig is not None
                   for sig, neg, inner in lits)
    return dict(recursive=recursive, through_inner=through_inner, undefined=undefined, definite=definite,
                variable_goal=None in reach)


# ---------------------------------------------------------------------------------------------
# bottom-up least Herbrand model

FRESH = ("$k1", "$k2", "$k3")


def ground_subterms(t, acc):
    """Collect the constants and the maximal-or-not ground compound subterms of ``t`` as universe
    elements; raise Unsupported for a non-ground compound (pattern with function symbol)."""
    t = deref(t)
    if type(t) is Var:
        return
    if type(t) is tuple:
        if not is_ground(t):
            raise Unsupported("non-ground compound term in bottom-up evaluation")
        acc.add(t)
        for a in t[1:]:
            ground_subterms(a, acc)
    else:
        acc.add(t)


def _atom_args(t):
    return t[1:] if type(t) is tuple else ()


def universe_of(program, goals, nfresh=2):
    acc = set()
    for head, body in program.clauses:
        for a in _atom_args(head):
            ground_subterms(a, acc)
        _body_universe(body, acc)
    for g in goals:
        _body_universe(g, acc)
    return sorted(acc, key=repr) + list(FRESH[:nfresh])


def _body_universe(b, acc):
    b = deref(b)
    if type(b) is tuple and b[0] in (",", ";") and len(b) == 3:
        _body_universe(b[1], acc)
        _body_universe(b[2], acc)
    elif type(b) is tuple and b[0] == "call" and len(b) == 2:
        _body_universe(b[1], acc)
    elif type(b) is tuple:
        for a in b[1:]:
            ground_subterms(a, acc)


def _subst(t, env):
    if type(t) is Var:
        return env[t]
    if type(t) is tuple:
        return (t[0],) + tuple(_subst(a, env) for a in t[1:])
    return t


def _holds(b, env, model, preds):
    """Truth of a body under a ground assignment of its variables."""
    if type(b) is tuple and len(b) == 3 and b[0] == ",":
        return _holds(b[1], env, model, preds) and _holds(b[2], env, model, preds)
    if type(b) is tuple and len(b) == 3 and b[0] == ";":
        return _holds(b[1], env, model, preds) or _holds(b[2], env, model, preds)
    if b == "true":
        return True
    if b == "fail" or b == "false":
        return False
    if type(b) is tuple and len(b) == 3 and b[0] == "=":
        return _subst(b[1], env) == _subst(b[2], env)
    if type(b) is tuple and len(b) == 2 and b[0] == "call":
        return _holds(b[1], env, model, preds)
    sig = signature(b)
    if sig not in preds:
        raise Unsupported("bottom-up evaluation of %r" % (sig,))
    return _subst(b, env) in model


def least_model(program, universe, max_steps=400000):
    """Least Herbrand model restricted to ``universe`` (naive fixpoint: every clause, every assignment
    of its variables to universe elements, until nothing new).  -> set of ground atoms."""
    model = set()
    steps = 0
    clauses = []
    for head, body in program.clauses:
        vs = term_vars((":-", head, body))
        clauses.append((head, body, vs))
    changed = True
    while changed:
        changed = False
        for head, body, vs in clauses:
            for vals in itertools.product(universe, repeat=len(vs)):
                steps += 1
                if steps > max_steps:
                    raise StepBound()
                env = dict(zip(vs, vals))
                h = _subst(head, env)
                if h in model:
                    continue
                if _holds(body, env, model, program.preds):
                    model.add(h)
                    changed = True
    return model


def model_answers(model, program, goal, template, universe, max_steps=400000):
    """Set of ground instances of ``template`` for the assignments (over ``universe``) of the variables of
    goal+template under which ``goal`` holds in ``model``."""
    vs = term_vars((",", goal, template))
    out = set()
    steps = 0
    for vals in itertools.product(universe, repeat=len(vs)):
        steps += 1
        if steps > max_steps:
            raise StepBound()
        env = dict(zip(vs, vals))
        if _holds(goal, env, model, program.preds):
            out.add(_subst(template, env))
    return out


def ground_instances(t, universe, limit=100000):
    """All instances of ``t`` (a resolved term possibly containing variables) over ``universe``."""
    vs = term_vars(t)
    if len(universe) ** len(vs) > limit:
        raise StepBound()
    out = set()
    for vals in itertools.product(universe, repeat=len(vs)):
        out.add(_subst(t, dict(zip(vs, vals))))
    return out


# ---------------------------------------------------------------------------------------------
# running a corpus file (validation of this reference against the maintainers' expectations)

def read_expected(text):
    """The ``%Expected outcome:`` header -> dict query-text -> float, or ('error', name); mirrors
    problog/test/test_system.py:read_result."""
    results = {}
    reading = False
    for l in text.split("\n"):
        l = l.strip()
        if l.startswith("%Expected outcome:"):
            reading = True
        elif reading:
            if l.lower().startswith("% error"):
                return ("error", l[len("% error"):].strip())
            elif l.startswith("% "):
                query, prob = l[2:].rsplit(None, 1)
                results[query.strip()] = float(prob.strip())
            else:
                reading = False
        if l.startswith("query(") and l.find("% outcome:") >= 0:
            pos = l.find("% outcome:")
            query = l[6:pos].strip().rstrip(".").rstrip()[:-1]
            results[query.strip()] = float(l[pos + 10:].strip())
    return results


# Predicates that a Prolog / ProbLog system defines itself but that this reference does not model.  A
# program calling one of them is outside the fragment (``Unsupported``), it is *not* an unknown procedure.
OTHER_BUILTINS = set("""
sort msort predsort succ plus compare is_list clause atom atomic var nonvar number integer float
compound callable ground functor arg copy_term assert asserta assertz assertz retract retractall
atom_length atom_chars atom_codes atom_number number_codes char_code sub_atom atom_string concat
write writeln writenl print nl format read halt once forall ignore not apply maplist foldl
setof bagof aggregate_all all all_or_none findall4 subquery call_nc debugprint write_canonical
append member memberchk select nth0 nth1 last reverse sum_list sumlist max_list min_list list_to_set
subtract intersection union delete exclude include partition unzip zip flatten permutation
=.. @< @> @=< @>= -> *-> cut try_call consult use_module load_external unknown cmd_args
str2lst lst2str str2atom join concat_str int_plus int_between is_rational is_dict is_number is_term
is_string is_integer is_float is_atom is_var is_nonvar is_compound is_callable is_ground is_number
sample_uniform select_uniform select_weighted possible seq trace notrace tab
""".split())


def run_corpus_text(text, max_steps=200000):
    """Evaluate every ``query/1`` of a deterministic program the way ``problog`` reports it:
    -> dict canonical query instance -> 1.0 (answer) / 0.0 (ground query that fails), or
    ('error', 'UnknownClause').  Raises Unsupported / StepBound / Flounder outside the fragment."""
    clauses = read_clauses(text)
    full = Program(clauses)
    if full.directives:
        raise Unsupported("directive")
    for s in full.preds:
        if s[0] in ("evidence", "clause", "unknown", "consult", "use_module", "subquery"):
            raise Unsupported(s[0])
    if ("query", 1) not in full.preds:
        raise Unsupported("no query")
    program = Program([c for c in clauses if signature(c[1] if signature(c) == (":-", 2) else c) != ("query", 1)])
    out = {}
    for head, body in full.preds[("query", 1)]:
        m = {}
        q = rename(head[1], m)
        b = rename(body, m)
        goal = (",", b, q)
        mach = Machine(program, max_steps=max_steps)
        try:
            answers = [canon(t) for t in mach.solutions(goal, q)]
        except UnknownProcedure as err:
            if str(err).rsplit("/", 1)[0] in OTHER_BUILTINS:
                raise Unsupported("builtin " + str(err))
            return ("error", "UnknownClause")
        except StepBound:
            # left recursion etc.: the answer *set* is the least model (definite programs only)
            info = analyse(program, goal)
            if not (info["recursive"] and info["definite"]) or body != "true" or info["variable_goal"]:
                raise
            uni = universe_of(program, [q])
            model = least_model(program, uni)
            answers = [canon(t) for t in sorted(model_answers(model, program, q, q, uni), key=repr)]
            if any(_mentions_fresh(a) for a in answers):
                raise Unsupported("non-ground answers of a recursive program")
        if not answers and is_ground(q):
            out[canon(q)] = 0.0
        for a in answers:
            out[a] = 1.0
    return out


def _mentions_fresh(t):
    if type(t) is tuple:
        return any(_mentions_fresh(a) for a in t[1:])
    return t in FRESH
