"""R6 — reference model for arithmetic (is/2, arithmetic comparison) and the term-inspection
builtins of property C16, after ISO Prolog / SWI-Prolog 9 (default flags: iso=false,
prefer_rationals=false, float_overflow=error, float_zero_div=error, float_undefined=error,
integer_rounding_function=toward_zero) and Yap 6.

Neither system is installed here, so this module is a hand-written model.  It never returns "the"
answer but an *accepted set*: every answer SWI-Prolog or Yap is known (or suspected) to give.  Where
the two systems differ, or where this model is not certain, the set is widened and the case is
labelled with an *unjudged category* (``cats``) — such a case can never alarm on the widened part.

Expression trees (JSON):   3 | 0.5 | ["+", a, b] | ["abs", a] | ["pi"] | {"v": "Y"} | {"a": "foo"}
Terms (JSON):              3 | 0.5 | {"v": "X"} | {"a": "foo"} | {"f": "g", "x": [t, ...]}
                           | {"l": [t, ...]} | {"l": [t, ...], "t": tail}

Sources for the judged rules are cited next to each rule: ISO/IEC 13211-1 section 9 (evaluable
functors), the SWI-Prolog manual section 4.27 (arithmetic) and 4.21/4.22 (term inspection), the
Yap 6.3 manual section "Arithmetic" and YAP's C/arith1.c, C/arith2.c.
"""
import itertools
import math
import re

INT = "int"
FLT = "float"

EPSILON = 2.220446049250313e-16  # float epsilon: ISO/SWI/Yap `epsilon`, DBL_EPSILON

# ---------------------------------------------------------------------------------------------
# the documented function list (docs/source/prolog.rst, "Arithmetic", "Supported")

BINARY = ["+", "-", "*", "/", "//", "mod", "rem", "div", "atan", "max", "min", "^", "exp", "**",
          "/\\", "\\/", "#", "><", "xor", "<<", ">>"]
UNARY = ["-", "exp", "log", "log10", "sqrt", "sin", "cos", "tan", "asin", "acos", "atan", "sinh",
         "cosh", "tanh", "asinh", "acosh", "atanh", "lgamma", "erf", "erfc", "integer", "float",
         "float_fractional_part", "float_integer_part", "abs", "ceiling", "floor", "round", "sign",
         "truncate", "\\"]
CONSTANTS = ["pi", "e", "epsilon", "inf", "nan"]
COMPARISONS = ["<", "=<", ">", ">=", "=:=", "=\\="]
INFIX = {"+", "-", "*", "/", "//", "mod", "rem", "div", "^", "**", "/\\", "\\/", "#", "><", "xor",
         "<<", ">>"}


class Ref(object):
    """Accepted outcomes of evaluating one expression.

    vals      list of (value, type) — type INT, FLT or None (= numeric value judged, type not)
    anynum    True: any numeric answer is accepted (entirely unjudged), errors too
    err_ok    a ProbLog error is an accepted outcome as well
    must_err  category string: the ONLY accepted outcome is an error (ISO instantiation_error,
              type_error(evaluable, _), evaluation_error(zero_divisor) on integers)
    cats      unjudged categories that widened the set
    """

    __slots__ = ("vals", "anynum", "err_ok", "must_err", "cats")

    def __init__(self, vals=None, anynum=False, err_ok=False, must_err=None, cats=()):
        self.vals = list(vals or [])
        self.anynum = anynum
        self.err_ok = err_ok
        self.must_err = must_err
        self.cats = set(cats)

    def single(self):
        """(value, type) if exactly one fully judged answer is accepted, else None"""
        if self.anynum or self.err_ok or self.must_err or len(self.vals) != 1 or self.cats:
            return None
        v, t = self.vals[0]
        if t is None:
            return None
        return (v, t)

    def describe(self):
        if self.must_err:
            return "error (%s)" % self.must_err
        if self.anynum:
            return "unjudged (%s)" % ", ".join(sorted(self.cats))
        s = " or ".join("%s:%s" % (_repr(v), t or "int-or-float") for v, t in self.vals)
        if self.err_ok:
            s += " or error"
        if self.cats:
            s += "  [%s]" % ", ".join(sorted(self.cats))
        return s


HUGE = "integer of more than 3000 digits (Python's int/str conversion limit is not Prolog's business)"


def _repr(v):
    if isinstance(v, int) and v.bit_length() > 10000:
        return "<integer of %d bits>" % v.bit_length()
    return repr(v)


def _val(v, t):
    if isinstance(v, int) and v.bit_length() > 10000:
        return _any(HUGE)
    return Ref([(v, t)])


def _any(cat):
    return Ref(anynum=True, err_ok=True, cats=[cat])


def _must(cat):
    return Ref(must_err=cat)


def _tof(x):
    """int -> float the way the C systems do it; None if it overflows"""
    try:
        return float(x)
    except OverflowError:
        return None


def _isint(t):
    return t == INT


def _special(v):
    return isinstance(v, float) and (math.isnan(v) or math.isinf(v))


OVERFLOW = "float overflow (SWI: evaluation error, Yap: inf)"
DOMAIN = "undefined function value (SWI: evaluation error, Yap: nan/inf)"
INTONLY = "integer-only function applied to a float (SWI/Yap: type_error(integer,_); ProbLog may extend)"


def _overflow():
    return Ref([(float("inf"), FLT), (float("-inf"), FLT)], err_ok=True, cats=[OVERFLOW])


def _domain():
    return Ref([(float("nan"), FLT), (float("inf"), FLT), (float("-inf"), FLT)], err_ok=True, cats=[DOMAIN])


def _flt(x):
    """wrap a float result computed from finite arguments: an infinite result is an overflow"""
    if math.isinf(x):
        return _overflow()
    if math.isnan(x):
        return _domain()
    return _val(x, FLT)


# --- integer operations, written out (not delegated to Python's operators of the same name) ----

def int_trunc_div(a, b):
    # ISO 9.1.3 intdiv with integer_rounding_function = toward_zero (the value of that flag in
    # both SWI-Prolog and Yap): -7 // 2 =:= -3.
    q = abs(a) // abs(b)
    return q if (a < 0) == (b < 0) else -q


def int_floor_div(a, b):
    q = int_trunc_div(a, b)
    if q * b != a and ((a < 0) != (b < 0)):
        q -= 1
    return q


def int_mod(a, b):
    # ISO 9.1.3 (Cor.2): mod(x, y) = x - floor(x / y) * y ; sign of the divisor.  SWI and Yap agree.
    return a - int_floor_div(a, b) * b


def int_rem(a, b):
    # ISO: rem(x, y) = x - truncate(x / y) * y ; sign of the dividend.
    return a - int_trunc_div(a, b) * b


def round_half_away(x):
    # SWI-Prolog: llround(); ISO 9.1.6.1 round(x) = floor(x + 1/2) differs on negative halves.
    r = math.floor(abs(x) + 0.5)
    return int(r) if x >= 0 else -int(r)


def round_half_even(x):
    # Yap: rint() in the default rounding mode (C/arith1.c, my_rint)
    f = math.floor(x)
    d = x - f
    if d < 0.5:
        return int(f)
    if d > 0.5:
        return int(f) + 1
    return int(f) if int(f) % 2 == 0 else int(f) + 1


_MATH1 = {
    "exp": math.exp, "log": math.log, "log10": math.log10, "sqrt": math.sqrt, "sin": math.sin,
    "cos": math.cos, "tan": math.tan, "asin": math.asin, "acos": math.acos, "atan": math.atan,
    "sinh": math.sinh, "cosh": math.cosh, "tanh": math.tanh, "asinh": math.asinh,
    "acosh": math.acosh, "atanh": math.atanh, "lgamma": math.lgamma, "erf": math.erf,
    "erfc": math.erfc,
}

_INT_ONLY_2 = {"//", "mod", "rem", "div", "/\\", "\\/", "#", "><", "xor", "<<", ">>"}


def _pow_float(a, b):
    x, y = _tof(a), _tof(b)
    if x is None or y is None:
        return _overflow()
    if x == 0.0 and y < 0:
        # C pow gives inf; SWI raises zero_divisor
        return Ref([(float("inf"), FLT), (float("-inf"), FLT)], err_ok=True, cats=[DOMAIN])
    if x < 0 and y != math.floor(y):
        # no real value: SWI evaluation_error(undefined), Yap nan.  Never a complex number.
        return Ref([(float("nan"), FLT)], err_ok=True, cats=[DOMAIN])
    try:
        return _flt(math.pow(x, y))
    except OverflowError:
        return _overflow()
    except ValueError:
        return _domain()


def apply1(op, v, t):
    """reference of a unary evaluable functor on one concrete (value, type)"""
    if _special(v):
        return _any("nan/inf arithmetic")
    if op == "-":
        return _val(-v, t)  # ISO 9.1.7 (-)/1: type preserving
    if op == "+":
        return _val(v, t)
    if op == "abs":
        return _val(-v if v < 0 else v, t)  # ISO 9.1.7 abs/1: type preserving
    if op == "sign":
        # ISO 9.1.7 sign/1 is type preserving: sign(2.5) =:= 1.0 (SWI and Yap manuals agree)
        s = (v > 0) - (v < 0)
        return _val(s if _isint(t) else float(s), t)
    if op == "float":
        x = _tof(v)
        return _overflow() if x is None else _val(x, FLT)
    if op == "integer":
        if _isint(t):
            return _val(v, INT)
        if v == math.floor(v):
            return _val(int(v), INT)
        # SWI rounds to nearest (halves away from zero), Yap truncates ("the integer between
        # the value of X and 0 closest to the value of X")
        a, b = round_half_away(v), int(math.trunc(v))
        if a == b:
            return _val(a, INT)
        return Ref([(a, INT), (b, INT)], cats=["integer/1 on a non-integral float (SWI rounds, Yap truncates)"])
    if op in ("truncate", "floor", "ceiling", "round"):
        # ISO 9.1.6.1: float -> integer.  On an integer argument SWI and Yap return it unchanged.
        if _isint(t):
            return _val(v, INT)
        if op == "truncate":
            return _val(int(math.trunc(v)), INT)
        if op == "floor":
            return _val(int(math.floor(v)), INT)
        if op == "ceiling":
            return _val(int(math.ceil(v)), INT)
        cand = []
        for r in (round_half_away(v), round_half_even(v)):
            if r not in cand:
                cand.append(r)
        if len(cand) == 1:
            return _val(cand[0], INT)
        # x.5: SWI rounds away from zero (llround), Yap uses rint() (half to even; C/arith1.c
        # my_rint).  Both are accepted.  (ISO's floor(x+1/2) is what neither system implements
        # on negative halves; it is not accepted where SWI and Yap agree, e.g. round(-1.5) = -2.)
        return Ref([(r, INT) for r in cand],
                   cats=["round/1 on x.5 (SWI: away from zero, Yap: rint = half to even)"])
    if op == "float_integer_part":
        if _isint(t):
            # ISO: type_error(float, _); SWI returns the integer; Yap a float
            return Ref([(v, INT), (float(v), FLT)], err_ok=True, cats=["float_*_part of an integer"])
        return _val(float(math.trunc(v)), FLT)
    if op == "float_fractional_part":
        if _isint(t):
            return Ref([(0, INT), (0.0, FLT)], err_ok=True, cats=["float_*_part of an integer"])
        return _val(v - float(math.trunc(v)), FLT)
    if op == "\\":
        if not _isint(t):
            return _any(INTONLY)
        return _val(-v - 1, INT)  # two's complement bitwise negation, unbounded integers
    if op in _MATH1:
        x = _tof(v)
        if x is None:
            return _overflow()
        try:
            return _flt(_MATH1[op](x))
        except ValueError:
            return _domain()
        except OverflowError:
            return _overflow()
    return None


def apply2(op, a, ta, b, tb):
    """reference of a binary evaluable functor on concrete (value, type) arguments"""
    if _special(a) or _special(b):
        return _any("nan/inf arithmetic")
    ii = _isint(ta) and _isint(tb)
    if op in ("+", "-", "*"):
        # ISO 9.1.7: integer x integer -> integer (unbounded in SWI/Yap), otherwise float
        if ii:
            return _val(a + b if op == "+" else a - b if op == "-" else a * b, INT)
        x, y = _tof(a), _tof(b)
        if x is None or y is None:
            return _overflow()
        return _flt(x + y if op == "+" else x - y if op == "-" else x * y)
    if op == "/":
        if ii:
            if b == 0:
                return _must("zero_divisor")  # ISO 9.1.7, SWI and Yap: evaluation_error(zero_divisor)
            if int_rem(a, b) == 0:
                # SWI (iso=false): integer result; Yap / ISO: float.  Value judged, type not.
                return Ref([(int_trunc_div(a, b), None)], cats=["exact int / int (SWI: integer, Yap/ISO: float)"])
            try:
                return _flt(a / b)
            except OverflowError:
                return _overflow()
        x, y = _tof(a), _tof(b)
        if x is None or y is None:
            return _overflow()
        if y == 0.0:
            # SWI float_zero_div=error; Yap returns inf/nan
            return Ref([(float("inf"), FLT), (float("-inf"), FLT), (float("nan"), FLT)], err_ok=True,
                       cats=["float division by zero (SWI: error, Yap: inf/nan)"])
        return _flt(x / y)
    if op in _INT_ONLY_2:
        if not ii:
            return _any(INTONLY)
        if op in ("//", "mod", "rem", "div"):
            if b == 0:
                return _must("zero_divisor")
            if op == "//":
                return _val(int_trunc_div(a, b), INT)
            if op == "mod":
                return _val(int_mod(a, b), INT)
            if op == "div":
                return _val(int_floor_div(a, b), INT)  # ISO Cor.2 / SWI / Yap: floor((x)/(y))
            m, r = int_mod(a, b), int_rem(a, b)
            if m == r:
                return _val(m, INT)
            # documented deviation: "X rem Y (currently same as mod)"; a real rem is accepted too
            return Ref([(m, INT), (r, INT)], cats=["rem where it differs from mod (documented deviation)"])
        if op == "/\\":
            return _val(a & b, INT)
        if op == "\\/":
            return _val(a | b, INT)
        if op in ("xor", "#", "><"):
            return _val(a ^ b, INT)  # Yap: # and >< are exclusive or; SWI: xor
        if b < 0:
            return _any("negative shift count")
        if b > 100000:
            return _any("huge shift count")
        if op == "<<":
            return _val(a * (2 ** b), INT)
        return _val(int_floor_div(a, 2 ** b), INT)  # arithmetic shift (SWI, Yap on every platform)
    if op in ("max", "min"):
        if a == b:
            if ta == tb:
                return _val(a, ta)
            return Ref([(a, None)], cats=["max/min of numerically equal mixed int/float"])
        first = (a > b) if op == "max" else (a < b)
        return _val(a, ta) if first else _val(b, tb)  # the argument itself, with its own type
    if op == "atan":
        x, y = _tof(a), _tof(b)
        if x is None or y is None:
            return _overflow()
        if x == 0.0 and y == 0.0:
            return _any("atan(0, 0) (SWI: undefined, C: 0.0)")
        return _flt(math.atan2(x, y))
    if op in ("**", "^", "exp"):
        if ii:
            if b < 0:
                return _any("integer power with a negative integer exponent")
            if abs(a) > 1 and b > 100000:
                return _any("huge integer power")
            p = a ** b
            if p.bit_length() > 10000:
                return _any(HUGE)
            if op == "^":
                return _val(p, INT)  # ISO Cor.2 9.3.10 / SWI / Yap: integer ^ integer is an integer
            r = Ref([(p, None)], cats=["int ** int, exp/2 on integers (SWI: integer, Yap/ISO: float)"])
            if _tof(p) is None:
                r.err_ok = True
                r.vals += [(float("inf"), FLT), (float("-inf"), FLT)]
            return r
        return _pow_float(a, b)
    return None


def _expand(ref):
    """concrete (value, type) alternatives of a sub-result"""
    out = []
    for v, t in ref.vals:
        if t is not None:
            out.append((v, t))
        elif isinstance(v, int) or (not _special(v) and v == math.floor(v)):
            out.append((int(v), INT))
            f = _tof(v)
            if f is not None:
                out.append((f, FLT))
        else:
            out.append((v, FLT))
    return out


def _const(name):
    if name == "pi":
        return _val(math.pi, FLT)
    if name == "e":
        return _val(math.e, FLT)
    if name == "epsilon":
        return _val(EPSILON, FLT)
    if name == "inf":
        return _val(float("inf"), FLT)
    if name == "nan":
        return _val(float("nan"), FLT)
    return None


def evaluate(tree):
    """Ref of an expression tree; also returns the number of evaluable-functor applications"""
    return _ev(tree)


def _ev(tree):
    if isinstance(tree, bool):
        raise ValueError("bool in expression")
    if isinstance(tree, int):
        return _val(tree, INT)
    if isinstance(tree, float):
        return _val(tree, FLT)
    if isinstance(tree, dict):
        if "v" in tree:
            return _must("instantiation_error")  # ISO 8.6.1.3 a
        if "a" in tree:
            c = _const(tree["a"])
            if c is not None:
                return c
            return _must("type_error(evaluable, %s/0)" % tree["a"])  # ISO 8.6.1.3 b
        raise ValueError("bad expression leaf %r" % (tree,))
    op, args = tree[0], tree[1:]
    if not args:
        c = _const(op)
        if c is None:
            return _must("type_error(evaluable, %s/0)" % op)
        return c
    subs = [_ev(a) for a in args]
    for s in subs:
        if s.must_err:
            return _must(s.must_err)
    cats = set()
    for s in subs:
        cats |= s.cats
    if any(s.anynum for s in subs):
        return Ref(anynum=True, err_ok=True, cats=cats)
    res = Ref(err_ok=any(s.err_ok for s in subs), cats=cats)
    musts = []
    ncombo = 0
    for combo in itertools.product(*[_expand(s) for s in subs]):
        ncombo += 1
        if len(combo) == 1:
            r = apply1(op, combo[0][0], combo[0][1])
        elif len(combo) == 2:
            r = apply2(op, combo[0][0], combo[0][1], combo[1][0], combo[1][1])
        else:
            r = None
        if r is None:
            return _must("type_error(evaluable, %s/%d)" % (op, len(args)))
        if r.must_err:
            musts.append(r.must_err)
            continue
        res.cats |= r.cats
        if r.anynum:
            res.anynum = True
            res.err_ok = True
            continue
        res.err_ok = res.err_ok or r.err_ok
        for vt in r.vals:
            if not any(_same(vt, w) for w in res.vals):
                res.vals.append(vt)
    if musts:
        if len(musts) == ncombo and not res.err_ok:
            return _must(musts[0])
        res.err_ok = True
    if res.anynum:
        res.vals = []
    return res


def _same(a, b):
    (v, t), (w, u) = a, b
    if t != u or type(v) != type(w):
        return False
    if isinstance(v, float) and math.isnan(v):
        return math.isnan(w)
    return v == w


# ---------------------------------------------------------------------------------------------
# judging an observed number against a Ref

REL_TOL = 1e-9  # libm differences between C libraries; Python's math *is* the platform libm


def close(o, v):
    if isinstance(o, float) and math.isnan(o):
        return isinstance(v, float) and math.isnan(v)
    if isinstance(v, float) and math.isnan(v):
        return False
    if o == v:
        return True
    if _special(o) or _special(v):
        return False
    if isinstance(o, int) and isinstance(v, int):
        return False
    try:
        return abs(float(o) - float(v)) <= REL_TOL * abs(float(v))
    except OverflowError:
        return False


def matches(ref, value):
    """value: a Python int or float observed from the implementation.
    -> "ok" | "unjudged" | "wrong-type" | "wrong-value" | "float-rounded" | "must-error" """
    if ref.must_err:
        return "must-error"
    if ref.anynum:
        return "unjudged"
    ot = INT if isinstance(value, int) else FLT
    value_hit = False
    for v, t in ref.vals:
        if close(value, v):
            value_hit = True
            if t is None or t == ot:
                return "unjudged" if ref.cats else "ok"
    if value_hit:
        return "wrong-type"
    if ot == FLT:
        for v, t in ref.vals:
            if t in (FLT, None) and isinstance(v, float) and not _special(v) and value == round(v, 15):
                return "float-rounded"
    return "wrong-value"


def compare(op, a, b):
    """reference of an arithmetic comparison ->
    ("true"|"false", cats) | ("must-error", cat) | ("unjudged", cats)"""
    ra, rb = _ev(a), _ev(b)
    for r in (ra, rb):
        if r.must_err:
            return ("must-error", r.must_err)
    cats = ra.cats | rb.cats
    if ra.anynum or rb.anynum or ra.err_ok or rb.err_ok:
        return ("unjudged", cats or {"error accepted in an operand"})
    outs = set()
    for (v, _), (w, _) in itertools.product(_expand(ra), _expand(rb)):
        if _special(v) or _special(w):
            return ("unjudged", cats | {"nan/inf arithmetic"})
        # ISO 8.7: comparison by value; int vs float compared exactly (SWI 9) — identical to the
        # float comparison of older systems for |ints| < 2**53, the only ones mixed here.
        if isinstance(v, int) != isinstance(w, int) and max(abs(v), abs(w)) >= 2 ** 53:
            return ("unjudged", cats | {"mixed comparison beyond 2**53"})
        outs.add({"<": v < w, "=<": v <= w, ">": v > w, ">=": v >= w, "=:=": v == w, "=\\=": v != w}[op])
    if len(outs) != 1:
        return ("unjudged", cats)
    return ("true" if outs.pop() else "false", cats)


# ---------------------------------------------------------------------------------------------
# text

def fmt_num(n):
    if isinstance(n, int):
        return str(n)
    s = repr(float(n))
    if "e" in s or "E" in s:
        m, e = s.lower().split("e")
        if "." not in m:
            m += ".0"
        if e.startswith("+"):
            e = e[1:]
        s = m + "e" + e
    return s


def expr_text(tree):
    """fully parenthesised Prolog text of an expression tree"""
    if isinstance(tree, (int, float)):
        s = fmt_num(tree)
        return "(%s)" % s if s.startswith("-") else s
    if isinstance(tree, dict):
        return tree["v"] if "v" in tree else tree["a"]
    op, args = tree[0], tree[1:]
    if not args:
        return op
    if len(args) == 2 and op in INFIX:
        return "(%s) %s (%s)" % (expr_text(args[0]), op, expr_text(args[1]))
    if len(args) == 1 and op == "\\":
        return "\\ (%s)" % expr_text(args[0])
    return "%s(%s)" % (op, ", ".join(expr_text(a) for a in args))


# ---------------------------------------------------------------------------------------------
# terms

def t_var(name):
    return ("v", name)


def from_json(j):
    """JSON term -> internal term: ("v",name) ("a",name) ("i",n) ("x",f) ("c",name,(args))"""
    if isinstance(j, bool):
        raise ValueError("bool")
    if isinstance(j, int):
        return ("i", j)
    if isinstance(j, float):
        return ("x", j)
    if "v" in j:
        return ("v", j["v"])
    if "a" in j:
        return ("a", j["a"])
    if "f" in j:
        return ("c", j["f"], tuple(from_json(a) for a in j["x"]))
    if "l" in j:
        tail = from_json(j["t"]) if "t" in j else ("a", "[]")
        for e in reversed(j["l"]):
            tail = ("c", ".", (from_json(e), tail))
        return tail
    raise ValueError("bad term %r" % (j,))


_PLAIN_ATOM = re.compile(r"^[a-z][A-Za-z0-9_]*$")


def atom_text(name):
    if name == "[]" or _PLAIN_ATOM.match(name):
        return name
    return "'%s'" % name.replace("'", "''")


def term_text(j):
    """Prolog text of a JSON term (canonical functional notation, list syntax for lists)"""
    if isinstance(j, (int, float)):
        return fmt_num(j)
    if "v" in j:
        return j["v"]
    if "a" in j:
        return atom_text(j["a"])
    if "f" in j:
        return "%s(%s)" % (atom_text(j["f"]) if j["f"] != "-" else "-", ",".join(term_text(a) for a in j["x"]))
    if "l" in j:
        body = ",".join(term_text(e) for e in j["l"])
        if "t" in j:
            return "[%s|%s]" % (body, term_text(j["t"]))
        return "[%s]" % body
    raise ValueError("bad term %r" % (j,))


def is_var(t):
    return t[0] == "v"


def is_atom(t):
    return t[0] == "a"


def is_int(t):
    return t[0] == "i"


def is_float(t):
    return t[0] == "x"


def is_number(t):
    return t[0] in "ix"


def is_atomic(t):
    return t[0] in "aix"


def is_compound(t):
    return t[0] == "c"


def is_callable(t):
    return t[0] in "ac"


def is_ground(t):
    if t[0] == "v":
        return False
    if t[0] == "c":
        return all(is_ground(a) for a in t[2])
    return True


NIL = ("a", "[]")


def list_parts(t):
    """-> (elements, tail)"""
    el = []
    while t[0] == "c" and t[1] == "." and len(t[2]) == 2:
        el.append(t[2][0])
        t = t[2][1]
    return el, t


def is_proper_list(t):
    return list_parts(t)[1] == NIL


def is_partial_list(t):
    return is_var(list_parts(t)[1])


def mk_list(elements, tail=NIL):
    for e in reversed(elements):
        tail = ("c", ".", (e, tail))
    return tail


class Cyclic(Exception):
    pass


def walk(t, s):
    while t[0] == "v" and t[1] in s:
        t = s[t[1]]
    return t


def occurs(name, t, s):
    t = walk(t, s)
    if t[0] == "v":
        return t[1] == name
    if t[0] == "c":
        return any(occurs(name, a, s) for a in t[2])
    return False


def unify(a, b, s):
    """Robinson unification -> extended substitution or None; raises Cyclic where a system
    without occurs check would build a cyclic term (unjudged)"""
    a, b = walk(a, s), walk(b, s)
    if a == b:
        return s
    if a[0] == "v":
        if occurs(a[1], b, s):
            raise Cyclic()
        s = dict(s)
        s[a[1]] = b
        return s
    if b[0] == "v":
        return unify(b, a, s)
    if a[0] == "c" and b[0] == "c" and a[1] == b[1] and len(a[2]) == len(b[2]):
        for x, y in zip(a[2], b[2]):
            s = unify(x, y, s)
            if s is None:
                return None
        return s
    if a[0] in "ix" and b[0] in "ix":
        # 1 and 1.0 do not unify; identical numbers were caught by a == b (0.0 vs -0.0: equal)
        return s if (a[0] == b[0] and a[1] == b[1]) else None
    return None


def resolve(t, s):
    t = walk(t, s)
    if t[0] == "c":
        return ("c", t[1], tuple(resolve(a, s) for a in t[2]))
    return t


def canon_terms(terms):
    """rename variables in first-occurrence order over a tuple of terms -> printable string"""
    names = {}

    def go(t):
        if t[0] == "v":
            if t[1] not in names:
                names[t[1]] = "_G%d" % len(names)
            return names[t[1]]
        if t[0] == "a":
            return "a:" + t[1]
        if t[0] == "i":
            return "i:%d" % t[1]
        if t[0] == "x":
            return "x:%r" % (t[1] + 0.0)
        if t[0] == "c":
            return "%s(%s)" % (t[1], ",".join(go(a) for a in t[2]))
        return "?%r" % (t,)

    return "<" + " ; ".join(go(t) for t in terms) + ">"


class TRef(object):
    """accepted outcomes of a term-inspection call.
    sols: list of argument tuples (internal terms) or None
    err_ok: an error is (also) accepted;  error: Prolog raises (category);  unjudged: category"""

    __slots__ = ("sols", "err_ok", "error", "unjudged")

    def __init__(self, sols=None, err_ok=False, error=None, unjudged=None):
        self.sols = sols
        self.err_ok = err_ok
        self.error = error
        self.unjudged = unjudged

    def describe(self):
        if self.unjudged:
            return "unjudged (%s)" % self.unjudged
        if self.error:
            return "error (%s)" % self.error
        s = "no solution" if not self.sols else " | ".join(canon_terms(x) for x in self.sols)
        return s + (" or error" if self.err_ok else "")


def _sol(args, s):
    return tuple(resolve(a, s) for a in args)


def _unify_all(args, pairs):
    """solutions list (0 or 1) from unifying pairs"""
    s = {}
    for x, y in pairs:
        s = unify(x, y, s)
        if s is None:
            return TRef([])
    return TRef([_sol(args, s)])


_fresh_counter = [0]


def fresh():
    _fresh_counter[0] += 1
    return ("v", "_F%d" % _fresh_counter[0])


_NUM_RE = re.compile(r"^-?[0-9]+$")
_FLT_RE = re.compile(r"^-?[0-9]+\.[0-9]+$")


def ref_builtin(pred, jargs):
    """SWI-Prolog 9 / Yap 6 behaviour of the listed term-inspection builtins."""
    args = tuple(from_json(a) for a in jargs)
    try:
        return _ref_builtin(pred, args)
    except Cyclic:
        return TRef(unjudged="cyclic term without occurs check")


def _ref_builtin(pred, args):
    if pred == "between":
        lo, hi, x = args
        if is_var(lo) or is_var(hi):
            return TRef(error="instantiation_error")
        if not is_int(lo) or not is_int(hi):
            # SWI accepts inf/infinite as upper bound; everything else is a type_error(integer,_)
            return TRef(error="type_error(integer,_)")
        if is_var(x):
            return TRef([(lo, hi, ("i", n)) for n in range(lo[1], hi[1] + 1)])
        if not is_int(x):
            return TRef(error="type_error(integer,_)")
        return TRef([args] if lo[1] <= x[1] <= hi[1] else [])
    if pred == "succ":
        a, b = args
        # SWI manual 4.27.1: "True if Int2 = Int1 + 1 and Int1 >= 0. ... raises
        # not_less_than_zero if called with a negative integer. E.g. succ(X, 0) fails silently"
        for t in (a, b):
            if not is_var(t) and not is_int(t):
                return TRef(error="type_error(integer,_)")
            if is_int(t) and t[1] < 0:
                return TRef(error="type_error(not_less_than_zero,_)")
        if is_var(a) and is_var(b):
            return TRef(error="instantiation_error")
        if is_var(a):
            if b[1] == 0:
                return TRef([], err_ok=True)  # SWI fails silently; an error would be as good
            return _unify_all(args, [(a, ("i", b[1] - 1))])
        if is_var(b):
            return _unify_all(args, [(b, ("i", a[1] + 1))])
        return TRef([args] if b[1] == a[1] + 1 else [])
    if pred == "plus":
        a, b, c = args
        for t in args:
            if not is_var(t) and not is_int(t):
                # SWI evaluates plus/3 on any number; Yap wants integers
                return TRef(unjudged="plus/3 on non-integers")
        nvar = sum(1 for t in args if is_var(t))
        if nvar > 1:
            return TRef(error="instantiation_error")
        if is_var(c):
            return _unify_all(args, [(c, ("i", a[1] + b[1]))])
        if is_var(b):
            return _unify_all(args, [(b, ("i", c[1] - a[1]))])
        if is_var(a):
            return _unify_all(args, [(a, ("i", c[1] - b[1]))])
        return TRef([args] if a[1] + b[1] == c[1] else [])
    if pred == "length":
        lst, n = args
        el, tail = list_parts(lst)
        if not is_var(n) and not is_int(n):
            return TRef(error="type_error(integer,_)")
        if tail == NIL:
            if is_int(n) and n[1] < 0:
                return TRef([], err_ok=True)  # SWI 7+: fails or domain error depending on version
            return _unify_all(args, [(n, ("i", len(el)))])
        if is_var(tail):
            if is_var(n):
                if n == tail:
                    return TRef(unjudged="length(L, L)")
                return TRef(unjudged="unbounded enumeration length(-Partial, -N)")
            if n[1] < 0:
                return TRef([], err_ok=True)
            if n[1] < len(el):
                return TRef([])
            if occurs(tail[1], n, {}):
                return TRef(unjudged="length(L, L)")
            return _unify_all(args, [(tail, mk_list([fresh() for _ in range(n[1] - len(el))]))])
        # not a list, not a partial list: SWI type_error(list,_), Yap fails
        return TRef([], err_ok=True)
    if pred == "functor":
        t, name, ar = args
        if not is_var(t):
            if is_compound(t):
                return _unify_all(args, [(name, ("a", t[1])), (ar, ("i", len(t[2])))])
            return _unify_all(args, [(name, t), (ar, ("i", 0))])
        if is_var(name) or is_var(ar):
            return TRef(error="instantiation_error")
        if not is_int(ar):
            return TRef(error="type_error(integer,_)")
        if ar[1] < 0:
            return TRef(error="domain_error(not_less_than_zero,_)")
        if ar[1] == 0:
            if is_compound(name):
                return TRef(error="type_error(atomic,_)")
            return _unify_all(args, [(t, name)])
        if is_compound(name):
            return TRef(error="type_error(atomic,_)")
        if not is_atom(name):
            return TRef(error="type_error(atom/callable,_)")
        return _unify_all(args, [(t, ("c", name[1], tuple(fresh() for _ in range(ar[1]))))])
    if pred == "arg":
        n, t, a = args
        if is_var(t):
            return TRef(error="instantiation_error")
        if not is_compound(t):
            return TRef(error="type_error(compound,_)")
        if is_var(n):
            return TRef(unjudged="arg/3 enumeration (SWI extension)")
        if not is_int(n):
            return TRef(error="type_error(integer,_)")
        if n[1] < 0:
            return TRef([], err_ok=True)  # ISO: domain_error; SWI fails
        if n[1] == 0 or n[1] > len(t[2]):
            return TRef([])
        return _unify_all(args, [(a, t[2][n[1] - 1])])
    if pred == "=..":
        t, lst = args
        el, tail = list_parts(lst)
        if not is_var(t):
            if not (tail == NIL or is_var(tail)):
                return TRef(error="type_error(list,_)")
            parts = [("a", t[1])] + list(t[2]) if is_compound(t) else [t]
            return _unify_all(args, [(lst, mk_list(parts))])
        if is_var(tail):
            return TRef(error="instantiation_error")
        if tail != NIL:
            return TRef(error="type_error(list,_)")
        if not el:
            return TRef(error="domain_error(non_empty_list,[])")
        head = el[0]
        if len(el) == 1:
            if is_var(head):
                return TRef(error="instantiation_error")
            if is_compound(head):
                return TRef(error="type_error(atomic,_)")
            return _unify_all(args, [(t, head)])
        if is_var(head):
            return TRef(error="instantiation_error")
        if not is_atom(head):
            return TRef(error="type_error(atom,_)")
        return _unify_all(args, [(t, ("c", head[1], tuple(el[1:])))])
    if pred == "atom_number":
        a, n = args
        if is_var(a):
            if is_var(n):
                return TRef(error="instantiation_error")
            if not is_number(n):
                return TRef(error="type_error(number,_)")
            return _unify_all(args, [(a, ("a", fmt_num(n[1])))])
        if not is_atom(a):
            return TRef(unjudged="atom_number/2 with a non-atom first argument")
        if not is_var(n) and not is_number(n):
            return TRef([], err_ok=True)
        name = a[1]
        if _NUM_RE.match(name):
            num = ("i", int(name))
        elif _FLT_RE.match(name):
            num = ("x", float(name))
        elif re.match(r"^[a-zA-Z_]*$", name) and name not in ("inf", "nan", "infinite", "epsilon", "e"):
            return TRef([], err_ok=True)  # not number syntax: fails silently (SWI manual 4.22); Yap: syntax error
        elif re.match(r"^[0-9]+[a-df-wyzA-DF-WYZ_][a-zA-Z]*$", name):
            return TRef([], err_ok=True)  # '12abc': SWI fails (syntax error is caught), Yap fails
        else:
            return TRef(unjudged="atom_number/2 on exotic number syntax")
        return _unify_all(args, [(n, num)])
    raise ValueError("unknown builtin %s" % pred)


TYPE_TESTS = ["var", "atom", "atomic", "number", "integer", "float", "compound", "callable", "is_list", "ground"]


def ref_type_test(pred, jarg):
    """-> True | False | None (unjudged)"""
    t = from_json(jarg)
    if pred == "var":
        return is_var(t)
    if pred == "atom":
        return is_atom(t)  # '[]' is an atom in Yap; atom([]) is true in SWI-Prolog 7+ as well
    if pred == "atomic":
        return is_atomic(t)
    if pred == "number":
        return is_number(t)
    if pred == "integer":
        return is_int(t)
    if pred == "float":
        return is_float(t)
    if pred == "compound":
        return is_compound(t)
    if pred == "callable":
        if t == NIL:
            return None  # SWI-Prolog 7: '[]' is a reserved symbol, not sure about callable/1
        return is_callable(t)
    if pred == "is_list":
        return is_proper_list(t)  # SWI manual 4.29: "a proper list"; partial lists are not
    if pred == "ground":
        return is_ground(t)
    raise ValueError(pred)


# ---------------------------------------------------------------------------------------------
# declared call modes of the implementation (problog/engine_builtin.py, check_mode tables) — used
# only to count which calls lie inside the modes the implementation declares

MODE_TABLES = {
    "between": ["iii", "iiv"],
    "succ": ["vI", "Iv", "II"],
    "plus": ["iii", "iiv", "ivi", "vii"],
    "length": ["LI", "Lv", "lI", "vI"],
    "functor": ["vaI", "n**"],
    "arg": ["In*"],
    "=..": ["vL", "nv", "nl"],
    "atom_number": ["vf", "vi", "av", "af", "ai"],
}


def _mode_ok(ch, t):
    if ch in "iI":
        return is_int(t)
    if ch == "f":
        return is_float(t)
    if ch == "v":
        return is_var(t)
    if ch == "n":
        return not is_var(t)
    if ch == "l":
        return t == NIL or (is_compound(t) and t[1] == "." and (is_proper_list(t) or is_partial_list(t)))
    if ch == "L":
        return is_proper_list(t)
    if ch == "*":
        return True
    if ch == "a":
        return is_atom(t)
    if ch == "g":
        return is_ground(t)
    if ch == "c":
        return is_callable(t)
    raise ValueError(ch)


def declared_mode(pred, jargs, tables=None):
    """index of the first declared mode matching the arguments, or None"""
    args = [from_json(a) for a in jargs]
    for i, mode in enumerate((tables or MODE_TABLES)[pred]):
        if all(_mode_ok(ch, t) for ch, t in zip(mode, args)):
            return i
    return None
