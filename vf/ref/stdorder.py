"""R5 - the standard order of terms (reference model for C15, used by C33).

Independent of ProbLog: terms are plain JSON-able Python values

    int            Prolog integer                      10, -2
    float          Prolog float                        1.0, -1.5
    str            atom, given by its *unquoted* text  "a", "a b", "B", "[]"
    [name, t1...]  compound term name(t1,...), len >= 2; the list cell is [".", Head, Tail]
    {"var": n}     a variable (only Var < nonvar and identity are judged)

Order (SWI-Prolog manual 4.6.1 "Standard Order of Terms", Yap manual "Comparing Terms", ISO 7.2):

    Var < Number < Atom < Compound
    numbers by value; if equal by value the Float comes before the Int
    atoms alphabetically (character codes) on their text - quotes are not part of the text
    compounds by arity, then by name (as atoms), then by arguments left to right

``compare(a, b)`` returns -1/0/1, or ``None`` when this model refuses to judge the pair because
Yap and SWI-Prolog 7+ differ or the author is not certain what they do:

  * two distinct variables (ordered by address);
  * ``[]`` against an atom whose text sorts before "[]" (in SWI-Prolog 7 ``[]`` is a reserved
    symbol distinct from '[]'; against text that sorts after "[]" both systems put [] first);
  * a list cell against another compound of arity 2 whose name does not sort after "[|]"
    (the cell is '.'/2 in Yap and ProbLog, '[|]'/2 in SWI-Prolog 7) - names below "." are judged;
  * NaN, infinities, a zero float against a zero float with a different sign bit, and
    int/float pairs where the integer is beyond 2**53 and comparing "as floats" (SWI) could differ
    from comparing exactly;
  * atoms or names with non-ASCII text (collation may differ).

Double-quoted strings have no place in the stated order and are not representable here.
"""
import math

VAR, NUM, ATOM, COMP = 0, 1, 2, 3

NIL = "[]"
CELL = "."
SWI_CELL = "[|]"


def is_var(t):
    return isinstance(t, dict)


def is_number(t):
    return isinstance(t, (int, float)) and not isinstance(t, bool)


def is_atom(t):
    return isinstance(t, str)


def is_compound(t):
    return isinstance(t, (list, tuple))


def rank(t):
    if is_var(t):
        return VAR
    if is_number(t):
        return NUM
    if is_atom(t):
        return ATOM
    if is_compound(t):
        if len(t) < 2 or not isinstance(t[0], str):
            raise ValueError("bad compound %r" % (t,))
        return COMP
    raise ValueError("not a term: %r" % (t,))


def _cmp(a, b):
    return (a > b) - (a < b)


def _ascii(s):
    return all(ord(ch) < 128 for ch in s)


def _cmp_number(a, b):
    for x in (a, b):
        if isinstance(x, float) and (math.isnan(x) or math.isinf(x)):
            return None
    fa, fb = isinstance(a, float), isinstance(b, float)
    if fa != fb:
        # "mixed integers and floats are compared as floats" (SWI) / exactly (others): judged only
        # where both readings give the same strict answer
        i, f = (b, a) if fa else (a, b)
        if abs(i) > 2 ** 53:
            exact = _cmp(i, f)
            if exact == 0 or exact != _cmp(float(i), f):
                return None
            return -exact if fa else exact
    if fa and fb and a == 0.0 and b == 0.0 and math.copysign(1, a) != math.copysign(1, b):
        return None
    if not fa and not fb:
        return _cmp(a, b)
    r = _cmp(a, b)  # Python compares int with float exactly
    if r != 0:
        return r
    if fa and not fb:
        return -1
    if fb and not fa:
        return 1
    return 0


def _cmp_atom(a, b):
    if a == b:
        return 0
    if not (_ascii(a) and _ascii(b)):
        return None
    if a == NIL and b < NIL:
        return None
    if b == NIL and a < NIL:
        return None
    return _cmp(a, b)


def _cmp_name(a, b, arity):
    """functor names of two compounds of the same arity"""
    if a == b:
        return 0
    if not (_ascii(a) and _ascii(b)):
        return None
    if arity == 2 and CELL in (a, b):
        other = b if a == CELL else a
        if not (other > SWI_CELL or other < CELL):
            return None
    return _cmp(a, b)


def compare(a, b):
    """-1, 0, 1 or None (unjudged)"""
    ra, rb = rank(a), rank(b)
    if ra != rb:
        return _cmp(ra, rb)
    if ra == VAR:
        return 0 if a.get("var") == b.get("var") else None
    if ra == NUM:
        return _cmp_number(a, b)
    if ra == ATOM:
        return _cmp_atom(a, b)
    # compounds: arity, name, arguments
    if len(a) != len(b):
        return _cmp(len(a), len(b))
    r = _cmp_name(a[0], b[0], len(a) - 1)
    if r is None or r != 0:
        return r
    for x, y in zip(a[1:], b[1:]):
        r = compare(x, y)
        if r is None or r != 0:
            return r
    return 0


ORDER_ATOM = {-1: "<", 0: "=", 1: ">"}

# truth of each comparison operator given the order
OPERATORS = {
    "==": lambda c: c == 0,
    "\\==": lambda c: c != 0,
    "@<": lambda c: c < 0,
    "@=<": lambda c: c <= 0,
    "@>": lambda c: c > 0,
    "@>=": lambda c: c >= 0,
}


def sort_unique(items):
    """sort/2: strictly ascending, duplicate free.  None if some pair is unjudged."""
    out = []
    for x in items:
        # insertion by binary search is overkill for lists of <= 5 elements
        pos = len(out)
        dup = False
        for i, y in enumerate(out):
            c = compare(x, y)
            if c is None:
                return None
            if c == 0:
                dup = True
                break
            if c < 0:
                pos = i
                break
        if not dup:
            out.insert(pos, x)
    # every pair of the result has to be judged too (insertion stops early)
    for i in range(len(out)):
        for j in range(i + 1, len(out)):
            c = compare(out[i], out[j])
            if c is None:
                return None
            if c >= 0:
                raise AssertionError("reference order is not transitive on %r" % (items,))
    return out


# ---------------------------------------------------------------------------------------------
# text

def mklist(items, tail=NIL):
    t = tail
    for x in reversed(items):
        t = [CELL, x, t]
    return t


def list_items(t):
    """(items, tail) of a '.'-chain"""
    items = []
    while is_compound(t) and t[0] == CELL and len(t) == 3:
        items.append(t[1])
        t = t[2]
    return items, t


def _plain_atom(s):
    if s == NIL:
        return True
    if not s or not ("a" <= s[0] <= "z"):
        return False
    return all(ch == "_" or ch.isalnum() and ord(ch) < 128 for ch in s)


def atom_text(s, quote=False):
    """Prolog text of the atom with unquoted text ``s`` (quoted only if needed or asked)"""
    if _plain_atom(s) and not quote:
        return s
    if "'" in s or "\\" in s:
        raise ValueError("atom text %r not supported by this printer" % (s,))
    return "'%s'" % s


def to_text(t):
    """Prolog text of a term (canonical: no operators, lists in bracket notation)"""
    if is_var(t):
        return "V%s" % t["var"]
    if isinstance(t, bool):
        raise ValueError("bool is not a term")
    if isinstance(t, int):
        return str(t)
    if isinstance(t, float):
        r = repr(t)
        if "e" in r or "inf" in r or "nan" in r:
            raise ValueError("float %r not supported by this printer" % (t,))
        return r
    if is_atom(t):
        return atom_text(t)
    if t[0] == CELL and len(t) == 3:
        items, tail = list_items(t)
        body = ",".join(to_text(x) for x in items)
        if tail == NIL:
            return "[%s]" % body
        return "[%s|%s]" % (body, to_text(tail))
    return "%s(%s)" % (atom_text(t[0]), ",".join(to_text(x) for x in t[1:]))


def is_ground(t):
    if is_var(t):
        return False
    if is_compound(t):
        return all(is_ground(x) for x in t[1:])
    return True


def subterms(t):
    """proper subterms, outermost first"""
    if is_compound(t):
        for x in t[1:]:
            yield x
        for x in t[1:]:
            for y in subterms(x):
                yield y


def size(t):
    if is_compound(t):
        return 1 + sum(size(x) for x in t[1:])
    return 1


# ---------------------------------------------------------------------------------------------
# ground truth the model is bound to: examples written out in ISO/IEC 13211-1 (8.4.1.4, 8.4.2.4
# compare/3 of Cor.2, 8.4.3 sort/2 of Cor.2) and the SWI-Prolog manual section 4.6.1 / 4.20.
# (goal description, a, b, expected order)

GROUND_TRUTH = [
    ("ISO 8.4.1.4: 1.0 @=< 1", 1.0, 1, -1),
    ("ISO 8.4.1.4: 1.0 @< 1", 1.0, 1, -1),
    ("ISO 8.4.1.4: 1 \\== 1 fails", 1, 1, 0),
    ("ISO 8.4.1.4: aardvark @=< zebra", "aardvark", "zebra", -1),
    ("ISO 8.4.1.4: short @=< short", "short", "short", 0),
    ("ISO 8.4.1.4: short @=< shorter", "short", "shorter", -1),
    ("ISO 8.4.1.4: short @>= shorter fails", "short", "shorter", -1),
    ("ISO 8.4.1.4: foo(a,b) @< north(a) fails", ["foo", "a", "b"], ["north", "a"], 1),
    ("ISO 8.4.1.4: foo(b) @> foo(a)", ["foo", "b"], ["foo", "a"], 1),
    ("ISO 8.4.1.4: foo(a,X) @< foo(b,Y)", ["foo", "a", {"var": 1}], ["foo", "b", {"var": 2}], -1),
    ("ISO 8.4.1.4: X @=< X", {"var": 1}, {"var": 1}, 0),
    ("ISO Cor.2 8.4.2.4: compare(O,3,5) O = <", 3, 5, -1),
    ("ISO Cor.2 8.4.2.4: compare(O,d,d) O = =", "d", "d", 0),
    ("ISO Cor.2 8.4.2.4: compare(<,<,<) fails", "<", "<", 0),
    ("SWI 4.6.1: Var < Number", {"var": 1}, -100, -1),
    ("SWI 4.6.1: Number < Atom", 100, "a", -1),
    ("SWI 4.6.1: Atom < Compound", "z", ["a", "a"], -1),
    ("SWI 4.6.1: numbers by value, mixed", 1, 1.5, -1),
    ("SWI 4.6.1: numbers by value, mixed", 2, 1.5, 1),
    ("SWI 4.6.1: equal by value: Float < Int", 2.0, 2, -1),
    ("SWI 4.6.1: numbers by value", 9, 10, -1),
    ("SWI 4.6.1: numbers by value", -2, -1, -1),
    ("SWI 4.6.1: atoms alphabetically (char code)", "B", "a", -1),
    ("SWI 4.6.1: atoms alphabetically (quotes are syntax)", "a", "a b", -1),
    ("SWI 4.6.1: compound arity first", ["z", "z"], ["a", "a", "a"], -1),
    ("SWI 4.6.1: then name", ["a", "z"], ["b", "a"], -1),
    ("SWI 4.6.1: then arguments leftmost first", ["f", "a", "z"], ["f", "b", "a"], -1),
]

SORT_TRUTH = [
    ("ISO Cor.2 8.4.3.4: sort([1,1],S) S=[1]", [1, 1], [1]),
    ("SWI 4.20: sort/2 removes duplicates", ["c", "a", "b", "a"], ["a", "b", "c"]),
    ("SWI-Prolog 9 on the ground part of the ISO Cor.2 8.4.3.4 example (numbers by value, not floats first)",
     [["+", 1, 2], "z", "a", 1, 2, 1, 7.0, 8.0, ["+", 1, 2], 8.0, ["-", "a"], "a"],
     [1, 2, 7.0, 8.0, "a", "z", ["-", "a"], ["+", 1, 2]]),
]


def self_check():
    """Raises RuntimeError when the model disagrees with the written-out ground truth."""
    n = 0
    for what, a, b, exp in GROUND_TRUTH:
        got = compare(a, b)
        if got != exp or compare(b, a) != -exp:
            raise RuntimeError("reference R5 broken: %s: compare gives %r / %r" % (what, got, compare(b, a)))
        n += 1
    for what, inp, exp in SORT_TRUTH:
        got = sort_unique(inp)
        if got != exp or [type(x) for x in got] != [type(x) for x in exp]:
            raise RuntimeError("reference R5 broken: %s: sort gives %r" % (what, got))
        n += 1
    return n
