"""R4 - reference syntactic unification on an independent term type (DESIGN 2.4).

Term type (no ProbLog objects; also the JSON form used in replay cases, with lists for tuples):

    variable   a ``str`` whose first character is an upper-case letter or ``_``      "X", "_G1"
    atom       any other ``str`` not starting with ``"``                               "a", "[]", "'A b'"
    string     a ``str`` starting with ``"``                                            '"s"'
    number     ``int`` or ``float``; 1 and 1.0 are DIFFERENT constants (ISO / Yap: ``1 = 1.0`` fails)
    compound   a ``tuple`` ``(functor, arg1, ..., argn)``, n >= 1; lists are ``(".", Head, Tail)``

A quoted atom whose text needs no quotes denotes the same atom as the unquoted one ("'a'" == "a");
``norm_atom`` normalises that.  Two constants are identical iff they have the same Python type and
the same value after normalisation.

Provided:
    unify(t1, t2)        Robinson unification with occurs check -> substitution dict | None
    rational_unifiable   unifiability over rational (cyclic) trees, i.e. without the occurs check
    classify(t1, t2)     "mgu" | "cyclic" | "clash"
    resolve(t, s)        apply a (triangular) substitution exhaustively
    canon_tuple(ts)      rename variables by first occurrence ("_0", "_1", ...) - equality up to renaming
"""
import re

_UNQUOTED = re.compile(r"^[a-z][A-Za-z0-9_]*$")


def is_var(t):
    return type(t) is str and (t[0] == "_" or t[0].isupper())


def is_compound(t):
    return type(t) is tuple


def norm_atom(t):
    """'a' -> a when the quotes are not needed; everything else unchanged."""
    if type(t) is str and len(t) > 2 and t[0] == "'" and t[-1] == "'" and _UNQUOTED.match(t[1:-1]):
        return t[1:-1]
    return t


def same_constant(a, b):
    """identity of two atomic non-variable terms"""
    if type(a) is not type(b):
        return False
    if type(a) is float and a != a and b != b:  # nan is identical to itself syntactically
        return True
    return norm_atom(a) == norm_atom(b)


def from_json(t):
    if type(t) is list:
        return (t[0],) + tuple(from_json(x) for x in t[1:])
    return t


def to_json(t):
    if type(t) is tuple:
        return [t[0]] + [to_json(x) for x in t[1:]]
    return t


def size(t):
    if type(t) is tuple:
        return 1 + sum(size(x) for x in t[1:])
    return 1


def variables(t, acc=None):
    """variables in order of first occurrence"""
    if acc is None:
        acc = []
    if type(t) is tuple:
        for x in t[1:]:
            variables(x, acc)
    elif is_var(t) and t not in acc:
        acc.append(t)
    return acc


def walk(t, s):
    while is_var(t) and t in s:
        t = s[t]
    return t


def occurs(v, t, s):
    t = walk(t, s)
    if is_var(t):
        return t == v
    if type(t) is tuple:
        return any(occurs(v, x, s) for x in t[1:])
    return False


def unify(t1, t2, s=None):
    """Robinson unification with occurs check.  Returns the extended triangular substitution
    (a new dict) or None.  Order-independent as far as existence and the mgu (up to renaming) go."""
    s = dict(s or {})
    stack = [(t1, t2)]
    while stack:
        a, b = stack.pop()
        a = walk(a, s)
        b = walk(b, s)
        if is_var(a):
            if is_var(b) and a == b:
                continue
            if occurs(a, b, s):
                return None
            s[a] = b
        elif is_var(b):
            if occurs(b, a, s):
                return None
            s[b] = a
        elif type(a) is tuple and type(b) is tuple:
            if len(a) != len(b) or not same_constant(a[0], b[0]):
                return None
            for x, y in zip(a[1:], b[1:]):
                stack.append((x, y))
        elif type(a) is tuple or type(b) is tuple:
            return None
        elif not same_constant(a, b):
            return None
    return s


def rational_unifiable(t1, t2):
    """Is there a unifier over rational trees (unification WITHOUT occurs check)?  Variables are
    bound without test; a pair of compound subterms already under comparison is assumed equal
    (coinduction), which terminates because only subterms of the inputs are ever compared."""
    s = {}
    seen = set()
    stack = [(t1, t2)]
    while stack:
        a, b = stack.pop()
        a = walk(a, s)
        b = walk(b, s)
        if is_var(a):
            if not (is_var(b) and a == b):
                s[a] = b
        elif is_var(b):
            s[b] = a
        elif type(a) is tuple and type(b) is tuple:
            if len(a) != len(b) or not same_constant(a[0], b[0]):
                return False
            key = (id(a), id(b))
            if a is b or key in seen:
                continue
            seen.add(key)
            for x, y in zip(a[1:], b[1:]):
                stack.append((x, y))
        elif type(a) is tuple or type(b) is tuple:
            return False
        elif not same_constant(a, b):
            return False
    return True


def classify(t1, t2):
    """'mgu'    a most general unifier exists (finite trees);
    'cyclic' no finite unifier, but unification without occurs check would go through: the pair
             "needs an occurs-check violation" - the outcome must be failure or an error;
    'clash'  not unifiable even over rational trees: the pair simply does not unify."""
    s = unify(t1, t2)
    if s is not None:
        return "mgu", s
    if rational_unifiable(t1, t2):
        return "cyclic", None
    return "clash", None


def resolve(t, s):
    t = walk(t, s)
    if type(t) is tuple:
        return (t[0],) + tuple(resolve(x, s) for x in t[1:])
    return t


def canon_tuple(ts, prefix="_"):
    """Rename the variables of a sequence of terms by first occurrence; normalise atoms.  Two
    sequences are equal up to (bijective) variable renaming iff their canon_tuple are equal
    (compare with ``same_terms``: 1 vs 1.0 must not be merged by Python's ==)."""
    m = {}

    def r(t):
        if type(t) is tuple:
            return (norm_atom(t[0]),) + tuple(r(x) for x in t[1:])
        if is_var(t):
            if t not in m:
                m[t] = "%s%d" % (prefix, len(m))
            return m[t]
        return norm_atom(t)

    return tuple(r(t) for t in ts)


def typed(t):
    """hashable form that keeps 1 and 1.0 apart"""
    if type(t) is tuple:
        return (typed(t[0]),) + tuple(typed(x) for x in t[1:])
    if type(t) is float:
        return ("float", repr(t))
    if type(t) is int:
        return ("int", t)
    return t


def same_terms(ts1, ts2):
    """equality of two term sequences up to variable renaming"""
    a, b = canon_tuple(ts1), canon_tuple(ts2)
    return len(a) == len(b) and [typed(x) for x in a] == [typed(x) for x in b]


def show(t):
    """Prolog text of a term (own printer)"""
    if type(t) is tuple or type(t) is list:
        if t[0] == "." and len(t) == 3:
            items = [show(t[1])]
            tail = t[2]
            while (type(tail) is tuple or type(tail) is list) and tail[0] == "." and len(tail) == 3:
                items.append(show(tail[1]))
                tail = tail[2]
            if tail == "[]" and type(tail) is str:
                return "[" + ",".join(items) + "]"
            return "[" + ",".join(items) + "|" + show(tail) + "]"
        return "%s(%s)" % (t[0], ",".join(show(x) for x in t[1:]))
    if type(t) is float:
        return repr(t)
    return str(t)
