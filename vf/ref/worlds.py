"""R1 — possible-world reference for the distribution semantics (DESIGN.md 2.4).

Independent of the implementation: own program representation, naive full instantiation over the
Herbrand universe (constants only), total choices = product over probabilistic clause *instances*
(one independent choice per grounding of all variables of a probabilistic clause / AD; every textual
occurrence separately), per world the well-founded model by alternating fixpoint, exact arithmetic.

Program AST (JSON-able):
    term    ::= "c" (constant, lower case / number string) | "X" (variable: upper case first letter)
    atom    ::= [pred, [term, ...]]
    literal ::= [sign(bool: True = positive), atom]   |  ["builtin", op, term, term]  (op in '=', '\\=')
    clause  ::= {"heads": [[prob_string_or_None, atom], ...], "body": [literal, ...]}
    program ::= {"clauses": [clause...], "queries": [atom...], "evidence": [[atom, bool, form]...]}
"""
import itertools
from fractions import Fraction


def is_var(t):
    return isinstance(t, str) and (t[0].isupper() or t[0] == "_")


def atom_str(a):
    p, args = a
    if not args:
        return p
    return "%s(%s)" % (p, ",".join(args))


def subst_atom(a, s):
    return [a[0], [s.get(t, t) for t in a[1]]]


def clause_vars(cl):
    vs = []
    for _, h in cl["heads"]:
        for t in h[1]:
            if is_var(t) and t not in vs:
                vs.append(t)
    for lit in cl["body"]:
        if lit[0] == "builtin":
            ts = lit[2:]
        else:
            ts = lit[1][1]
        for t in ts:
            if is_var(t) and t not in vs:
                vs.append(t)
    return vs


def constants_of(prog):
    cs = []

    def add(ts):
        for t in ts:
            if not is_var(t) and t not in cs:
                cs.append(t)

    for cl in prog["clauses"]:
        for _, h in cl["heads"]:
            add(h[1])
        for lit in cl["body"]:
            add(lit[2:] if lit[0] == "builtin" else lit[1][1])
    for q in prog.get("queries", []):
        add(q[1])
    for e in prog.get("evidence", []):
        add(e[0][1])
    return cs


class GroundProgram(object):
    """Full instantiation of a program.  instances: list of
    (clause_index, subst_tuple, heads [(Fraction|None, atomstr)], pos [atomstr], neg [atomstr])"""

    def __init__(self, prog):
        self.prog = prog
        self.consts = constants_of(prog)
        self.instances = []
        for ci, cl in enumerate(prog["clauses"]):
            vs = clause_vars(cl)
            if vs and not self.consts:
                continue
            for vals in itertools.product(self.consts, repeat=len(vs)):
                s = dict(zip(vs, vals))
                ok = True
                pos, neg = [], []
                for lit in cl["body"]:
                    if lit[0] == "builtin":
                        l, r = s.get(lit[2], lit[2]), s.get(lit[3], lit[3])
                        if (lit[1] == "=") != (l == r):
                            ok = False
                            break
                    elif lit[0]:
                        pos.append(atom_str(subst_atom(lit[1], s)))
                    else:
                        neg.append(atom_str(subst_atom(lit[1], s)))
                if not ok:
                    continue
                heads = [(None if p is None else Fraction(p), atom_str(subst_atom(h, s))) for p, h in cl["heads"]]
                self.instances.append((ci, vals, heads, pos, neg))
        self._prune()
        self.choices = [i for i, inst in enumerate(self.instances) if any(p is not None for p, _ in inst[2])]

    def _prune(self):
        """Drop instances whose positive body can never be true (over-approximation: all choices
        on, negative literals ignored).  Sound: such an instance never fires in any world."""
        possible = set()
        changed = True
        while changed:
            changed = False
            for ci, vals, heads, pos, neg in self.instances:
                if all(a in possible for a in pos):
                    for p, h in heads:
                        if h not in possible and (p is None or p > 0):
                            possible.add(h)
                            changed = True
        self.possible = possible
        self.all_instances = self.instances
        self.instances = [inst for inst in self.instances if all(a in possible for a in inst[3])]

    def atoms(self):
        s = set()
        for ci, vals, heads, pos, neg in self.all_instances:
            s.update(h for _, h in heads)
            s.update(pos)
            s.update(neg)
        return s

    def has_negative_cycle(self, pruned=False):
        """Cycle through negation in the ground dependency graph (full instantiation)."""
        edges = {}
        for ci, vals, heads, pos, neg in (self.instances if pruned else self.all_instances):
            for _, h in heads:
                d = edges.setdefault(h, set())
                for a in pos:
                    d.add((a, True))
                for a in neg:
                    d.add((a, False))

        def reach(src):
            seen = {src}
            st = [src]
            while st:
                u = st.pop()
                for v, _ in edges.get(u, ()):
                    if v not in seen:
                        seen.add(v)
                        st.append(v)
            return seen

        for h, deps in edges.items():
            for a, positive in deps:
                if not positive and h in reach(a):
                    return True
        return False

    def worlds(self):
        """yields (prob Fraction, rules) for every total choice with non-zero probability;
        rules = list of (head, pos, neg) of the normal program of that world."""
        det_rules = []
        options = []
        for i, (ci, vals, heads, pos, neg) in enumerate(self.instances):
            if all(p is None for p, _ in heads):
                for _, h in heads:
                    det_rules.append((h, pos, neg))
            else:
                opts = []
                total = Fraction(0)
                for p, h in heads:
                    pp = Fraction(1) if p is None else p
                    total += pp
                    opts.append((pp, h))
                opts.append((1 - total, None))
                options.append((opts, pos, neg))
        for combo in itertools.product(*[o[0] for o in options]):
            pw = Fraction(1)
            for p, _ in combo:
                pw *= p
            if pw == 0:
                continue
            rules = list(det_rules)
            for (p, h), (_, pos, neg) in zip(combo, options):
                if h is not None:
                    rules.append((h, pos, neg))
            yield pw, rules, combo

    def invalid_probabilities(self):
        for ci, vals, heads, pos, neg in self.all_instances:
            tot = Fraction(0)
            for p, h in heads:
                if p is not None:
                    if p < 0 or p > 1:
                        return True
                    tot += p
            if tot > 1:
                return True
        return False


def _lfp(rules, negfalse):
    """least model of the reduct where \\+x holds iff x not in negfalse-set's complement:
    a negative literal \\+x is true iff x not in ``negfalse``."""
    true = set()
    changed = True
    while changed:
        changed = False
        for h, pos, neg in rules:
            if h in true:
                continue
            if all(a in true for a in pos) and all(a not in negfalse for a in neg):
                true.add(h)
                changed = True
    return true


def wfm(rules, universe):
    """Well-founded model by alternating fixpoint: returns (T, U) with T = true atoms,
    U = atoms that are true or undefined (T subset of U)."""
    T = set()
    U = set(universe)
    while True:
        T2 = _lfp(rules, U)
        U2 = _lfp(rules, T2)
        if T2 == T and U2 == U:
            return T, U
        T, U = T2, U2


def solve(prog, gp=None):
    """Exact reference answer.  Returns dict:
        pe            P(evidence)                    (Fraction)
        pq            {ground atom string: P(q and e)} for every ground instance of every query
        instances     {query index: [ground atom strings]} candidate instances (all groundings)
        undefined     True iff some world of non-zero probability leaves a query or evidence atom
                      undefined (three-valued) -> 'must reject'
        negcycle      True iff the full ground dependency graph has a cycle through negation
        nworlds, nchoices
    """
    gp = gp or GroundProgram(prog)
    consts = gp.consts
    qinst = {}
    qatoms = []
    for qi, q in enumerate(prog.get("queries", [])):
        vs = [t for t in dict.fromkeys(q[1]) if is_var(t)]
        inst = []
        for vals in itertools.product(consts, repeat=len(vs)):
            s = dict(zip(vs, vals))
            inst.append(atom_str(subst_atom(q, s)))
        qinst[qi] = inst
        for a in inst:
            if a not in qatoms:
                qatoms.append(a)
    ev = [(atom_str(e[0]), bool(e[1])) for e in prog.get("evidence", [])]
    universe = gp.atoms() | set(qatoms) | set(a for a, _ in ev)
    pe = Fraction(0)
    pq = {a: Fraction(0) for a in qatoms}
    pq_noev = {a: Fraction(0) for a in qatoms}
    undefined = False
    nworlds = 0
    for pw, rules, combo in gp.worlds():
        nworlds += 1
        T, U = wfm(rules, universe)
        # 'must reject' witness: an evidence atom is undefined, or all evidence is two-valued and
        # satisfied and a query atom is undefined (worlds ruled out by the evidence do not count:
        # goal-directed pruning may legitimately never look at them)
        ev_undef = any((a in T) != (a in U) for a, _ in ev)
        ev_sat = all((a in T) == val for a, val in ev)
        if ev_undef or (ev_sat and any((a in T) != (a in U) for a in qatoms)):
            undefined = True
        for a in qatoms:
            if a in T:
                pq_noev[a] += pw
        if all((a in T) == val for a, val in ev):
            pe += pw
            for a in qatoms:
                if a in T:
                    pq[a] += pw
    return dict(pe=pe, pq=pq, pq_noev=pq_noev, instances=qinst, undefined=undefined,
                negcycle=gp.has_negative_cycle(), nworlds=nworlds, nchoices=len(gp.choices))
