"""Tiny Prolog evaluator for the C19 fragment (reference side; imports nothing from problog).

Terms (JSON-able):
    variable   str whose first character is upper case or '_'          "X", "_G3"
    atom       any other str                                            "a", "[]"
    integer    int
    compound   list/tuple [functor, arg1, ..., argn]                    ["f", "X"], [".", "a", "[]"], ["-", "X", "Y"]

Clauses: (head_term, body_term_or_None), tried in textual order.  Resolution is SLD: leftmost literal first,
depth first, so ``solve`` yields the answers in standard Prolog order, duplicates included.

Control / builtins: ``,`` ``;`` ``true`` ``fail`` ``\\+`` ``=`` ``\\=`` ``findall/3`` ``all/3`` (YAP: distinct solutions
in order of first occurrence, fails when there is none; ``all_dup`` = the literal reading "findall that fails on
[]") ``length/2`` (proper list in, integer out), ``$chosen/n`` (world oracle supplied by the caller).
"""


class StepBound(Exception):
    pass


class Unsupported(Exception):
    pass


def is_var(t):
    return isinstance(t, str) and (t[:1].isupper() or t[:1] == "_")


def is_compound(t):
    return isinstance(t, (list, tuple))


def freeze(t):
    """lists -> tuples (hashable)"""
    if is_compound(t):
        return tuple(freeze(x) for x in t)
    return t


def walk(t, s):
    while is_var(t) and t in s:
        t = s[t]
    return t


def resolve(t, s):
    t = walk(t, s)
    if is_compound(t):
        return (t[0],) + tuple(resolve(a, s) for a in t[1:])
    return t


def unify(a, b, s):
    a = walk(a, s)
    b = walk(b, s)
    if is_var(a):
        if is_var(b) and a == b:
            return s
        s = dict(s)
        s[a] = b
        return s
    if is_var(b):
        s = dict(s)
        s[b] = a
        return s
    if is_compound(a) and is_compound(b):
        if a[0] != b[0] or len(a) != len(b):
            return None
        for x, y in zip(a[1:], b[1:]):
            s = unify(x, y, s)
            if s is None:
                return None
        return s
    if is_compound(a) or is_compound(b):
        return None
    return s if (a == b and type(a) == type(b)) else None


def term_vars(t, acc=None):
    if acc is None:
        acc = []
    if is_var(t):
        if t not in acc:
            acc.append(t)
    elif is_compound(t):
        for a in t[1:]:
            term_vars(a, acc)
    return acc


def is_ground(t):
    return not term_vars(t)


def rename(t, m, fresh):
    if is_var(t):
        if t == "_":
            return fresh()
        if t not in m:
            m[t] = fresh()
        return m[t]
    if is_compound(t):
        return (t[0],) + tuple(rename(a, m, fresh) for a in t[1:])
    return t


def mklist(items, tail="[]"):
    t = tail
    for x in reversed(list(items)):
        t = (".", x, t)
    return t


def list_items(t, s=None):
    """proper list -> python list, else None"""
    out = []
    t = walk(t, s or {})
    while True:
        if t == "[]":
            return out
        if is_compound(t) and t[0] == "." and len(t) == 3:
            out.append(t[1])
            t = walk(t[2], s or {})
        else:
            return None


INFIX = {"-": 500, "=": 700, "\\=": 700, ",": 1000, ";": 1100}


def show(t, spaces=False):
    """ProbLog-compatible text (used both for the program source and for answer keys)."""
    sep = ", " if spaces else ","
    if is_var(t):
        return t
    if isinstance(t, int):
        return str(t)
    if not is_compound(t):
        return t
    f = t[0]
    if f == "." and len(t) == 3:
        items = []
        while is_compound(t) and t[0] == "." and len(t) == 3:
            items.append(show(t[1], spaces))
            t = t[2]
        if t == "[]":
            return "[" + sep.join(items) + "]"
        return "[" + sep.join(items) + "|" + show(t, spaces) + "]"
    if f in INFIX and len(t) == 3:
        def par(x, left):
            txt = show(x, spaces)
            if is_compound(x) and x[0] in INFIX and len(x) == 3:
                px, pf = INFIX[x[0]], INFIX[f]
                # ',' and ';' are right associative (xfy); '-' is left associative (yfx); '=' xfx
                ok = px < pf or (px == pf and ((f in (",", ";") and not left) or (f == "-" and left)))
                if not ok:
                    return "(" + txt + ")"
            if is_compound(x) and x[0] == "\\+" and INFIX[f] < 900:
                return "(" + txt + ")"
            return txt

        op = f if f in ("-",) else (f + " " if f == "," else " " + f + " ") if spaces else f
        return par(t[1], True) + op + par(t[2], False)
    if f == "\\+" and len(t) == 2:
        a = show(t[1], spaces)
        if is_compound(t[1]) and t[1][0] in INFIX and len(t[1]) == 3:
            a = "(" + a + ")"
        return "\\+" + a
    args = []
    for a in t[1:]:
        txt = show(a, spaces)
        if is_compound(a) and a[0] in (",", ";") and len(a) == 3:
            txt = "(" + txt + ")"
        args.append(txt)
    return "%s(%s)" % (f, sep.join(args))


class Machine(object):
    def __init__(self, clauses, chosen=None, max_steps=200000, all_dedup=True, declared=()):
        """clauses: list of (head, body|None) in textual order; chosen(ci, vals) -> bool for ``$chosen``;
        declared: (functor, arity) pairs that have clauses in the program text although none in this world"""
        self.index = {k: [] for k in declared}
        for head, body in clauses:
            head = freeze(head)
            key = (head[0], len(head) - 1) if is_compound(head) else (head, 0)
            self.index.setdefault(key, []).append((head, freeze(body) if body is not None else None))
        self.chosen = chosen
        self.steps = 0
        self.max_steps = max_steps
        self.counter = 0
        self.all_dedup = all_dedup
        self.maxlist = 0  # longest list collected by findall/all (before removing duplicates)

    def fresh(self):
        self.counter += 1
        return "_G%d" % self.counter

    def solve(self, goal, s):
        self.steps += 1
        if self.steps > self.max_steps:
            raise StepBound()
        goal = walk(goal, s)
        if is_var(goal):
            raise Unsupported("unbound goal")
        if goal == "true":
            yield s
            return
        if goal in ("fail", "false"):
            return
        f, n = (goal[0], len(goal) - 1) if is_compound(goal) else (goal, 0)
        if f == "," and n == 2:
            for s1 in self.solve(goal[1], s):
                for s2 in self.solve(goal[2], s1):
                    yield s2
            return
        if f == ";" and n == 2:
            for s1 in self.solve(goal[1], s):
                yield s1
            for s1 in self.solve(goal[2], s):
                yield s1
            return
        if f == "\\+" and n == 1:
            if not is_ground(resolve(goal[1], s)) and not self._is_collect(walk(goal[1], s)):
                raise Unsupported("floundering negation")
            for _ in self.solve(goal[1], s):
                return
            yield s
            return
        if f == "=" and n == 2:
            s1 = unify(goal[1], goal[2], s)
            if s1 is not None:
                yield s1
            return
        if f == "\\=" and n == 2:
            if unify(goal[1], goal[2], s) is None:
                yield s
            return
        if f in ("findall", "all") and n == 3:
            items = []
            for s1 in self.solve(goal[2], s):
                inst = resolve(goal[1], s1)
                items.append(rename(inst, {}, self.fresh) if not is_ground(inst) else inst)
            self.maxlist = max(self.maxlist, len(items))
            if f == "all":
                if self.all_dedup:
                    ded = []
                    for x in items:
                        if x not in ded:
                            ded.append(x)
                    items = ded
                if not items:
                    return
            s1 = unify(goal[3], mklist(items), s)
            if s1 is not None:
                yield s1
            return
        if f == "length" and n == 2:
            items = list_items(goal[1], s)
            if items is None:
                raise Unsupported("length of a partial list")
            s1 = unify(goal[2], len(items), s)
            if s1 is not None:
                yield s1
            return
        if f == "$chosen":
            args = resolve(goal, s)[1:]
            if not all(is_ground(a) for a in args):
                raise Unsupported("non-ground probabilistic clause instance")
            if self.chosen(args[0], tuple(args[1:])):
                yield s
            return
        if (f, n) not in self.index:
            raise Unsupported("unknown procedure %s/%d" % (f, n))
        for head, body in self.index[(f, n)]:
            m = {}
            h = rename(head, m, self.fresh)
            s1 = unify(goal, h, s)
            if s1 is None:
                continue
            if body is None:
                yield s1
            else:
                for s2 in self.solve(rename(body, m, self.fresh), s1):
                    yield s2

    @staticmethod
    def _is_collect(g):
        return is_compound(g) and g[0] in ("findall", "all") and len(g) == 4

    def answers(self, query):
        """ordered list of the (resolved) instances of ``query``"""
        query = freeze(query)
        return [resolve(query, s) for s in self.solve(query, {})]
