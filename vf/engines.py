"""Engine schedules as choice points (E1 seam, DESIGN 2.2): subclasses of the real
StackBasedEngine that override the documented extension point ``init_message_stack`` and return a
queue whose behaviour consults the current ``Chooser``.  No source change in /repo is needed."""
import itertools

from .explore import Chooser, HorizonExceeded

CURRENT = None  # the Chooser of the running execution


def set_chooser(ch):
    global CURRENT
    CURRENT = ch


_PERMS = {}


def batch_orders(k):
    """the menu of re-orderings of a batch of k sibling messages; index 0 is the identity.
    k <= 4: all k! permutations; larger batches: reversal, rotations, adjacent transpositions."""
    if k not in _PERMS:
        ident = tuple(range(k))
        if k <= 4:
            ps = list(itertools.permutations(range(k)))
        else:
            ps = [ident, ident[::-1]]
            for r in range(1, k):
                ps.append(ident[r:] + ident[:r])
            for i in range(k - 1):
                p = list(ident)
                p[i], p[i + 1] = p[i + 1], p[i]
                ps.append(tuple(p))
            seen = []
            for p in ps:
                if p not in seen:
                    seen.append(p)
            ps = seen
        _PERMS[k] = ps
    return _PERMS[k]


def make_engines():
    """build the engine classes lazily (problog is imported from $VERIF_REPO)"""
    from problog.engine_stack import StackBasedEngine, MessageFIFO, MessageAnyOrder

    class PermFIFO(MessageFIFO):
        """MessageFIFO that lets the chooser permute every batch of >= 2 sibling 'e' messages."""

        def __iadd__(self, messages):
            msgs = list(messages)
            if len(msgs) > 1 and all(m[0] == "e" for m in msgs):
                orders = batch_orders(len(msgs))
                c = CURRENT.choose(len(orders), "batch%d" % len(msgs))
                msgs = [msgs[j] for j in orders[c]]
            for m in msgs:
                self.append(m)
            return self

        def pop(self):
            CURRENT.tick()
            return MessageFIFO.pop(self)

    class PermEngine(StackBasedEngine):
        def __init__(self, **kw):
            StackBasedEngine.__init__(self, **kw)

        def init_message_stack(self):
            return PermFIFO(self)

    class ChoiceQueue(MessageAnyOrder):
        """The RandomOrderQueue of docs/source/engine.rst with random.randint replaced by the
        chooser: choice c pops the c-th pending 'e' message counted from the end, so the default
        (0) is the behaviour of the built-in rc_first queue."""

        def __init__(self, engine):
            MessageAnyOrder.__init__(self, engine)
            self.messages_rc = []
            self.messages_e = []

        def append(self, message):
            if message[0] == "e":
                self.messages_e.append(message)
            else:
                self.messages_rc.append(message)

        def pop(self):
            CURRENT.tick()
            if self.messages_rc:
                return self.messages_rc.pop(-1)
            n = len(self.messages_e)
            if n > 1:
                c = CURRENT.choose(n, "pick%d" % n)
                return self.messages_e.pop(n - 1 - c)
            return self.messages_e.pop(-1)

        def __nonzero__(self):
            return bool(self.messages_e) or bool(self.messages_rc)

        def __bool__(self):
            return bool(self.messages_e) or bool(self.messages_rc)

        def __len__(self):
            return len(self.messages_e) + len(self.messages_rc)

        def __iter__(self):
            return iter(self.messages_e + self.messages_rc)

    class ChoiceOrderEngine(StackBasedEngine):
        def __init__(self, **kw):
            StackBasedEngine.__init__(self, unbuffered=True)

        def init_message_stack(self):
            return ChoiceQueue(self)

    class TickFIFO(MessageFIFO):
        def pop(self):
            CURRENT.tick()
            return MessageFIFO.pop(self)

    class CountingEngine(StackBasedEngine):
        """default engine that only counts queue pops (to derive step horizons)"""

        def init_message_stack(self):
            q = StackBasedEngine.init_message_stack(self)
            real_pop = q.pop

            def pop():
                CURRENT.tick()
                return real_pop()

            q.pop = pop
            return q

    return dict(perm=PermEngine, choice=ChoiceOrderEngine, counting=CountingEngine,
                unbuffered=lambda: CountingEngine(unbuffered=True),
                rc_first=lambda: CountingEngine(unbuffered=True, rc_first=True))


_ENGINES = None


def engines():
    global _ENGINES
    if _ENGINES is None:
        _ENGINES = make_engines()
    return _ENGINES


def run_with_engine(src, kind, prefix=(), horizon=None, timeout=10):
    """ground with the given engine kind under the schedule ``prefix``, compile (d-DNNF) and
    evaluate.  Returns (outcome tuple, chooser)."""
    from problog.program import PrologString
    from problog.formula import LogicFormula
    from problog.ddnnf_formula import DDNNF
    from .plrun import classify_exception, install_dsharp_cache
    from .core import watchdog, WatchdogTimeout

    install_dsharp_cache()
    ch = Chooser(prefix, horizon=horizon)
    set_chooser(ch)
    try:
        with watchdog(timeout):
            eng = engines()[kind]()
            lf = LogicFormula.create_from(PrologString(src), engine=eng)
            res = DDNNF.create_from(lf).evaluate()
            out = ("ok", {str(k): v for k, v in res.items()})
    except WatchdogTimeout:
        out = ("timeout",)
    except RecursionError:
        out = ("recursion",)
    except HorizonExceeded:
        out = ("livelock", "step horizon exceeded")
    except Exception as exc:  # noqa
        out = classify_exception(exc)
    finally:
        set_chooser(None)
    return out, ch
