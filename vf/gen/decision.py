"""FT-decision: the program grammar of C21 (DT-ProbLog), over the AST of vf/ref/worlds.py extended with
decision clauses (head probability "?") and prog["utilities"] = [[sign, atom, value], ...].

    program  ::= PREAMBLE  k statements of MENU (in menu order, closed)  m utility facts
    PREAMBLE ::= ?::d1. ?::d2. 0.3::a. 0.6::b.
    utility  ::= utility(L, v)   L in d1 | d2 | \\+d1 | d3 | h | \\+h (h a derived head of the program), v in VALUES,
                 at most one utility per literal

Everything is enumerated (no sampling) in a fixed order: family "FTD.k.m" = all closed k-subsets of the menu x
all m-subsets of the utility literals x all value assignments.  Programs are evidence-free.
"""
import itertools

from ..ref.worlds import atom_str
from .programs import A, fact, rule, ad, clause_text, _closed_clauses, _heads_of

VALUES = (-5, 2, 10)
T, F = True, False


def preamble():
    return [fact("?", A("d1")), fact("?", A("d2")), fact("0.3", A("a")), fact("0.6", A("b"))]


def menu():
    m = [
        rule(A("p"), [[T, A("d1")]]),                                       # 0
        rule(A("p"), [[T, A("d1")], [T, A("a")]]),                          # 1
        rule(A("p"), [[T, A("d2")], [F, A("a")]]),                          # 2
        rule(A("p"), [[F, A("d1")]]),                                       # 3  negated decision
        rule(A("p"), [[T, A("d1")], [T, A("d2")]]),                         # 4
        rule(A("q"), [[T, A("d2")], [T, A("b")]]),                          # 5
        rule(A("q"), [[F, A("d2")], [T, A("a")]]),                          # 6
        rule(A("q"), [[T, A("p")], [T, A("b")]]),                           # 7
        rule(A("q"), [[F, A("p")]]),                                        # 8  negation of a derived atom
        rule(A("q"), [[T, A("d1")], [F, A("d2")]]),                         # 9
        rule(A("r"), [[T, A("p")], [T, A("q")]]),                           # 10
        rule(A("r"), [[F, A("q")], [T, A("d2")]]),                          # 11
        rule(A("r"), [[T, A("d3")]]),                                       # 12
        fact("?", A("d3")),                                                 # 13 a third decision
        rule(A("d3"), [[T, A("a")]], p="?"),                                # 14 decision with a body
        rule(A("p"), [[T, A("d2")]], p="0.5"),                              # 15 probabilistic rule
        ad([("0.3", A("p")), ("0.6", A("q"))], [[T, A("d1")]]),             # 16 AD triggered by a decision
        ad([("0.4", A("q")), ("0.5", A("r"))], [[F, A("d1")], [T, A("a")]]),  # 17
        rule(A("p"), [[T, A("q")]]),                                        # 18 positive cycle with 7
        rule(A("r"), [[F, A("p")], [F, A("d1")]]),                          # 19
    ]
    return m


def rule_sets(k):
    """closed k-subsets of the menu (menu order); at most one definition of d3"""
    m = menu()
    pre = preamble()
    for idxs in itertools.combinations(range(len(m)), k):
        if 13 in idxs and 14 in idxs:
            continue
        clauses = pre + [m[i] for i in idxs]
        if not _closed_clauses(clauses):
            continue
        yield idxs, clauses


def utility_literals(clauses):
    heads = [h for h in _heads_of(clauses)]
    names = [atom_str(h) for h in heads]
    lits = [[T, A("d1")], [T, A("d2")], [F, A("d1")]]
    if "d3" in names:
        lits.append([T, A("d3")])
    for h in ("p", "q", "r"):
        if h in names:
            lits.append([T, A(h)])
            lits.append([F, A(h)])
    return lits


def utility_sets(clauses, m):
    lits = utility_literals(clauses)
    for sel in itertools.combinations(range(len(lits)), m):
        for vals in itertools.product(VALUES, repeat=m):
            yield [[lits[i][0], lits[i][1], v] for i, v in zip(sel, vals)]


def programs(k, m):
    for idxs, clauses in rule_sets(k):
        for uts in utility_sets(clauses, m):
            yield {"clauses": clauses, "queries": [], "evidence": [], "utilities": uts}


def stream(family):
    """family = 'FTD.<k>.<m>'"""
    _, k, m = family.split(".")
    return programs(int(k), int(m))


def shard_stream(family, mod, rem):
    for i, p in enumerate(stream(family)):
        if i % mod == rem:
            yield i, p


def utility_text(u):
    sign, atom, v = u
    return "utility(%s%s,%d)." % ("" if sign else "\\+", atom_str(atom), v)


def program_text(prog):
    out = [clause_text(cl) for cl in prog["clauses"]]
    out += [utility_text(u) for u in prog.get("utilities", [])]
    return " ".join(out)
