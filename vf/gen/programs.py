"""Program grammars (DESIGN.md 2.3) over the AST of vf/ref/worlds.py, and the printer.

All generators are deterministic, enumerate their family exhaustively up to the stated bound in
simplest-first order, and apply only the symmetry reduction "derived predicate names in order of
first occurrence" (sound: no property depends on a predicate name; clause order, fact identity and
probabilities are never permuted).
"""
import itertools

from ..ref.worlds import is_var, atom_str


# ---------------------------------------------------------------------------------------------
# printing

def lit_text(lit):
    if lit[0] == "builtin":
        return "%s %s %s" % (lit[2], lit[1], lit[3])
    return atom_str(lit[1]) if lit[0] else "\\+" + atom_str(lit[1])


def clause_text(cl):
    if cl.get("text"):  # a clause given as surface text (used where no reference needs its AST)
        return cl["text"]
    heads = "; ".join((("%s::" % p) if p is not None else "") + atom_str(h) for p, h in cl["heads"])
    if cl["body"]:
        return heads + " :- " + ", ".join(lit_text(l) for l in cl["body"]) + "."
    return heads + "."


def evidence_text(e):
    atom, val, form = e
    a = atom_str(atom)
    if form in ("plain", "neg"):  # evidence(a). / evidence(\\+a).
        return "evidence(%s)." % a if val else "evidence(\\+%s)." % a
    return "evidence(%s,%s)." % (a, "true" if val else "false")


def merged_clause_texts(clauses):
    """consecutive deterministic rules with the same single head are written as ONE clause whose body is
    the disjunction of their bodies: `p :- x. p :- q.` -> `p :- (x ; q).` (same meaning, different engine
    path: body disjunctions)"""
    out = []
    i = 0
    while i < len(clauses):
        cl = clauses[i]
        group = [cl]
        if len(cl["heads"]) == 1 and cl["heads"][0][0] is None and cl["body"]:
            j = i + 1
            while (j < len(clauses) and len(clauses[j]["heads"]) == 1 and clauses[j]["heads"][0] == cl["heads"][0]
                   and clauses[j]["body"]):
                group.append(clauses[j])
                j += 1
        if len(group) > 1:
            bodies = ["(" + ", ".join(lit_text(l) for l in g["body"]) + ")" for g in group]
            out.append("%s :- (%s)." % (atom_str(cl["heads"][0][1]), " ; ".join(bodies)))
            i += len(group)
        else:
            out.append(clause_text(cl))
            i += 1
    return out


def statements(prog):
    if prog.get("merge_or"):
        out = merged_clause_texts(prog["clauses"])
    else:
        out = [clause_text(cl) for cl in prog["clauses"]]
    out += ["query(%s)." % atom_str(q) for q in prog.get("queries", [])]
    out += [evidence_text(e) for e in prog.get("evidence", [])]
    return out


def program_text(prog):
    if prog.get("text"):  # hand-written surface syntax whose meaning is given by the AST (family FLEX)
        return prog["text"]
    return " ".join(statements(prog))


def A(pred, *args):
    return [pred, list(args)]


def fact(p, atom):
    return {"heads": [[p, atom]], "body": []}


def rule(head, body, p=None):
    return {"heads": [[p, head]], "body": body}


def ad(heads, body=()):
    return {"heads": [[p, h] for p, h in heads], "body": list(body)}


# ---------------------------------------------------------------------------------------------
# F1: propositional

F1_FACTS = [("0.3", "a"), ("0.6", "b")]
DER = ["p", "q", "r"]


def f1_rules(bodies="all"):
    atoms = [f for _, f in F1_FACTS] + DER
    lits = [(x, True) for x in atoms] + [(x, False) for x in atoms]
    bs = [(l,) for l in lits]
    if bodies == "all":
        bs += [(l1, l2) for l1 in lits for l2 in lits if l1[0] != l2[0]]
    return [(h, b) for h in DER for b in bs]


def _canonical_derived(rules):
    """derived predicates must first occur (heads and bodies, reading left to right) in the
    order p, q, r"""
    seen = []
    for h, b in rules:
        for x in [h] + [a for a, _ in b]:
            if x in DER and x not in seen:
                seen.append(x)
    return seen == DER[: len(seen)]


def _closed(rules):
    heads = {h for h, b in rules}
    used = {x for h, b in rules for x, s in b if x in DER}
    return used <= heads


def f1_programs(nrules, bodies="all", dup_facts=False, facts=None):
    """all closed canonical F1 rule sets with exactly nrules rules (as clause lists); ``facts``
    replaces the probabilities of a and b (boundary values 1.0 / 0.0 for the F1.*one families)"""
    allrules = f1_rules(bodies)
    for rs in itertools.combinations(allrules, nrules):
        if not _closed(rs) or not _canonical_derived(rs):
            continue
        clauses = [fact(p, A(f)) for p, f in (facts or F1_FACTS)]
        if dup_facts:
            clauses.append(fact("0.3", A("a")))
        for h, b in rs:
            clauses.append(rule(A(h), [[pos, A(x)] for x, pos in b]))
        yield clauses, sorted({h for h, b in rs})


EV_FORMS = ["plain", "pair", "neg", "pair"]


def decorate(clauses, heads, facts=("a",), k=0):
    """query/evidence decorations of a clause list: queries on all derived heads; evidence in
    {none, +fact, -first head, +last head}, syntactic form rotating with k"""
    qs = [A(h) for h in heads]
    yield {"clauses": clauses, "queries": qs, "evidence": []}
    yield {"clauses": clauses, "queries": qs, "evidence": [[A(facts[0]), True, EV_FORMS[k % 4]]]}
    yield {"clauses": clauses, "queries": qs, "evidence": [[A(heads[0]), False, EV_FORMS[(k + 1) % 4]]]}
    yield {"clauses": clauses, "queries": qs, "evidence": [[A(heads[-1]), True, EV_FORMS[(k + 2) % 4]]]}


# ---------------------------------------------------------------------------------------------
# F2: annotated disjunctions (propositional)

def f2_menu():
    m = []
    m.append(ad([("0.3", A("a")), ("0.5", A("b"))]))
    m.append(ad([("0.2", A("a")), ("0.3", A("b")), ("0.4", A("c"))]))
    m.append(ad([("0.5", A("a")), ("0.5", A("b"))]))
    m.append(fact("0.6", A("d")))
    m.append(fact("0.3", A("a")))
    m.append(ad([("0.3", A("p")), ("0.6", A("q"))], [[True, A("d")]]))
    m.append(ad([("0.2", A("p")), ("0.5", A("q"))], [[True, A("a")]]))
    m.append(ad([("0.3", A("p")), ("0.2", A("q"))], [[False, A("a")]]))
    m.append(ad([("0.4", A("p")), ("0.6", A("r"))]))
    m.append(rule(A("p"), [[True, A("b")]]))
    m.append(rule(A("q"), [[True, A("a")], [False, A("d")]]))
    m.append(rule(A("r"), [[True, A("p")], [True, A("q")]]))
    m.append(rule(A("r"), [[True, A("p")], [False, A("q")]]))
    m.append(rule(A("r"), [[False, A("p")]]))
    m.append(rule(A("q"), [[True, A("b")], [True, A("q")]]))
    m.append(rule(A("p"), [[True, A("q")]]))
    m.append(rule(A("q"), [[True, A("p")]]))
    m.append(rule(A("p"), [[True, A("a")]], p="0.5"))
    # an AD that names the same atom at two positions (the choices are exclusive: P(p) = 0.2 + 0.3)
    m.append(ad([("0.2", A("p")), ("0.3", A("p"))]))
    # an atom defined only as the negation of an AD head (its node is a bare negated choice)
    m.append(rule(A("s"), [[False, A("a")]]))
    return m


def _heads_of(clauses):
    hs = []
    for cl in clauses:
        for _, h in cl["heads"]:
            if h not in hs:
                hs.append(h)
    return hs


def _body_atoms(clauses):
    bs = []
    for cl in clauses:
        for l in cl["body"]:
            if l[0] != "builtin" and l[1] not in bs:
                bs.append(l[1])
    return bs


def _closed_clauses(clauses):
    """every body predicate has at least one clause (ProbLog raises UnknownClause otherwise)"""
    hp = {(h[0], len(h[1])) for h in _heads_of(clauses)}
    return all((b[0], len(b[1])) in hp for b in _body_atoms(clauses))


def f2_programs(maxk):
    menu = f2_menu()
    for k in range(1, maxk + 1):
        for idxs in itertools.combinations(range(len(menu)), k):
            clauses = [menu[i] for i in idxs]
            if not any(len(c["heads"]) > 1 for c in clauses):
                continue
            if not _closed_clauses(clauses):
                continue
            yield clauses


def decorate_generic(clauses, k=0, maxq=4):
    heads = _heads_of(clauses)
    qs = heads[-maxq:]
    yield {"clauses": clauses, "queries": qs, "evidence": []}
    yield {"clauses": clauses, "queries": qs, "evidence": [[heads[0], True, EV_FORMS[k % 4]]]}
    yield {"clauses": clauses, "queries": qs, "evidence": [[heads[-1], False, "neg" if k % 2 else "pair"]]}
    if len(heads) > 2:
        yield {"clauses": clauses, "queries": qs,
               "evidence": [[heads[1], True, "pair"], [heads[-1], False, "pair"]]}


# ---------------------------------------------------------------------------------------------
# F3 / F4: first-order over constants {c, d}

def f3_fact_sets():
    n_det = [fact(None, A("n", "c")), fact(None, A("n", "d"))]
    n_prob = [fact("0.3", A("n", "c")), fact("0.6", A("n", "d"))]
    n_mixed = [fact(None, A("n", "c")), fact("0.6", A("n", "d"))]
    e1 = [fact("0.5", A("e", "c", "d")), fact("0.4", A("e", "d", "c"))]
    e2 = [fact("0.5", A("e", "c", "d")), fact("0.2", A("e", "c", "c")), fact(None, A("e", "d", "d"))]
    e3 = [fact(None, A("e", "c", "d")), fact("0.4", A("e", "d", "c"))]
    return [n_prob + e1, n_mixed + e2, n_det + e3, n_prob + e3]


def f3_rule_menu():
    X, Y, Z = "X", "Y", "Z"
    m = [
        rule(A("p", X), [[True, A("n", X)]]),
        rule(A("p", X), [[True, A("e", X, Y)]]),
        rule(A("p", X), [[True, A("e", X, Y)], [True, A("p", Y)]]),
        rule(A("p", X), [[True, A("e", Y, X)], [True, A("n", Y)]]),
        rule(A("q", X), [[True, A("n", X)], [False, A("p", X)]]),
        rule(A("q", X), [[True, A("p", X)], [True, A("e", X, X)]]),
        rule(A("q", X), [[True, A("e", X, Y)], [False, A("n", Y)]]),
        rule(A("p", X), [[True, A("n", X)]], p="0.5"),
        rule(A("t", X, Y), [[True, A("e", X, Y)]]),
        rule(A("t", X, Y), [[True, A("e", X, Z)], [True, A("t", Z, Y)]]),
        rule(A("t", X, Y), [[True, A("t", X, Z)], [True, A("e", Z, Y)]]),
        rule(A("r"), [[True, A("p", X)]]),
        rule(A("r"), [[False, A("p", "c")]]),
        rule(A("r"), [[True, A("t", "c", "c")]]),
        rule(A("r"), [[True, A("q", X)], [True, A("n", X)]]),
        rule(A("p", "c"), [[True, A("e", "c", X)]]),
        rule(A("q", X), [[True, A("n", X)], ["builtin", "\\=", X, "c"]]),
        # F4: first-order ADs
        ad([("0.3", A("h", X, "u")), ("0.5", A("h", X, "v"))], [[True, A("n", X)]]),
        ad([("0.6", A("p", X)), ("0.4", A("q", X))], [[True, A("n", X)]]),
        rule(A("r"), [[True, A("h", X, "u")]]),
        rule(A("r"), [[True, A("h", "c", "u")], [True, A("h", "d", "v")]]),
        rule(A("q", X), [[True, A("h", X, "u")], [False, A("h", X, "v")]]),
        # FN: cycles through negation at predicate level
        rule(A("p", X), [[True, A("n", X)], [False, A("q", X)]]),
        rule(A("p", X), [[True, A("e", X, Y)], [False, A("p", Y)]]),
        rule(A("r"), [[True, A("n", "c")], [False, A("r")]]),
        # the same predicate called with a repeated variable and then with distinct variables
        rule(A("s", X, Y), [[True, A("e", Z, Z)], [True, A("e", X, Y)]]),
        rule(A("r"), [[True, A("t", Z, Z)], [True, A("t", X, Y)]]),
    ]
    return m


def f3_programs(maxk):
    menu = f3_rule_menu()
    fsets = f3_fact_sets()
    for k in range(1, maxk + 1):
        for idxs in itertools.combinations(range(len(menu)), k):
            rules_ = [menu[i] for i in idxs]
            for fi, fs in enumerate(fsets):
                clauses = fs + rules_
                if not _closed_clauses(clauses):
                    continue
                yield clauses, rules_


def decorate_fo(clauses, rules_, k=0):
    """queries: every derived predicate non-ground and with its first argument bound to c"""
    preds = []
    for cl in rules_:
        for _, h in cl["heads"]:
            sig = (h[0], len(h[1]))
            if sig not in preds:
                preds.append(sig)
    qs = []
    names = ["X", "Y"]
    for p, n in preds:
        qs.append([p, names[:n]])
        if n >= 1 and k % 2 == 0:
            qs.append([p, ["c"] + names[1:n]])
    yield {"clauses": clauses, "queries": qs, "evidence": []}
    # evidence on a fact / on a derived ground atom
    ev_atom = clauses[1]["heads"][0][1]
    yield {"clauses": clauses, "queries": qs, "evidence": [[ev_atom, True, EV_FORMS[k % 4]]]}
    p, n = preds[0]
    ga = [p, ["c", "d"][:n]]
    yield {"clauses": clauses, "queries": qs, "evidence": [[ga, k % 2 == 0, "pair" if k % 3 else "neg"]]}


def cycle_info(prog):
    """(has predicate-level cycle, has negative literal, has predicate-level cycle through negation)"""
    edges = {}
    hasneg = False
    for cl in prog["clauses"]:
        for _, h in cl["heads"]:
            d = edges.setdefault((h[0], len(h[1])), set())
            for l in cl["body"]:
                if l[0] == "builtin":
                    continue
                if not l[0]:
                    hasneg = True
                d.add(((l[1][0], len(l[1][1])), bool(l[0])))

    def reach(src):
        seen = set()
        st = [src]
        while st:
            u = st.pop()
            for v, _ in edges.get(u, ()):
                if v not in seen:
                    seen.add(v)
                    st.append(v)
        return seen

    cyc = False
    negcyc = False
    for h, deps in edges.items():
        for a, positive in deps:
            if h in reach(a) or a == h:
                cyc = True
                if not positive:
                    negcyc = True
    return cyc, hasneg, negcyc


# ---------------------------------------------------------------------------------------------
# FC: positive cycles over three derived atoms (every subset of the 6 possible edges)

FC_ATOMS = ["a", "x", "p"]
FC_FACTS = {"a": ("0.3", "e"), "x": ("0.6", "f"), "p": ("0.5", "h")}


def fc_programs(guarded=False):
    """derived atoms a, x, p; for every ordered pair (d, e) an edge d :- e that is absent, plain or
    (guarded=True) also 'd :- e, g' with a shared probabilistic fact g; every subset of the fact rules
    d :- fact_d.  Rules are listed per head: edges first, then the fact rule (as a user would write
    a transitive-closure style program)."""
    pairs = [(d, e) for d in FC_ATOMS for e in FC_ATOMS if d != e]
    kinds = (0, 1, 2) if guarded else (0, 1)
    for edge_kinds in itertools.product(kinds, repeat=len(pairs)):
        if guarded and 2 not in edge_kinds:
            continue  # plain programs are family FC3
        if sum(1 for k in edge_kinds if k) < 2:
            continue
        for fact_mask in range(1, 8):
            clauses = []
            used_facts = []
            for i, d in enumerate(FC_ATOMS):
                for (dd, e), k in zip(pairs, edge_kinds):
                    if dd != d or not k:
                        continue
                    body = [[True, A(e)]]
                    if k == 2:
                        body.append([True, A("g")])
                    clauses.append(rule(A(d), body))
                if fact_mask & (1 << i):
                    pr, f = FC_FACTS[d]
                    clauses.append(rule(A(d), [[True, A(f)]]))
                    used_facts.append(fact(pr, A(f)))
            heads = {c["heads"][0][1][0] for c in clauses}
            if not all(l[1][0] in heads or l[1][0] in ("e", "f", "h", "g") for c in clauses for l in c["body"]):
                continue
            if guarded:
                used_facts.append(fact("0.2", A("g")))
            yield used_facts + clauses, sorted(heads, key=FC_ATOMS.index)


# ---------------------------------------------------------------------------------------------
# FT: derived atoms that are true (or false) in every world without being simplified away

def ft_programs():
    """t is defined by 2-3 rules over literals of the facts a, b (all choices of bodies with one or two
    literals); s :- \\+t.  Includes tautologies such as t :- a,b. t :- \\+a. t :- \\+b. whose node is forced
    true in every model of the CNF although no step of the pipeline simplifies it syntactically."""
    lits = [("a", True), ("a", False), ("b", True), ("b", False)]
    bodies = [(l,) for l in lits] + [(l1, l2) for l1 in lits for l2 in lits if l1[0] < l2[0]]
    for k in (2, 3):
        for bs in itertools.combinations(bodies, k):
            clauses = [fact("0.3", A("a")), fact("0.4", A("b"))]
            for b in bs:
                clauses.append(rule(A("t"), [[pos, A(x)] for x, pos in b]))
            clauses.append(rule(A("s"), [[False, A("t")]]))
            yield clauses


# ---------------------------------------------------------------------------------------------
# FLEX: probabilities that are variables bound by the body (one clause, several groundings with
# different probabilities).  The surface text uses the flexible form; the AST given to the reference
# lists the groundings with their constant probabilities.

def flex_programs():
    progs = []

    def P(text, clauses, queries, evidence=()):
        progs.append({"text": text, "clauses": clauses, "queries": queries, "evidence": [list(e) for e in evidence]})

    w = [fact(None, A("w", "a")), fact(None, A("w", "b"))]
    g = [rule(A("g", "a"), [[True, A("w", "a")]], p="0.2"), rule(A("g", "b"), [[True, A("w", "b")]], p="0.7")]
    base = "P::g(X) :- w(X,P). w(a,0.2). w(b,0.7). "
    # the reference sees w/1 (the probability argument is not part of the logical content)
    P(base + "query(g(a)). query(g(b)).", w + g, [A("g", "a"), A("g", "b")])
    P(base + "q :- g(a), g(b). query(q). query(g(a)). query(g(b)).",
      w + g + [rule(A("q"), [[True, A("g", "a")], [True, A("g", "b")]])], [A("q"), A("g", "a"), A("g", "b")])
    P(base + "q :- g(a). q :- g(b). query(g(b)). query(q). evidence(g(a),false).",
      w + g + [rule(A("q"), [[True, A("g", "a")]]), rule(A("q"), [[True, A("g", "b")]])],
      [A("g", "b"), A("q")], [(A("g", "a"), False, "pair")])
    P(base + "q :- g(a). q :- g(b). query(g(a)). query(g(b)). evidence(q,true).",
      w + g + [rule(A("q"), [[True, A("g", "a")]]), rule(A("q"), [[True, A("g", "b")]])],
      [A("g", "a"), A("g", "b")], [(A("q"), True, "pair")])
    P(base + "0.5::c. q :- g(X), c. query(q). query(g(a)). query(g(b)). evidence(g(b),true).",
      w + g + [fact("0.5", A("c")), rule(A("q"), [[True, A("g", "X")], [True, A("c")]])],
      [A("q"), A("g", "a"), A("g", "b")], [(A("g", "b"), True, "pair")])
    # flexible annotated disjunction
    h = [ad([("0.2", A("h", "a", "u")), ("0.3", A("h", "a", "v"))], [[True, A("w", "a")]]),
         ad([("0.6", A("h", "b", "u")), ("0.1", A("h", "b", "v"))], [[True, A("w", "b")]])]
    hb = "P::h(X,u); Q::h(X,v) :- w(X,P,Q). w(a,0.2,0.3). w(b,0.6,0.1). "
    P(hb + "query(h(a,u)). query(h(a,v)). query(h(b,u)). query(h(b,v)).", w + h,
      [A("h", "a", "u"), A("h", "a", "v"), A("h", "b", "u"), A("h", "b", "v")])
    P(hb + "q :- h(X,u). query(q). query(h(a,v)). query(h(b,u)). evidence(h(a,u),false).",
      w + h + [rule(A("q"), [[True, A("h", "X", "u")]])], [A("q"), A("h", "a", "v"), A("h", "b", "u")],
      [(A("h", "a", "u"), False, "pair")])
    # negation of a non-ground goal (not exists): the reference sees an auxiliary projection
    nn = [fact("0.3", A("n", "c")), fact("0.6", A("n", "d"))]
    P("0.3::n(c). 0.6::n(d). q :- \\+n(X). query(q).",
      nn + [rule(A("aux"), [[True, A("n", "X")]]), rule(A("q"), [[False, A("aux")]])], [A("q")])
    P("0.3::n(c). 0.6::n(d). 0.5::m(c). 0.5::m(d). p(X) :- n(X), m(X). q :- \\+p(X). r :- q. r :- n(c). query(q). query(r).",
      nn + [fact("0.5", A("m", "c")), fact("0.5", A("m", "d")), rule(A("p", "X"), [[True, A("n", "X")], [True, A("m", "X")]]),
            rule(A("aux"), [[True, A("p", "X")]]), rule(A("q"), [[False, A("aux")]]), rule(A("r"), [[True, A("q")]]),
            rule(A("r"), [[True, A("n", "c")]])], [A("q"), A("r")])
    P("0.3::n(c). 0.6::n(d). e(c,d). e(d,c). q(X) :- e(X,Y), \\+n(Z). query(q(c)). evidence(n(c),false).",
      nn + [fact(None, A("e", "c", "d")), fact(None, A("e", "d", "c")), rule(A("aux"), [[True, A("n", "Z")]]),
            rule(A("q", "X"), [[True, A("e", "X", "Y")], [False, A("aux")]])], [A("q", "c")], [(A("n", "c"), False, "pair")])
    return progs


# ---------------------------------------------------------------------------------------------
# FR: first-order recursion over two unary predicates (self loops and mutual recursion in every
# clause order)

def fr_programs():
    X = "X"
    bodies = {"n": [[True, A("n", X)]], "p": [[True, A("p", X)]], "q": [[True, A("q", X)]]}
    names = ["n", "p", "q"]
    orders = []
    for k in (1, 2, 3):
        for sel in itertools.permutations(names, k):
            orders.append(sel)
    facts = [fact("0.3", A("n", "c")), fact(None, A("n", "d"))]
    for ps in orders:
        for qs in orders:
            # every predicate must be able to terminate somewhere: skip programs without n(X) at all
            if "n" not in ps and "n" not in qs:
                continue
            clauses = list(facts)
            clauses += [rule(A("p", X), bodies[b]) for b in ps]
            clauses += [rule(A("q", X), bodies[b]) for b in qs]
            yield clauses
