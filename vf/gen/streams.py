"""Deterministic program streams per family and tier; a shard is a residue class of the stream
index.  Every consumer enumerates the same stream, so 'program #i of F1.2' is a stable name."""
from . import programs as G


def stream(family, tier):
    """yields prog dicts (with 'clauses', 'queries', 'evidence') for a family name"""
    k = 0
    if family == "F1.1":
        for cl, heads in G.f1_programs(1):
            for p in G.decorate(cl, heads, k=k):
                yield p
            k += 1
    elif family == "F1.1dup":
        for cl, heads in G.f1_programs(1, dup_facts=True):
            for p in list(G.decorate(cl, heads, k=k))[:2]:
                yield p
            # the rule itself written twice, and with a repeated body literal
            cl2 = cl + [cl[-1]]
            yield {"clauses": cl2, "queries": [G.A(h) for h in heads], "evidence": []}
            r = cl[-1]
            if len(r["body"]) == 1:
                cl3 = cl[:-1] + [dict(r, body=r["body"] * 2)]
                yield {"clauses": cl3, "queries": [G.A(h) for h in heads], "evidence": []}
            k += 1
    elif family == "F1.2":
        for cl, heads in G.f1_programs(2):
            decs = list(G.decorate(cl, heads, k=k))
            if tier == "quick":
                yield decs[0]
                yield decs[1 + k % 3]
            else:
                for p in decs:
                    yield p
            k += 1
    elif family in ("F1.1one", "F1.2one"):
        # facts with boundary probabilities: a is certain (1.0), b is 0.5; F1.2one adds no evidence
        n = 1 if family == "F1.1one" else 2
        for fs in ([("1.0", "a"), ("0.5", "b")], [("0.0", "a"), ("0.5", "b")]):
            for cl, heads in G.f1_programs(n, facts=fs):
                decs = list(G.decorate(cl, heads, facts=("b",), k=k))
                yield decs[0]
                if family == "F1.1one":
                    yield decs[1]
                k += 1
    elif family == "F1.2q":  # F1.2 without evidence decorations
        for cl, heads in G.f1_programs(2):
            yield next(iter(G.decorate(cl, heads, k=k)))
            k += 1
    elif family == "F1.3s":
        for cl, heads in G.f1_programs(3, bodies="single"):
            decs = list(G.decorate(cl, heads, k=k))
            yield decs[0]
            if tier != "quick":
                yield decs[1 + k % 3]
            k += 1
    elif family == "F1.4s":  # four rules with single-literal bodies, queries only
        for cl, heads in G.f1_programs(4, bodies="single"):
            yield next(iter(G.decorate(cl, heads, k=k)))
            k += 1
    elif family == "F1.3":
        for cl, heads in G.f1_programs(3):
            decs = list(G.decorate(cl, heads, k=k))
            yield decs[0] if k % 2 == 0 else decs[1 + k % 3]
            k += 1
    elif family == "FLEX":
        for p in G.flex_programs():
            yield p
    elif family == "FR":
        for cl in G.fr_programs():
            yield {"clauses": cl, "queries": [G.A("q", "X"), G.A("p", "X")], "evidence": []}
            if tier != "quick" or k % 2 == 0:
                yield {"clauses": cl, "queries": [G.A("p", "X"), G.A("q", "c")], "evidence": []}
            k += 1
    elif family == "F1.3e":
        # F1.3s with TWO evidence statements: the last derived head is observed true, fact b false
        for cl, heads in G.f1_programs(3, bodies="single"):
            yield {"clauses": cl, "queries": [G.A(heads[0])] + ([G.A("a")] if k % 2 else []),
                   "evidence": [[G.A(heads[-1]), True, "plain"], [G.A("b"), False, "pair"]]}
            k += 1
    elif family == "FDUP":
        # probabilistic rules / ADs that share their body AND their parameters: every one of them is an
        # independent choice of its own (textually equal clauses are not one clause)
        A, rule, ad, fact = G.A, G.rule, G.ad, G.fact
        bodies = [[[True, A("a")]], [[True, A("b")]], [[True, A("a")], [True, A("b")]], [[False, A("a")]]]
        base = [fact("0.3", A("a")), fact("0.6", A("b"))]
        for b in bodies:
            forms = [
                ([rule(A("p"), b, p="0.5"), rule(A("p"), b, p="0.5")], ["p"]),
                ([rule(A("p"), b, p="0.5"), rule(A("q"), b, p="0.5"), rule(A("r"), [[True, A("p")], [True, A("q")]])], ["p", "q", "r"]),
                ([rule(A("p"), b, p="0.5"), rule(A("q"), b, p="0.5"), rule(A("r"), [[True, A("p")], [False, A("q")]])], ["r"]),
                ([ad([("0.5", A("p")), ("0.25", A("q"))], b), ad([("0.5", A("p")), ("0.25", A("q"))], b)], ["p", "q"]),
                ([ad([("0.5", A("p")), ("0.25", A("q"))], b), ad([("0.5", A("r")), ("0.25", A("s"))], b),
                  rule(A("t"), [[True, A("p")], [True, A("r")]])], ["t", "q", "s"]),
                ([rule(A("p"), b, p="0.5"), rule(A("q"), b, p="0.4"), rule(A("r"), [[True, A("p")], [True, A("q")]])], ["r"]),
            ]
            for cl, heads in forms:
                yield {"clauses": base + cl, "queries": [A(h) for h in heads], "evidence": []}
                yield {"clauses": base + cl, "queries": [A(heads[0])], "evidence": [[A("a"), k % 2 == 0, "pair"]]}
                k += 1
    elif family == "FSQ":
        # one non-ground goal whose answers are bare (possibly negated) choice literals, several of them heads
        # of the same annotated disjunction
        A, rule, ad, fact = G.A, G.rule, G.ad, G.fact
        x, y, z = A("x"), A("y"), A("z")
        progs = [
            [ad([("0.3", x), ("0.4", y)]), rule(A("e", "a"), [[False, x]]), rule(A("e", "b"), [[True, y]])],
            [ad([("0.3", x), ("0.4", y)]), rule(A("e", "a"), [[True, x]]), rule(A("e", "b"), [[False, y]])],
            [fact("0.3", x), fact("0.4", y), rule(A("e", "a"), [[False, x]]), rule(A("e", "b"), [[True, y]])],
            [ad([("0.3", x), ("0.4", y), ("0.2", z)]), rule(A("e", "a"), [[False, x]]), rule(A("e", "b"), [[False, y]]),
             rule(A("e", "c"), [[True, z]])],
            [ad([("0.3", A("c", "a")), ("0.4", A("c", "b"))]), fact(None, A("d", "a")), fact(None, A("d", "b")),
             rule(A("e", "X"), [[True, A("d", "X")], [False, A("c", "X")]])],
            [ad([("0.5", x), ("0.5", y)]), rule(A("e", "a"), [[False, x]]), rule(A("e", "b"), [[False, y]])],
        ]
        for cl in progs:
            yield {"clauses": cl, "queries": [A("e", "X")], "evidence": []}
            yield {"clauses": cl, "queries": [A("e", "X"), A("e", "a")], "evidence": []}
    elif family == "FTWIN":
        # a goal on a positive cycle and a later, acyclic goal whose disjunction starts with the same children
        A, rule, fact = G.A, G.rule, G.fact
        facts = [fact("0.3", A("x")), fact("0.4", A("y")), fact("0.5", A("z"))]
        one = lambda h, b: rule(A(h), [[True, A(b)]])
        shapes = [
            [one("n", "x"), one("n", "y"), one("n", "m"), one("m", "n"), one("m", "z"), one("k", "x"), one("k", "y")],
            [one("n", "x"), one("n", "m"), one("m", "n"), one("m", "z"), one("n", "y"), one("k", "x"), one("k", "y")],
            [one("n", "x"), one("n", "y"), one("n", "n"), one("n", "z"), one("k", "x"), one("k", "y")],
            [one("k", "x"), one("k", "y"), one("n", "x"), one("n", "y"), one("n", "m"), one("m", "n"), one("m", "z")],
            [rule(A("n"), [[True, A("x")], [True, A("y")]]), one("n", "m"), one("m", "n"), one("m", "z"),
             rule(A("k"), [[True, A("x")], [True, A("y")]]), one("k", "z")],
        ]
        for cl in shapes:
            defined = {c["heads"][0][1][0] for c in cl}
            for qs in (["n", "k"], ["k", "n"], ["m", "k"], ["k"]):
                if not set(qs) <= defined:
                    continue
                yield {"clauses": facts + cl, "queries": [A(q) for q in qs], "evidence": []}
            yield {"clauses": facts + cl, "queries": [A("k")], "evidence": [[A("n"), True, "pair"]]}
    elif family == "FTC3":
        # transitive closure over every graph with >= 3 of the 6 directed edges between three nodes (each edge
        # 0.5), left-recursion-free form, asked from node a with a free second argument, and as a whole
        import itertools as _it

        A, rule, fact = G.A, G.rule, G.fact
        nodes = ["a", "b", "c"]
        pairs = [(x, y) for x in nodes for y in nodes if x != y]
        tc = [rule(A("p", "X", "Y"), [[True, A("e", "X", "Y")]]),
              rule(A("p", "X", "Y"), [[True, A("e", "X", "Z")], [True, A("p", "Z", "Y")]])]
        for n in (3, 4, 5, 6):
            for es in _it.combinations(pairs, n):
                cl = [fact("0.5", A("e", x, y)) for x, y in es] + tc
                yield {"clauses": cl, "queries": [A("p", "a", "Y")], "evidence": []}
                if tier != "quick" or k % 4 == 0:
                    yield {"clauses": cl, "queries": [A("p", "X", "Y")], "evidence": []}
                k += 1
    elif family == "FT":
        for cl in G.ft_programs():
            qs = [G.A("s"), G.A("t")]
            yield {"clauses": cl, "queries": qs, "evidence": []}
            yield {"clauses": cl, "queries": [G.A("s")], "evidence": []}
            yield {"clauses": cl, "queries": [G.A("a")], "evidence": [[G.A("t"), k % 2 == 0, "pair"]]}
            k += 1
    elif family == "FC3m":  # FC3 written with body disjunctions
        for p in stream("FC3", tier):
            yield dict(p, merge_or=True)
    elif family in ("FC3", "FC3g"):
        # query orders: all permutations of the derived atoms (thorough) / two of them (quick),
        # plus one conjunction query
        import itertools as _it

        for cl, heads in G.fc_programs(guarded=(family == "FC3g")):
            perms = list(_it.permutations(heads))
            if tier == "quick":
                perms = [perms[0], perms[-1]]
            for perm in perms:
                yield {"clauses": cl, "queries": [G.A(h) for h in perm], "evidence": []}
            if len(heads) >= 2:
                cl2 = cl + [G.rule(G.A("q"), [[True, G.A(heads[0])], [True, G.A(heads[-1])]])]
                yield {"clauses": cl2, "queries": [G.A("q")], "evidence": []}
                yield {"clauses": cl, "queries": [G.A(h) for h in heads], "evidence": [[G.A(heads[-1]), True, "pair"]]}
            k += 1
    elif family.startswith("F2."):
        n = int(family[3:])
        for cl in G.f2_programs(n):
            if len(cl) != n:
                continue
            for p in G.decorate_generic(cl, k=k):
                yield p
            k += 1
    elif family.startswith("F3."):
        n = int(family[3:])
        for cl, rules_ in G.f3_programs(n):
            if len(rules_) != n:
                continue
            for p in G.decorate_fo(cl, rules_, k=k):
                yield p
            k += 1
    else:
        raise ValueError(family)


def shard_stream(family, tier, mod, rem, stride=1, offset=0):
    """programs of the family whose index i satisfies i % stride == offset (thinning, reported as
    a cap by the caller when stride > 1) and (i // stride) % mod == rem"""
    if "/" in family:
        # "F1.3/64": the fixed slice of a very large family made of every 64th program (a deterministic
        # stratum; the index reported is the index in the full family)
        family, k = family.split("/")
        stride, offset = stride * int(k), offset * int(k)
    for i, p in enumerate(stream(family, tier)):
        if i % stride != offset:
            continue
        if (i // stride) % mod == rem:
            yield i, p
