"""Deterministic program streams per family and tier; a shard is a residue class of the stream
index.  Every consumer enumerates the same stream, so 'program #i of F1.2' is a stable name."""
from . import programs as G


def stream(family, tier):
    """yields prog dicts (with 'clauses', 'queries', 'evidence') for a family name"""
    k = 0
    if family == "F1.1":
        for cl, heads in G.f1_programs(1):
            for p in G.decorate(cl, heads, k=k):
                yield p
            k += 1
    elif family == "F1.1dup":
        for cl, heads in G.f1_programs(1, dup_facts=True):
            for p in list(G.decorate(cl, heads, k=k))[:2]:
                yield p
            # the rule itself written twice, and with a repeated body literal
            cl2 = cl + [cl[-1]]
            yield {"clauses": cl2, "queries": [G.A(h) for h in heads], "evidence": []}
            r = cl[-1]
            if len(r["body"]) == 1:
                cl3 = cl[:-1] + [dict(r, body=r["body"] * 2)]
                yield {"clauses": cl3, "queries": [G.A(h) for h in heads], "evidence": []}
            k += 1
    elif family == "F1.2":
        for cl, heads in G.f1_programs(2):
            decs = list(G.decorate(cl, heads, k=k))
            if tier == "quick":
                yield decs[0]
                yield decs[1 + k % 3]
            else:
                for p in decs:
                    yield p
            k += 1
    elif family in ("F1.1one", "F1.2one"):
        # facts with boundary probabilities: a is certain (1.0), b is 0.5; F1.2one adds no evidence
        n = 1 if family == "F1.1one" else 2
        for fs in ([("1.0", "a"), ("0.5", "b")], [("0.0", "a"), ("0.5", "b")]):
            for cl, heads in G.f1_programs(n, facts=fs):
                decs = list(G.decorate(cl, heads, facts=("b",), k=k))
                yield decs[0]
                if family == "F1.1one":
                    yield decs[1]
                k += 1
    elif family == "F1.2q":  # F1.2 without evidence decorations
        for cl, heads in G.f1_programs(2):
            yield next(iter(G.decorate(cl, heads, k=k)))
            k += 1
    elif family == "F1.3s":
        for cl, heads in G.f1_programs(3, bodies="single"):
            decs = list(G.decorate(cl, heads, k=k))
            yield decs[0]
            if tier != "quick":
                yield decs[1 + k % 3]
            k += 1
    elif family == "F1.4s":  # four rules with single-literal bodies, queries only
        for cl, heads in G.f1_programs(4, bodies="single"):
            yield next(iter(G.decorate(cl, heads, k=k)))
            k += 1
    elif family == "F1.3":
        for cl, heads in G.f1_programs(3):
            decs = list(G.decorate(cl, heads, k=k))
            yield decs[0] if k % 2 == 0 else decs[1 + k % 3]
            k += 1
    elif family == "FLEX":
        for p in G.flex_programs():
            yield p
    elif family == "FR":
        for cl in G.fr_programs():
            yield {"clauses": cl, "queries": [G.A("q", "X"), G.A("p", "X")], "evidence": []}
            if tier != "quick" or k % 2 == 0:
                yield {"clauses": cl, "queries": [G.A("p", "X"), G.A("q", "c")], "evidence": []}
            k += 1
    elif family == "F1.3e":
        # F1.3s with TWO evidence statements: the last derived head is observed true, fact b false
        for cl, heads in G.f1_programs(3, bodies="single"):
            yield {"clauses": cl, "queries": [G.A(heads[0])] + ([G.A("a")] if k % 2 else []),
                   "evidence": [[G.A(heads[-1]), True, "plain"], [G.A("b"), False, "pair"]]}
            k += 1
    elif family == "FT":
        for cl in G.ft_programs():
            qs = [G.A("s"), G.A("t")]
            yield {"clauses": cl, "queries": qs, "evidence": []}
            yield {"clauses": cl, "queries": [G.A("s")], "evidence": []}
            yield {"clauses": cl, "queries": [G.A("a")], "evidence": [[G.A("t"), k % 2 == 0, "pair"]]}
            k += 1
    elif family == "FC3m":  # FC3 written with body disjunctions
        for p in stream("FC3", tier):
            yield dict(p, merge_or=True)
    elif family in ("FC3", "FC3g"):
        # query orders: all permutations of the derived atoms (thorough) / two of them (quick),
        # plus one conjunction query
        import itertools as _it

        for cl, heads in G.fc_programs(guarded=(family == "FC3g")):
            perms = list(_it.permutations(heads))
            if tier == "quick":
                perms = [perms[0], perms[-1]]
            for perm in perms:
                yield {"clauses": cl, "queries": [G.A(h) for h in perm], "evidence": []}
            if len(heads) >= 2:
                cl2 = cl + [G.rule(G.A("q"), [[True, G.A(heads[0])], [True, G.A(heads[-1])]])]
                yield {"clauses": cl2, "queries": [G.A("q")], "evidence": []}
                yield {"clauses": cl, "queries": [G.A(h) for h in heads], "evidence": [[G.A(heads[-1]), True, "pair"]]}
            k += 1
    elif family.startswith("F2."):
        n = int(family[3:])
        for cl in G.f2_programs(n):
            if len(cl) != n:
                continue
            for p in G.decorate_generic(cl, k=k):
                yield p
            k += 1
    elif family.startswith("F3."):
        n = int(family[3:])
        for cl, rules_ in G.f3_programs(n):
            if len(rules_) != n:
                continue
            for p in G.decorate_fo(cl, rules_, k=k):
                yield p
            k += 1
    else:
        raise ValueError(family)


def shard_stream(family, tier, mod, rem, stride=1, offset=0):
    """programs of the family whose index i satisfies i % stride == offset (thinning, reported as
    a cap by the caller when stride > 1) and (i // stride) % mod == rem"""
    for i, p in enumerate(stream(family, tier)):
        if i % stride != offset:
            continue
        if (i // stride) % mod == rem:
            yield i, p
