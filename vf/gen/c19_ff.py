"""Grammar FF for C19: base programs (probabilistic / deterministic facts, annotated disjunctions, rules) and
wrappers that collect a goal with findall/3 or all/3.  Terms as in vf/ref/c19_sld.py.

A clause is {"heads": [[prob_str | None, term], ...], "body": term | None}.

Design constraint (attribution, DESIGN 2.8): the clauses of one predicate have either only ground heads (facts:
f, g, r) or only variable heads (rules: h, k), so that the clause-index order defect owned by C13 cannot
influence the result order.
"""
import itertools

from ..ref.c19_sld import is_compound, is_var, show


def A(f, *args):
    return [f] + list(args)


def conj(*gs):
    t = gs[-1]
    for g in reversed(gs[:-1]):
        t = [",", g, t]
    return t


def neg(g):
    return ["\\+", g]


def fact(p, term):
    return {"heads": [[p, term]], "body": None}


def ad(*pairs):
    return {"heads": [[p, t] for p, t in pairs], "body": None}


def rule(head, body, p=None):
    return {"heads": [[p, head]], "body": body}


X, Y, Z, L, N, H, M = "X", "Y", "Z", "L", "N", "H", "M"

FACTS = [
    fact("0.3", A("f", "a")),                                   # 0
    fact("0.6", A("f", "b")),                                   # 1
    fact("0.5", A("f", "a")),                                   # 2  second occurrence of f(a)
    fact(None, A("f", "b")),                                    # 3  deterministic
    fact("0.4", A("g", "a")),                                   # 4
    fact("0.7", A("g", "b")),                                   # 5
    fact(None, A("g", "a")),                                    # 6
    ad(("0.3", A("g", "a")), ("0.5", A("g", "b"))),             # 7  AD with a null choice
    ad(("0.2", A("f", "b")), ("0.8", A("f", "a"))),             # 8  complete AD, b before a
    fact("0.3", A("r", "a", "b")),                              # 9
    fact("0.5", A("r", "b", "a")),                              # 10
    fact(None, A("r", "a", "a")),                               # 11
    fact("0.2", A("r", "a", "b")),                              # 12 second occurrence of r(a,b)
]

RULES = [
    rule(A("h", X), A("f", X)),                                 # 0
    rule(A("h", X), A("g", X)),                                 # 1
    rule(A("h", X), conj(A("f", X), neg(A("g", X)))),           # 2
    rule(A("h", X), conj(A("f", X), A("g", X))),                # 3
    rule(A("h", X), conj(A("r", X, Y), A("f", Y))),             # 4
    rule(A("h", X), A("r", X, Y)),                              # 5
    rule(A("h", X), A("f", X), p="0.5"),                        # 6  probabilistic rule: one choice per grounding
    rule(A("k", X), conj(A("g", X), neg(A("h", X)))),           # 7  negation of a derived predicate
    rule(A("k", X), A("h", X)),                                 # 8  chain
    rule(A("h", X), conj(A("g", X), neg(A("f", X)))),           # 9
]

BASE_PREDS = {("f", 1), ("g", 1), ("r", 2), ("h", 1), ("k", 1)}

# goals: (term, has_Y)
GOALS = [
    A("f", X),                                  # 0
    A("g", X),                                  # 1
    A("h", X),                                  # 2
    A("k", X),                                  # 3
    A("r", X, Y),                               # 4
    conj(A("f", X), A("g", X)),                 # 5
    conj(A("f", X), neg(A("g", X))),            # 6
    conj(A("g", X), A("f", X)),                 # 7
    [";", A("f", X), A("g", X)],                # 8
    conj(A("r", X, Y), A("f", Y)),              # 9
    conj(A("f", X), A("f", Y)),                 # 10
    conj(A("h", X), neg(A("g", X))),            # 11
    A("r", X, "_"),                             # 12
    conj(A("f", X), A("h", X)),                 # 13
    conj(A("g", X), neg(A("h", X))),            # 14
]


QUICK_GOALS = (0, 2, 4, 5, 8)


def templates_for(goal):
    vs = goal_vars(goal)
    ts = [X, "c", A("t", X, Z)]
    if Y in vs:
        ts += [["-", X, Y], Y]
    return ts


def goal_vars(t, acc=None):
    acc = [] if acc is None else acc
    if is_var(t):
        if t != "_" and t not in acc:
            acc.append(t)
    elif is_compound(t):
        for a in t[1:]:
            goal_vars(a, acc)
    return acc


def called(t, acc=None):
    """base predicates called by a body term"""
    acc = set() if acc is None else acc
    if is_compound(t):
        if (t[0], len(t) - 1) in BASE_PREDS:
            acc.add((t[0], len(t) - 1))
        else:
            for a in t[1:]:
                called(a, acc)
    return acc


def wrappers(tier):
    """-> list of (name, [clauses], query term).  Names are stable identifiers (evidence only)."""
    out = []
    q0, qL, qN, qH = "q", A("q", L), A("q", N), A("q", H)
    nonempty = [".", "_", "_"]
    single = [".", "_", "[]"]
    full = tier == "thorough"
    for gi, g in enumerate(GOALS):
        for t in templates_for(g):
            tn = "g%d:%s" % (gi, show(t))
            freevar = is_compound(t) and t[0] == "t"
            simple = t == X
            if not freevar or gi == 0:
                out.append(("findall:" + tn, [rule(qL, A("findall", t, g, L))], qL))
                out.append(("all:" + tn, [rule(qL, A("all", t, g, L))], qL))
            if (simple and gi in QUICK_GOALS) or (freevar and gi == 0) or full:
                out.append(("findall-length:" + tn, [rule(qN, conj(A("findall", t, g, L), A("length", L, N)))], qN))
            if (simple and gi in QUICK_GOALS) or (full and not freevar):
                out.append(("findall-nonempty:" + tn, [rule(q0, A("findall", t, g, nonempty))], q0))
                out.append(("findall-head:" + tn, [rule(qH, A("findall", t, g, [".", H, "_"]))], qH))
                out.append(("all-length:" + tn, [rule(qN, conj(A("all", t, g, L), A("length", L, N)))], qN))
            if simple and (full or gi in (0, 2, 5)):
                out.append(("findall-single:" + tn, [rule(q0, A("findall", t, g, single))], q0))
                out.append(("not-findall-empty:" + tn, [rule(q0, neg(A("findall", t, g, "[]")))], q0))
                out.append(("findall-query-pattern:" + tn, [rule(qL, A("findall", t, g, L))], A("q", [".", "a", "_"])))
                out.append(("all-nonempty:" + tn, [rule(q0, A("all", t, g, nonempty))], q0))
                out.append(("findall-const-list:" + tn, [rule(q0, A("findall", t, g, [".", "a", "[]"]))], q0))
    qYL = A("q", Y, L)
    out.append(("ctx:f-g-neq", [rule(qYL, conj(A("f", Y), A("findall", X, conj(A("g", X), ["\\=", X, Y]), L)))], qYL))
    out.append(("ctx:g-r", [rule(qYL, conj(A("g", Y), A("findall", X, A("r", X, Y), L)))], qYL))
    out.append(("ctx:f-all-r", [rule(qYL, conj(A("f", Y), A("all", X, A("r", Y, X), L)))], qYL))
    out.append(("ctx:h-f", [rule(qYL, conj(A("h", Y), A("findall", X, A("f", X), L)))], qYL))
    qLM = A("q", L, M)
    out.append(("two:f-g", [rule(qLM, conj(A("findall", X, A("f", X), L), A("findall", X, A("g", X), M)))], qLM))
    out.append(("two:f-f", [rule(qLM, conj(A("findall", X, A("f", X), L), A("all", X, A("f", X), M)))], qLM))
    out.append(("two:h-g", [rule(qLM, conj(A("findall", X, A("h", X), L), A("findall", X, A("g", X), M)))], qLM))
    out.append(("nested:f-r", [rule(qL, A("findall", M, conj(A("f", Y), A("findall", X, A("r", X, Y), M)), L))], qL))
    out.append(("aux:findall-in-rule", [rule(A("s", L), A("findall", X, A("f", X), L)),
                                         rule(qN, conj(A("s", L), A("length", L, N)))], qN))
    return out


def clause_text(cl):
    heads = "; ".join(("%s::%s" % (p, show(h, True)) if p is not None else show(h, True)) for p, h in cl["heads"])
    if cl["body"] is None:
        return heads + "."
    return "%s :- %s." % (heads, show(cl["body"], True))


def program_text(clauses, query):
    return "\n".join([clause_text(c) for c in clauses] + ["query(%s)." % show(query, True)])


def head_preds(cls):
    s = set()
    for cl in cls:
        for _, h in cl["heads"]:
            s.add((h[0], len(h) - 1))
    return s


def closed_and_relevant(base, wrapper_clauses):
    """every called base predicate is defined, and every base clause is reachable from the wrapper"""
    defined = head_preds(base)
    need = set()
    for cl in wrapper_clauses:
        need |= called(cl["body"])
    reach = set()
    todo = list(need)
    while todo:
        p = todo.pop()
        if p in reach:
            continue
        reach.add(p)
        for cl in base:
            if p in head_preds([cl]) and cl["body"] is not None:
                todo.extend(called(cl["body"]))
    if not reach <= defined:
        return False
    return defined <= reach


def bases(tier):
    """deterministic stream of (fact indices, rule indices, wrapper-set name)"""
    for nf in (1, 2, 3):
        for fs in itertools.combinations(range(len(FACTS)), nf):
            for nr in (0, 1, 2):
                if tier == "quick":
                    if nr == 2 or (nf == 3 and nr == 1):
                        continue
                    wset = "quick"
                else:
                    if nf == 3 and nr == 2:
                        continue
                    wset = "quick" if nr == 2 else "thorough"
                for rs in itertools.combinations(range(len(RULES)), nr):
                    cls = [FACTS[i] for i in fs] + [RULES[i] for i in rs]
                    # rule bodies must be closed
                    defined = head_preds(cls)
                    if all(called(RULES[i]["body"]) <= defined for i in rs):
                        yield fs, rs, wset


def base_clauses(fs, rs):
    return [FACTS[i] for i in fs] + [RULES[i] for i in rs]
