"""C17 generators: token / character strings, fully parenthesised operator expressions, constructor-built
terms.  Everything is enumerated in a fixed order; nothing is sampled.

Expression ASTs are JSON:   ["leaf", text] | ["bin", op, form, l, r] | ["un", op, form, x]
  binary forms:  "p"  (l) op (r)       "s"  l op r        (bare operands: only printed for leaf operands)
  unary forms:   "p"  op (x)           "f"  op(x)         "s"  op x
"""
import itertools

# ------------------------------------------------------------------------------------------------
# (a) strings

TOKENS = ["a", "X", "_", "1", "0.5", "'q r'", '"s"', "(", ")", "[", "]", "|", ",", ".", " ", ":-", "::", ";",
          "\\+", "-", "+", "=", "is", "<-", "not", "%"]
assert len(TOKENS) == 26 and len(set(TOKENS)) == 26

PRINTABLE = [chr(i) for i in range(32, 127)]
# 37-symbol sub-alphabet for one more character than the full printable bound: one representative per tokenizer
# action of problog/parser.py (_token_act1..4, digits, upper, lower, whitespace, newline)
SUBCHARS = list("aX_1 .,()[]|'\"\\+-*/:;<=>~@^#&%!?$`{}") + ["\n"]


# aggregate syntax (sum<X>) lives on '<' Variable '>' which the 26 tokens do not contain: a fourth small family
AGG_TOKENS = ["a", "X", "<", ">", ".", "(", ")", ",", " :- "]


def strings_over(alphabet, length, prefix=()):
    """all strings of exactly `length` symbols that start with `prefix` (a tuple of symbols)"""
    rest = length - len(prefix)
    if rest < 0:
        return
    head = "".join(prefix)
    if rest == 0:
        yield head
        return
    for tup in itertools.product(alphabet, repeat=rest):
        yield head + "".join(tup)


# ------------------------------------------------------------------------------------------------
# (b) operator expressions

# every binary operator the tokenizer of problog/parser.py knows (source spelling)
BINOPS = ["+", "-", "*", "/", "//", "mod", "rem", "div", "rdiv", "**", "^", "<<", ">>", "/\\", "\\/", "xor", "#",
          "><", "=", "\\=", "==", "\\==", "=@=", "\\=@=", "<", ">", "=<", ">=", "=:=", "=\\=", "@<", "@>", "@=<",
          "@>=", "is", "as", "=..", "=>", "~==", "~=/=", "~<", "~=<", "~>=", "~>", "~=", ",", ";", "->", "*->",
          ":", "|", "&", "::", "~", ":-", "<-", "-->"]
# every prefix operator
UNOPS = ["-", "+", "\\", "\\\\", "\\+", "not", "~", "~=", ":-"]

# operand kinds, simplest first (the order is the shrink order)
LEAVES = ["a", "X", "1", "-1", "2.5", "-2.5", "_", "[]", "[a,X]", "[a|T]", '"s"', "'A b'", "f(a)", "f(a,-1)",
          "0.5::a", "1.0e20", "0x1F", "!"]
LEAVES_INNER = ["a", "X", "-1", "2.5", "[a|T]", "f(a)"]  # operands of the inner expression at depth 2

# contexts; an argument / operand position that needs its own parentheses for high-priority operators is written
# with them ("q((%s))": the parser rejects "q((a);(b))" but accepts "q(((a);(b)))")
CONTEXTS = ["%s.", "q((%s)).", "q(%s).", "q :- %s.", "q :- (%s).", "0.5::q(%s).", "q(a,(%s)).", "q([%s]).",
            "q([(%s)]).", "%s :- q.", "0.5::%s.", "0.5::a; 0.5::b :- %s.", "q :- \\+ (%s)."]
CONTEXTS_DEEP = ["%s.", "q((%s)).", "q :- (%s)."]


def is_alpha(op):
    return op[0].isalpha()


def render(e):
    k = e[0]
    if k == "leaf":
        return e[1]
    if k == "bin":
        _, op, form, l, r = e
        if form == "p" or l[0] != "leaf" or r[0] != "leaf":
            return "(%s) %s (%s)" % (render(l), op, render(r))
        return "%s %s %s" % (render(l), op, render(r))
    if k == "un":
        _, op, form, x = e
        if form == "f":
            return "%s(%s)" % (op, render(x))
        if form == "p" or x[0] != "leaf":
            return "%s (%s)" % (op, render(x))
        return "%s %s" % (op, render(x))
    raise ValueError(e)


def leaf(t):
    return ["leaf", t]


def depth1(leaves, binops=BINOPS, unops=UNOPS, forms=True):
    """every operator applied to every tuple of leaves, in both source forms"""
    for op in binops:
        for l in leaves:
            for r in leaves:
                yield ["bin", op, "p", leaf(l), leaf(r)]
                if forms:
                    yield ["bin", op, "s", leaf(l), leaf(r)]
    for op in unops:
        for x in leaves:
            yield ["un", op, "p", leaf(x)]
            if forms:
                yield ["un", op, "f", leaf(x)]
                yield ["un", op, "s", leaf(x)]


def inner_exprs():
    return list(depth1(LEAVES_INNER, forms=False))


def depth2_block(block):
    """Depth-2 expressions are split in blocks so that they shard well:
       ["L", op]   (inner) op (leaf)        for every inner depth-1 expression and every leaf
       ["R", op]   (leaf) op (inner)
       ["U", op]   op (inner)
       ["B", op]   ((a) op1 (b)) op ((c) op2 (d))   for every pair of binary operators op1, op2, and
                   (op1 a) op (op2 -1) for every pair of prefix operators in both source forms
    """
    kind, op = block
    if kind == "L":
        for inn in inner_exprs():
            for x in LEAVES:
                yield ["bin", op, "p", inn, leaf(x)]
    elif kind == "R":
        for inn in inner_exprs():
            for x in LEAVES:
                yield ["bin", op, "p", leaf(x), inn]
    elif kind == "U":
        for inn in inner_exprs():
            yield ["un", op, "p", inn]
            yield ["un", op, "f", inn]
    elif kind == "B":
        for op1 in BINOPS:
            for op2 in BINOPS:
                yield ["bin", op, "p", ["bin", op1, "p", leaf("a"), leaf("b")], ["bin", op2, "p", leaf("c"), leaf("d")]]
        for op1 in UNOPS:
            for op2 in UNOPS:
                for f1 in "ps":
                    for f2 in "ps":
                        yield ["bin", op, "p", ["un", op1, f1, leaf("a")], ["un", op2, f2, leaf("-1")]]
    else:
        raise ValueError(block)


def depth2_blocks():
    res = []
    for op in BINOPS:
        res += [["L", op], ["R", op], ["B", op]]
    for op in UNOPS:
        res.append(["U", op])
    return res


def subexprs(e):
    if e[0] == "bin":
        return [e[3], e[4]]
    if e[0] == "un":
        return [e[3]]
    return []


def shrink_candidates(case):
    """fixed-order candidates that are strictly simpler than `case` = {"ctx":..., "expr":...}"""
    ctx, e = case["ctx"], case["expr"]
    if ctx != CONTEXTS[0]:
        yield {"ctx": CONTEXTS[0], "expr": e}
        if ctx != CONTEXTS[1]:
            yield {"ctx": CONTEXTS[1], "expr": e}
    for sub in subexprs(e):
        yield {"ctx": ctx, "expr": sub}
    for e2 in _simpler(e):
        yield {"ctx": ctx, "expr": e2}


def _leaf_rank(e):
    if e[0] == "leaf" and e[1] in LEAVES:
        return LEAVES.index(e[1])
    return len(LEAVES)


def _simpler(e):
    """expressions obtained by simplifying one position of e"""
    if e[0] == "leaf":
        for t in LEAVES[: _leaf_rank(e)]:
            yield leaf(t)
        return
    if e[0] == "bin":
        _, op, form, l, r = e
        if form != "p":
            yield ["bin", op, "p", l, r]
        for l2 in _simpler_or_leaf(l):
            yield ["bin", op, form, l2, r]
        for r2 in _simpler_or_leaf(r):
            yield ["bin", op, form, l, r2]
    elif e[0] == "un":
        _, op, form, x = e
        if form != "p":
            yield ["un", op, "p", x]
        for x2 in _simpler_or_leaf(x):
            yield ["un", op, form, x2]


def _simpler_or_leaf(e):
    if e[0] != "leaf":
        for sub in subexprs(e):
            yield sub
        for t in LEAVES:
            yield leaf(t)
    for e2 in _simpler(e):
        yield e2
