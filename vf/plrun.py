"""Small drivers around the real ProbLog implementation (imported lazily from $VERIF_REPO).

Every function returns plain Python data so that observations can be compared, hashed and written
to JSON.  Errors are returned as ``("error", <ProbLogError subclass name>)`` or, for exceptions that
are not ProbLog errors, ``("crash", <class name>, <innermost problog function>)``.
"""
import os
import sys
import traceback

from .core import watchdog, WatchdogTimeout, REPO


def innermost_problog_frame(exc):
    tb = traceback.extract_tb(exc.__traceback__)
    site = None
    for fr in tb:
        if os.sep + "problog" + os.sep in fr.filename:
            site = "%s:%s" % (os.path.basename(fr.filename), fr.name)
    return site or "?"


def classify_exception(exc):
    from problog.errors import ProbLogError

    if isinstance(exc, ProbLogError):
        return ("error", type(exc).__name__)
    return ("crash", type(exc).__name__, innermost_problog_frame(exc))


_DSHARP_CACHE = {}
_DSHARP_STATS = {"hit": 0, "miss": 0}


def install_dsharp_cache():
    """Memoise the external `dsharp` process per worker: it is a deterministic function of its
    command-line flags and of the DIMACS file it is given.  Everything on the Python side
    (CNF construction, to_dimacs, _load_nnf, evaluation) still runs for every case; only the
    subprocess is skipped when the same (flags, file content) was compiled before.  Disabled with
    VERIF_NO_DSHARP_CACHE=1 (C10 always calls the real compiler)."""
    if os.environ.get("VERIF_NO_DSHARP_CACHE"):
        return
    import problog.ddnnf_formula as D

    if getattr(D, "_vf_cache_installed", False):
        return
    real = D.subprocess_check_call

    def cached(cmd, *a, **kw):
        try:
            if os.path.basename(cmd[0]).startswith("dsharp") and "-Fnnf" in cmd:
                nnf_file = cmd[cmd.index("-Fnnf") + 1]
                cnf_file = cmd[-1]
                flags = tuple(c for c in cmd[1:] if c not in (nnf_file, cnf_file))
                with open(cnf_file) as f:
                    key = (flags, f.read())
                if key in _DSHARP_CACHE:
                    _DSHARP_STATS["hit"] += 1
                    with open(nnf_file, "w") as f:
                        f.write(_DSHARP_CACHE[key])
                    return 0
                r = real(cmd, *a, **kw)
                _DSHARP_STATS["miss"] += 1
                with open(nnf_file) as f:
                    if len(_DSHARP_CACHE) > 20000:
                        _DSHARP_CACHE.clear()
                    _DSHARP_CACHE[key] = f.read()
                return r
        except (ValueError, IndexError, OSError):
            pass
        return real(cmd, *a, **kw)

    D.subprocess_check_call = cached
    D._vf_cache_installed = True


def infer(src, timeout=10, evaluatable=None, semiring=None, engine_factory=None, **kw):
    """Default pipeline (what `problog file.pl` does): parse, ground, compile, evaluate.
    Returns ("ok", {str(query): prob}) | ("error", cls) | ("crash", cls, site) | ("timeout",)"""
    from problog.program import PrologString
    from problog import get_evaluatable

    install_dsharp_cache()
    try:
        with watchdog(timeout):
            model = PrologString(src)
            if engine_factory is not None:
                from problog.formula import LogicFormula

                eng = engine_factory()
                db = eng.prepare(model)
                gp = eng.ground_all(db, target=LogicFormula(**kw))
                knowledge = get_evaluatable(evaluatable).create_from(gp)
            else:
                knowledge = get_evaluatable(evaluatable).create_from(model, **kw)
            res = knowledge.evaluate(semiring=semiring) if semiring is not None else knowledge.evaluate()
            return ("ok", {str(k): v for k, v in res.items()})
    except WatchdogTimeout:
        return ("timeout",)
    except RecursionError:
        return ("recursion",)
    except Exception as exc:  # noqa
        return classify_exception(exc)


class BuiltinHarness(object):
    """A prepared database on which goals (given as text) are queried repeatedly with
    ``engine.query`` — about 0.2 ms per call.  A fresh engine is created after any exception."""

    def __init__(self, program=""):
        self.program = program
        self._fresh()

    def _fresh(self):
        from problog.engine import DefaultEngine
        from problog.program import PrologString

        self.engine = DefaultEngine()
        self.db = self.engine.prepare(PrologString(self.program))

    def parse(self, text):
        from problog.logic import Term

        return Term.from_string(text)

    def query_term(self, term, timeout=5):
        """-> ("ok", [tuple of result-argument strings ...]) | error/crash/timeout tuples"""
        try:
            with watchdog(timeout):
                res = self.engine.query(self.db, term)
                return ("ok", [tuple(str(a) for a in r) for r in res])
        except WatchdogTimeout:
            self._fresh()
            return ("timeout",)
        except RecursionError:
            self._fresh()
            return ("recursion",)
        except Exception as exc:  # noqa
            out = classify_exception(exc)
            self._fresh()
            return out

    def query_raw(self, term, timeout=5):
        """like query_term but returns the raw result Terms"""
        try:
            with watchdog(timeout):
                return ("ok", self.engine.query(self.db, term))
        except WatchdogTimeout:
            self._fresh()
            return ("timeout",)
        except RecursionError:
            self._fresh()
            return ("recursion",)
        except Exception as exc:  # noqa
            out = classify_exception(exc)
            self._fresh()
            return out

    def query(self, text, timeout=5):
        try:
            t = self.parse(text)
        except Exception as exc:  # noqa
            return classify_exception(exc)
        return self.query_term(t, timeout)


GROUND_ONLY_OPTIONS = ("label_all", "avoid_name_clash", "keep_order", "keep_all", "keep_duplicates", "hide_builtins")


def infer_cli(src, options=None, timeout=10, knowledge=None):
    """Inference with ground/evaluate options given as a dict.  Options of the probability CLI
    (propagate_evidence, propagate_weights, logspace, unbuffered, ...) are passed through the whole
    pipeline exactly as problog/tasks/probability.py:execute does.  Options that only the ground CLI
    and LogicFormula.create_from expose (label_all, avoid_name_clash, keep_order, keep_all,
    keep_duplicates, hide_builtins) are given to LogicFormula.create_from as problog/tasks/ground.py
    does, and the resulting ground program is then compiled and evaluated."""
    from problog.program import PrologString
    from problog import get_evaluatable
    from problog.engine import DefaultEngine
    from problog.formula import LogicFormula
    from problog.evaluator import SemiringLogProbability, SemiringProbability

    install_dsharp_cache()
    opts = dict(options or {})
    try:
        with watchdog(timeout):
            # --logspace (the CLI default) / --nologspace select the semiring explicitly
            semiring = SemiringLogProbability() if opts.pop("logspace", False) else SemiringProbability()
            if opts.pop("propagate_weights", False):
                opts["propagate_weights"] = semiring or SemiringProbability()
            gopts = {k: opts.pop(k) for k in list(opts) if k in GROUND_ONLY_OPTIONS}
            engine = DefaultEngine(**opts)
            db = engine.prepare(PrologString(src))
            kc = get_evaluatable(knowledge, semiring=semiring)
            if gopts:
                gp = LogicFormula.create_from(db, engine=engine, database=db, **dict(opts, **gopts))
                formula = kc.create_from(gp, **opts)
            else:
                formula = kc.create_from(db, engine=engine, database=db, **opts)
            res = formula.evaluate(semiring=semiring, **opts)
            return ("ok", {str(k): v for k, v in res.items()})
    except WatchdogTimeout:
        return ("timeout",)
    except RecursionError:
        return ("recursion",)
    except Exception as exc:  # noqa
        return classify_exception(exc)
