"""Small drivers around the real ProbLog implementation (imported lazily from $VERIF_REPO).

Every function returns plain Python data so that observations can be compared, hashed and written
to JSON.  Errors are returned as ``("error", <ProbLogError subclass name>)`` or, for exceptions that
are not ProbLog errors, ``("crash", <class name>, <innermost problog function>)``.
"""
import os
import sys
import traceback

from .core import watchdog, WatchdogTimeout, REPO


def innermost_problog_frame(exc):
    tb = traceback.extract_tb(exc.__traceback__)
    site = None
    for fr in tb:
        if os.sep + "problog" + os.sep in fr.filename:
            site = "%s:%s" % (os.path.basename(fr.filename), fr.name)
    return site or "?"


def classify_exception(exc):
    from problog.errors import ProbLogError

    if isinstance(exc, ProbLogError):
        return ("error", type(exc).__name__)
    return ("crash", type(exc).__name__, innermost_problog_frame(exc))


def infer(src, timeout=10, evaluatable=None, semiring=None, engine_factory=None, **kw):
    """Default pipeline (what `problog file.pl` does): parse, ground, compile, evaluate.
    Returns ("ok", {str(query): prob}) | ("error", cls) | ("crash", cls, site) | ("timeout",)"""
    from problog.program import PrologString
    from problog import get_evaluatable

    try:
        with watchdog(timeout):
            model = PrologString(src)
            if engine_factory is not None:
                from problog.formula import LogicFormula

                eng = engine_factory()
                db = eng.prepare(model)
                gp = eng.ground_all(db, target=LogicFormula(**kw))
                knowledge = get_evaluatable(evaluatable).create_from(gp)
            else:
                knowledge = get_evaluatable(evaluatable).create_from(model, **kw)
            res = knowledge.evaluate(semiring=semiring) if semiring is not None else knowledge.evaluate()
            return ("ok", {str(k): v for k, v in res.items()})
    except WatchdogTimeout:
        return ("timeout",)
    except RecursionError:
        return ("recursion",)
    except Exception as exc:  # noqa
        return classify_exception(exc)


class BuiltinHarness(object):
    """A prepared database on which goals (given as text) are queried repeatedly with
    ``engine.query`` — about 0.2 ms per call.  A fresh engine is created after any exception."""

    def __init__(self, program=""):
        self.program = program
        self._fresh()

    def _fresh(self):
        from problog.engine import DefaultEngine
        from problog.program import PrologString

        self.engine = DefaultEngine()
        self.db = self.engine.prepare(PrologString(self.program))

    def parse(self, text):
        from problog.logic import Term

        return Term.from_string(text)

    def query_term(self, term, timeout=5):
        """-> ("ok", [tuple of result-argument strings ...]) | error/crash/timeout tuples"""
        try:
            with watchdog(timeout):
                res = self.engine.query(self.db, term)
                return ("ok", [tuple(str(a) for a in r) for r in res])
        except WatchdogTimeout:
            self._fresh()
            return ("timeout",)
        except RecursionError:
            self._fresh()
            return ("recursion",)
        except Exception as exc:  # noqa
            out = classify_exception(exc)
            self._fresh()
            return out

    def query_raw(self, term, timeout=5):
        """like query_term but returns the raw result Terms"""
        try:
            with watchdog(timeout):
                return ("ok", self.engine.query(self.db, term))
        except WatchdogTimeout:
            self._fresh()
            return ("timeout",)
        except RecursionError:
            self._fresh()
            return ("recursion",)
        except Exception as exc:  # noqa
            out = classify_exception(exc)
            self._fresh()
            return out

    def query(self, text, timeout=5):
        try:
            t = self.parse(text)
        except Exception as exc:  # noqa
            return classify_exception(exc)
        return self.query_term(t, timeout)
