"""Judging one program's *default* inference against R1 (shared by C01/C02 and, through the
attribution rule of DESIGN.md 2.8, by the differential properties)."""
import copy
import json
import re

from .gen.programs import program_text
from .plrun import infer
from .ref import worlds

TOL = 1e-9


def is_nonground_key(k):
    """result key such as p(X1) / p(_) / p(c,A)"""
    m = re.match(r"^[^(]*\((.*)\)$", k)
    if not m:
        return False
    return any(a and (a[0].isupper() or a[0] == "_") for a in re.split(r"[,()\[\]| ]+", m.group(1)))


def norm_key(k):
    return k.replace(" ", "")


def reference(prog):
    """-> dict(kind, pe, cond {atom: float P(q|e)} or None)
    kind in {'answer', 'inconsistent', 'must-reject', 'either'}"""
    s = worlds.solve(prog)
    if s["negcycle"]:
        kind = "must-reject" if s["undefined"] else "either"
    elif s["pe"] == 0:
        kind = "inconsistent"
    else:
        kind = "answer"
    cond = None
    if s["pe"] != 0:
        cond = {a: float(p / s["pe"]) for a, p in s["pq"].items()}
    return dict(kind=kind, pe=float(s["pe"]), cond=cond, nworlds=s["nworlds"], nchoices=s["nchoices"],
                negcycle=s["negcycle"], undefined=s["undefined"])


def compare_answer(ref, res):
    """res = {key: prob} from the implementation.  -> (symptom or None, detail)"""
    cond = ref["cond"]
    seen = set()
    for k, v in res.items():
        k = norm_key(k)
        if k in cond:
            seen.add(k)
            if v is None or abs(v - cond[k]) > TOL:
                return "wrong-probability", "%s: got %r expected %.12g" % (k, v, cond[k])
        elif is_nonground_key(k):
            if v is None or abs(v) > TOL:
                return "wrong-probability", "non-ground placeholder %s reported with %r" % (k, v)
        else:
            return "unexpected-instance", "%s reported (%r) but is no instance of any query" % (k, v)
    for k, p in cond.items():
        if k not in seen and p > TOL:
            return "missing-instance", "%s not reported, expected %.12g" % (k, p)
    return None, ""


def judge(prog, ref=None, out=None, infer_kw=None):
    """Run the default pipeline on ``prog`` and judge it.  Returns (symptom or None, detail, ref, out).
    Symptoms: wrong-probability, missing-instance, unexpected-instance, error-must-answer:<Cls>,
    crash:<Cls>@<site>, not-inconsistent, answered-must-reject, spurious-negative-cycle:<Cls>"""
    ref = ref or reference(prog)
    if out is None:
        out = infer(program_text(prog), **(infer_kw or {}))
    return verdict(ref, out) + (ref, out)


def verdict(ref, out):
    kind = ref["kind"]
    tag = out[0]
    if tag in ("timeout", "recursion"):
        return None, tag
    if tag == "crash":
        return "crash:%s@%s" % (out[1], out[2]), "internal exception"
    if kind == "either":
        return None, "unjudged(either)"
    if kind == "must-reject":
        if tag == "ok":
            return "answered-must-reject", "returned %r for a program with an undefined query/evidence atom" % (out[1],)
        return None, ""
    if kind == "inconsistent":
        if tag == "error" and out[1] == "InconsistentEvidenceError":
            return None, ""
        if tag == "ok":
            return "not-inconsistent", "P(evidence)=0 but answered %r" % (out[1],)
        return "error-must-answer:%s" % out[1], "expected InconsistentEvidenceError"
    # kind == answer
    if tag == "error":
        if out[1] in ("NegativeCycle",):
            return "spurious-negative-cycle:%s" % out[1], "program is stratified at ground level"
        return "error-must-answer:%s" % out[1], "expected probabilities"
    return compare_answer(ref, out[1])


def shrink_candidates(prog):
    """deterministic one-step reductions: drop a query, an evidence, a clause, a body literal,
    an AD head (fixed order)"""
    qs, ev, cls = prog.get("queries", []), prog.get("evidence", []), prog["clauses"]
    for i in range(len(ev)):
        p = copy.deepcopy(prog)
        del p["evidence"][i]
        yield p
    if len(qs) > 1:
        for i in range(len(qs)):
            p = copy.deepcopy(prog)
            del p["queries"][i]
            yield p
    for i in range(len(cls)):
        p = copy.deepcopy(prog)
        del p["clauses"][i]
        if closed(p):
            yield p
    for i, cl in enumerate(cls):
        for j in range(len(cl["body"])):
            p = copy.deepcopy(prog)
            del p["clauses"][i]["body"][j]
            if safe(p["clauses"][i]):
                yield p
        if len(cl["heads"]) > 1:
            for j in range(len(cl["heads"])):
                p = copy.deepcopy(prog)
                del p["clauses"][i]["heads"][j]
                yield p
        if cl["heads"][0][0] is not None and len(cl["heads"]) == 1:
            p = copy.deepcopy(prog)
            p["clauses"][i]["heads"][0][0] = None
            yield p


def strong_candidates(prog):
    """shrink_candidates plus two meaning-changing reductions used where one root cause would
    otherwise yield many minimal programs: merging two predicates of equal arity (the later-named
    one is renamed to the earlier one) and swapping two adjacent clauses when that makes the program
    text smaller (terminates: the text decreases lexicographically)."""
    for p in shrink_candidates(prog):
        yield p
    sigs = []
    for cl in prog["clauses"]:
        for _, h in cl["heads"]:
            sig = (h[0], len(h[1]))
            if sig not in sigs:
                sigs.append(sig)
    for i in range(len(sigs)):
        for j in range(i + 1, len(sigs)):
            if sigs[i][1] != sigs[j][1]:
                continue
            a, b = sigs[i][0], sigs[j][0]
            p = json.loads(json.dumps(prog).replace('["%s", [' % b, '["%s", [' % a))
            # drop duplicate queries
            qs = []
            for q in p["queries"]:
                if q not in qs:
                    qs.append(q)
            p["queries"] = qs
            if p != prog:
                yield p
    cls = prog["clauses"]
    for i in range(len(cls) - 1):
        p = copy.deepcopy(prog)
        p["clauses"][i], p["clauses"][i + 1] = p["clauses"][i + 1], p["clauses"][i]
        if program_text(p) < program_text(prog):
            yield p


def closed(prog):
    heads = set()
    for cl in prog["clauses"]:
        for _, h in cl["heads"]:
            heads.add((h[0], len(h[1])))
    for cl in prog["clauses"]:
        for l in cl["body"]:
            if l[0] != "builtin" and (l[1][0], len(l[1][1])) not in heads:
                return False
    for q in prog.get("queries", []):
        if (q[0], len(q[1])) not in heads:
            return False
    for e in prog.get("evidence", []):
        if (e[0][0], len(e[0][1])) not in heads:
            return False
    return True


def safe(cl):
    """range restriction: every variable of the head, of a negative literal and of a builtin
    occurs in an earlier positive body literal"""
    bound = set()
    for l in cl["body"]:
        if l[0] == "builtin":
            if any(worlds.is_var(t) and t not in bound for t in l[2:]):
                return False
        elif l[0]:
            bound.update(t for t in l[1][1] if worlds.is_var(t))
        else:
            if any(worlds.is_var(t) and t not in bound for t in l[1][1]):
                return False
    for _, h in cl["heads"]:
        if any(worlds.is_var(t) and t not in bound for t in h[1]):
            return False
    return True


def symptom_class(sym):
    return sym


PRED_POOL = ["p", "q", "r", "s", "t", "u", "v", "w"]
FACT_POOL = ["a", "b", "g", "h", "k", "m"]
CONST_POOL = ["c", "d", "e", "f"]
PROB_POOL = ["0.3", "0.6", "0.5", "0.2"]


def canonical_variants(prog):
    """renamings of a (shrunk) program to canonical names, strongest first: predicates and
    constants by first occurrence [+ probabilities by first occurrence]"""
    is_fact_pred = {}
    order = []
    for cl in prog["clauses"]:
        for _, h in cl["heads"]:
            sig = (h[0], len(h[1]))
            if sig not in order:
                order.append(sig)
            probf = (not cl["body"]) and all(p is not None for p, _ in cl["heads"])
            is_fact_pred[sig] = is_fact_pred.get(sig, True) and probf
        for l in cl["body"]:
            if l[0] != "builtin":
                sig = (l[1][0], len(l[1][1]))
                if sig not in order:
                    order.append(sig)
    pm = {}
    fp = [x for x in FACT_POOL]
    pp = [x for x in PRED_POOL]
    for sig in order:
        pool = fp if is_fact_pred.get(sig, False) else pp
        if not pool:
            return
        pm[sig] = pool.pop(0)
    cm = {}

    def rc(t):
        if worlds.is_var(t):
            return t
        if t not in cm:
            if len(cm) >= len(CONST_POOL):
                return t
            cm[t] = CONST_POOL[len(cm)]
        return cm[t]

    def ra(a):
        return [pm.get((a[0], len(a[1])), a[0]), [rc(t) for t in a[1]]]

    def build(reprob):
        probs = {}
        q = {"clauses": [], "queries": [], "evidence": []}
        for cl in prog["clauses"]:
            heads = []
            for p_, h in cl["heads"]:
                if p_ is not None and reprob:
                    if p_ not in probs:
                        if len(probs) >= len(PROB_POOL):
                            return None
                        probs[p_] = PROB_POOL[len(probs)]
                    p_ = probs[p_]
                heads.append([p_, ra(h)])
            body = []
            for l in cl["body"]:
                if l[0] == "builtin":
                    body.append([l[0], l[1], rc(l[2]), rc(l[3])])
                else:
                    body.append([l[0], ra(l[1])])
            q["clauses"].append({"heads": heads, "body": body})
        if prog.get("merge_or"):
            q["merge_or"] = True
        q["queries"] = [ra(a) for a in prog.get("queries", [])]
        q["evidence"] = [[ra(e[0]), e[1], "pair"] for e in prog.get("evidence", [])]
        return q

    for reprob in (True, False):
        cm.clear()
        q = build(reprob)
        if q is not None:
            yield q


def minimise(prog, fails, limit=150, strong=False):
    """deterministic shrink followed by canonical renaming (kept only if the symptom persists)"""
    from .core import shrink

    if prog.get("text"):  # surface text fixed by hand: the AST cannot be shrunk independently
        return prog
    fails0 = fails

    def fails(p):
        # a candidate on which the harness itself trips (e.g. a variant that refers to a removed clause) is
        # simply not a smaller failing case
        try:
            return fails0(p)
        except (IndexError, KeyError, ValueError, TypeError, AttributeError):
            return False

    small = shrink(prog, strong_candidates if strong else shrink_candidates, fails, limit=limit)
    for cand in canonical_variants(small):
        if cand == small:
            return small
        if fails(cand):
            return cand
    return small
