"""The explorers (DESIGN.md 2.2).

E1  ChoiceTree    stateless deviation-bounded / full weighted choice-tree exploration
E2  bfs_histories explicit-state breadth-first search over operation histories of a real object
E3  is plain itertools product enumeration inside the property modules (helpers in vf/gen)
"""
import collections


class ReplayDivergence(Exception):
    """The code under test asked for a different choice than the recorded prefix expects:
    a source of nondeterminism is not owned by the harness.  Hard error."""


class Chooser(object):
    """Choice provider for one execution.  Replays ``prefix`` and then answers 0."""

    def __init__(self, prefix=(), horizon=None):
        self.prefix = list(prefix)
        self.trace = []  # list of (n, label, choice)
        self.horizon = horizon
        self.steps = 0

    def choose(self, n, label=None):
        i = len(self.trace)
        if i < len(self.prefix):
            c = self.prefix[i]
            if isinstance(c, tuple):  # (n, label, choice) recorded: verify
                en, el, c = c
                if en != n or (el is not None and el != label):
                    raise ReplayDivergence("at point %d expected (%r,%r) got (%r,%r)" % (i, en, el, n, label))
            if c >= n:
                raise ReplayDivergence("choice %d out of range %d at point %d" % (c, n, i))
        else:
            c = 0
        self.trace.append((n, label, c))
        return c

    def tick(self):
        self.steps += 1
        if self.horizon is not None and self.steps > self.horizon:
            raise HorizonExceeded(self.steps)

    def choices(self):
        return [c for _, _, c in self.trace]


class HorizonExceeded(Exception):
    pass


def explore_deviations(run, bound, max_exec=None):
    """Deviation-bounded DFS over the choice tree (Musuvathi/Qadeer style, a deviation is a
    non-zero choice).  ``run(prefix) -> (trace, observation)`` where trace is Chooser.trace.
    Yields (choices, observation, deviations).  Executions are complete runs."""
    stack = [([], 0)]
    count = 0
    while stack:
        prefix, dev = stack.pop()
        trace, obs = run(prefix)
        count += 1
        choices = [c for _, _, c in trace]
        # verify prefix replay
        if choices[: len(prefix)] != list(prefix):
            raise ReplayDivergence("prefix %r replayed as %r" % (prefix, choices[: len(prefix)]))
        yield choices, obs, dev, trace
        if max_exec is not None and count >= max_exec:
            return
        if dev >= bound:
            continue
        for i in range(len(trace) - 1, len(prefix) - 1, -1):
            n = trace[i][0]
            for alt in range(n - 1, 0, -1):
                stack.append((choices[:i] + [alt], dev + 1))


def explore_full(run, max_exec=100000):
    """Full choice tree (every alternative at every point); for small weighted trees."""
    stack = [[]]
    count = 0
    while stack:
        prefix = stack.pop()
        trace, obs = run(prefix)
        count += 1
        choices = [c for _, _, c in trace]
        if choices[: len(prefix)] != list(prefix):
            raise ReplayDivergence("prefix %r replayed as %r" % (prefix, choices[: len(prefix)]))
        yield choices, obs, trace
        if count >= max_exec:
            raise RuntimeError("choice tree larger than %d executions" % max_exec)
        for i in range(len(trace) - 1, len(prefix) - 1, -1):
            n = trace[i][0]
            for alt in range(n - 1, 0, -1):
                stack.append(choices[:i] + [alt])


def bfs_histories(apply, ops, depth, prefix=(), on_violation=None, stats=None):
    """Explicit-state BFS.  A state is reached by a history (list of ops); ``apply(hist)`` builds
    a fresh real object, replays the history against object and reference model and returns
    ``(canonical_state, error_or_None)``.  ``ops`` is the menu (a list, or a callable
    ``ops(hist, state)`` for state-dependent menus).  Returns stats dict."""
    stats = stats if stats is not None else collections.Counter()
    start = list(prefix)
    st, err = apply(start)
    seen = {st: start}
    if err:
        if on_violation:
            on_violation(start, err)
        return stats
    frontier = [(start, st)]
    stats["states"] += 1
    for d in range(depth - len(start)):
        nxt = []
        for h, s in frontier:
            menu = ops(h, s) if callable(ops) else ops
            for op in menu:
                h2 = h + [op]
                stats["transitions"] += 1
                st, err = apply(h2)
                if err:
                    stats["violating_transitions"] += 1
                    if on_violation:
                        on_violation(h2, err)
                    continue
                if st not in seen:
                    seen[st] = h2
                    nxt.append((h2, st))
                    stats["states"] += 1
        frontier = nxt
        stats["max_depth"] = max(stats["max_depth"], len(start) + d + 1)
    stats["distinct_states"] = len(seen)
    return stats
