"""C24 learning from interpretations is a monotone EM producing valid parameters.

Bounded-exhaustive: every (program template, configuration, multiset of partial interpretations,
initial weights) of a finite stated space is run on the real ``problog.learning.lfi.LFIProblem``
(prepare + up to 15 ``step()``s); invariants are evaluated on the object's own state and against
the possible-world reference R1 (``vf.ref.worlds``).

What ``step()`` reports (read off problog/learning/lfi.py): ``step()`` = E-step with the *current*
weights followed by ``_update``; it returns ``(log_likelihood, convergence_score)`` where
``log_likelihood = sum_e m_e * log P(e)`` is computed from the E-step, i.e. it is the data
log-likelihood of the weights *before* this step's update.  Examples that raise
InconsistentEvidenceError or have P(e) = 0 are silently left out of that sum.  Hence the k-th
reported value is LL(W[k-1]) and the sequence reported by successive steps must be non-decreasing.

Initial weights: ``_process_atom`` draws ``num_random + 1`` numbers from the module level
``random`` for every clause, normalises them to the free mass of the clause and hands them out from
the back.  The seam replaces ``problog.learning.lfi.random`` by an object whose ``random()`` returns
the enumerated grid values of the case (cyclically) - an enumerated environment answer.
"""
import itertools
import math
from fractions import Fraction

from ..core import Prop, shrink, watchdog, WatchdogTimeout, canon
from ..ref import worlds
from ..plrun import classify_exception, install_dsharp_cache

GRID = (0.2, 0.5, 0.8)
MAX_STEPS = 15
TOL_LL = 1e-9
TOL_W = 1e-12
TOL_SUM = 1e-9
TOL_MLE = 1e-9
TOL_VALUE = 1e-7
P_POSSIBLE = 1e-12  # below this an example counts as impossible under the weights (unjudged)

# ---------------------------------------------------------------------------------------------
# templates: a program is a list of clauses (heads, body);  heads = [(prob, atom)] with prob "t"
# (tunable, printed t(_)), "t:0.2" (tunable with explicit start value), a number string (fixed) or
# None (deterministic);  body = [(positive?, atom)].  Atoms are strings ("a", "p(c)", "p(X)").


def cl(heads, body=()):
    hs = []
    for h in heads.split(";"):
        h = h.strip()
        if "::" in h:
            p, a = h.split("::")
            p = p.strip()
            if p == "t(_)":
                p = "t"
            elif p.startswith("t("):
                p = "t:" + p[2:-1]
            hs.append((p, a.strip()))
        else:
            hs.append((None, h))
    bs = []
    for b in body:
        b = b.strip()
        if b.startswith("\\+"):
            bs.append((False, b[2:].strip()))
        else:
            bs.append((True, b))
    return (hs, bs)


def _split_top(s, sep):
    out, depth, cur = [], 0, ""
    i = 0
    while i < len(s):
        c = s[i]
        if c == "(":
            depth += 1
        elif c == ")":
            depth -= 1
        if depth == 0 and s.startswith(sep, i):
            out.append(cur)
            cur = ""
            i += len(sep)
            continue
        cur += c
        i += 1
    out.append(cur)
    return out


def parse_template(text):
    """inverse of template_text for the restricted syntax used here (one clause per line)"""
    clauses = []
    for line in text.split("\n"):
        line = line.strip()
        if not line:
            continue
        assert line.endswith("."), line
        line = line[:-1]
        if ":-" in line:
            head, body = line.split(":-")
            body = [b.strip() for b in _split_top(body.strip(), ",")]
        else:
            head, body = line, []
        clauses.append(cl(head.strip(), body))
    return clauses


def template_text(clauses):
    lines = []
    for heads, body in clauses:
        hs = []
        for p, a in heads:
            if p is None:
                hs.append(a)
            elif p == "t":
                hs.append("t(_)::" + a)
            elif p.startswith("t:"):
                hs.append("t(%s)::%s" % (p[2:], a))
            else:
                hs.append("%s::%s" % (p, a))
        s = "; ".join(hs)
        if body:
            s += " :- " + ", ".join(("" if pos else "\\+") + a for pos, a in body)
        lines.append(s + ".")
    return "\n".join(lines)


def T(name, text, obs, n3=False):
    return dict(name=name, text=text, obs=obs.split())


# quick alphabet (18 templates)
QUICK = [
    T("fact1", "t(_)::a.", "a"),
    T("fact2", "t(_)::a.\nt(_)::b.", "a b"),
    T("and-rule", "t(_)::a.\nt(_)::b.\nc :- a, b.", "a b c"),
    T("noisy-or-latent", "t(_)::a.\nt(_)::b.\nc :- a.\nc :- b.", "a c"),
    T("neg-rule-latent", "t(_)::a.\nt(_)::b.\nc :- a, \\+b.", "b c"),
    T("xor-latent", "t(_)::l.\nt(_)::a.\no :- l, a.\no :- \\+l, \\+a.", "a o"),
    T("ad2", "t(_)::a; t(_)::b.", "a b"),
    T("ad2-body", "t(_)::c.\nt(_)::a; t(_)::b :- c.", "a b c"),
    T("ad2-body-latent", "t(_)::c.\nt(_)::a; t(_)::b :- c.", "a b"),
    T("ad-fixed-1t", "0.3::a; t(_)::b.", "a b"),
    T("ad-fixed-2t", "0.3::a; t(_)::b; t(_)::c.", "b c"),
    T("fixed-and-tunable", "0.4::a.\nt(_)::b.\nc :- a, b.", "b c"),
    T("tunable-body", "t(_)::a.\nt(_)::b :- a.", "a b"),
    T("neg-only", "t(_)::a.\nc :- \\+a.", "a c"),
    # ADs with two fixed-probability heads (distinct values; fixed heads first, so that minimised cases of the
    # single-fixed-head defects coincide with those of ad-fixed-1t / ad-fixed-2t): the mass
    # left to the tunable heads is 1 - (sum of ALL fixed heads); with 2 tunable heads the configurations that
    # normalise ("test", "cli") rescale to that mass at every iteration, with 1 tunable head it bounds the
    # initial weight
    T("ad-2fixed-2t", "0.2::c; 0.3::d; t(_)::a; t(_)::b.", "a b"),
    T("ad-2fixed-1t", "0.2::c; 0.3::d; t(_)::a.", "a c"),
    T("ad-2fixed-2t-body", "t(_)::e.\n0.2::c; 0.3::d; t(_)::a; t(_)::b :- e.", "a b"),
    T("ad-2fixed-1t-body", "t(_)::e.\n0.2::c; 0.3::d; t(_)::a :- e.", "a e"),
]

THOROUGH_EXTRA = [
    T("fact3", "t(_)::a.\nt(_)::b.\nt(_)::c.", "a b c"),
    T("fact-explicit", "t(0.2)::a.\nt(0.8)::b.", "a b"),
    T("or-rule", "t(_)::a.\nt(_)::b.\nc :- a.\nc :- b.", "a b c"),
    T("neg-rule", "t(_)::a.\nt(_)::b.\nc :- a, \\+b.", "a b c"),
    T("and-latent", "t(_)::a.\nt(_)::b.\nc :- a, b.", "a c"),
    T("and-both-latent", "t(_)::a.\nt(_)::b.\nc :- a, b.", "c"),
    T("or-both-latent", "t(_)::a.\nt(_)::b.\nc :- a.\nc :- b.", "c"),
    T("neg-only-latent", "t(_)::a.\nc :- \\+a.", "c"),
    T("chain-latent", "t(_)::a.\nt(_)::b :- a.\nc :- b.", "a c"),
    T("tunable-negbody", "t(_)::a.\nt(_)::b :- \\+a.", "a b"),
    T("tunable-body-latent", "t(_)::a.\nt(_)::b :- a.", "b"),
    T("two-rules-same-head", "t(_)::a.\nt(_)::c :- a.\nt(_)::c :- \\+a.", "a c"),
    T("fixed-latent", "0.4::a.\nt(_)::b.\nc :- a, b.", "c"),
    T("fixed-or", "0.4::a.\nt(_)::b.\nc :- a.\nc :- b.", "b c"),
    T("fixed-or-latent", "0.4::a.\nt(_)::b.\nc :- a.\nc :- b.", "c"),
    T("fixed-neg", "0.4::a.\nt(_)::b.\nc :- b, \\+a.", "a c"),
    T("fixed-body", "0.4::a.\nt(_)::b :- a.", "a b"),
    T("fixed-body-latent", "0.4::a.\nt(_)::b :- a.", "b"),
    T("ad3", "t(_)::a; t(_)::b; t(_)::c.", "a b c"),
    T("ad3-partial", "t(_)::a; t(_)::b; t(_)::c.", "a b"),
    T("ad2-one-observable", "t(_)::a; t(_)::b.", "a"),
    T("ad2-explicit", "t(0.2)::a; t(0.5)::b.", "a b"),
    T("ad2-explicit-full", "t(0.2)::a; t(0.8)::b.", "a b"),
    T("ad2-rule", "t(_)::a; t(_)::b.\nc :- a.\nd :- b.", "c d"),
    T("ad2-rule-shared", "t(_)::a; t(_)::b.\nt(_)::e.\nc :- a, e.\nc :- b, \\+e.", "c e"),
    T("ad2-negbody", "t(_)::c.\nt(_)::a; t(_)::b :- \\+c.", "a b c"),
    T("ad2-fixedbody", "0.4::c.\nt(_)::a; t(_)::b :- c.", "a b c"),
    T("ad2-fixedbody-latent", "0.4::c.\nt(_)::a; t(_)::b :- c.", "a b"),
    T("ad-fixed-1t-latent", "0.3::a; t(_)::b.", "b"),
    T("ad-fixed-2t-all", "0.3::a; t(_)::b; t(_)::c.", "a b c"),
    T("ad-fixed-body", "t(_)::d.\n0.3::a; t(_)::b :- d.", "a b d"),
    T("ad-mixed-explicit", "t(0.5)::a; t(_)::b.", "a b"),
    T("two-ads", "t(_)::a; t(_)::b.\nt(_)::c; t(_)::d.", "a c"),
    T("ad-and-fact", "t(_)::a; t(_)::b.\nt(_)::c.\nd :- a, c.", "b d"),
    T("ad-head-derived-twice", "t(_)::a; t(_)::b.\nt(_)::c.\na :- c.", "a b"),
    T("fo-fact", "t(_)::p(c).\nt(_)::p(d).\nq :- p(c), p(d).", "p(c) q"),
    T("fo-shared", "b(c).\nb(d).\nt(_)::p(X) :- b(X).", "p(c) p(d)"),
    T("fo-shared-rule", "b(c).\nb(d).\nt(_)::p(X) :- b(X).\nq :- p(c), p(d).", "p(c) q"),
    T("fo-ad-shared", "b(c).\nb(d).\nt(_)::p(X); t(_)::r(X) :- b(X).", "p(c) r(d)"),
    # >= 2 fixed heads in an AD, further shapes (fixed heads on both sides of / after the tunable heads, observed
    # fixed heads, observed body, 3 fixed heads, 3 tunable heads, explicit start value, fixed body, heads used by
    # rules, latent tunable head)
    T("ad-2fixed-2t-all", "0.3::c; t(_)::a; t(_)::b; 0.2::d.", "a b c"),
    T("ad-2fixed-2t-fixed-observed", "0.3::c; t(_)::a; t(_)::b; 0.2::d.", "a d"),
    T("ad-2fixed-2t-tail", "t(_)::a; t(_)::b; 0.2::c; 0.3::d.", "a b"),
    T("ad-3fixed-2t", "0.1::c; t(_)::a; 0.2::d; t(_)::b; 0.3::e.", "a b"),
    T("ad-2fixed-3t", "0.3::d; t(_)::a; t(_)::b; t(_)::c; 0.2::e.", "a b"),
    T("ad-2fixed-2t-explicit", "0.3::c; t(0.2)::a; t(_)::b; 0.2::d.", "a b"),
    T("ad-2fixed-2t-body-all", "t(_)::e.\n0.3::c; t(_)::a; t(_)::b; 0.2::d :- e.", "a b e"),
    T("ad-2fixed-2t-fixedbody", "0.4::e.\n0.3::c; t(_)::a; t(_)::b; 0.2::d :- e.", "a b"),
    T("ad-2fixed-2t-rule", "0.3::c; t(_)::a; t(_)::b; 0.2::d.\nq :- a.\nq :- c.", "b q"),
    T("ad-2fixed-1t-tail", "t(_)::a; 0.2::c; 0.3::d.", "a c"),
    T("ad-2fixed-1t-latent", "0.3::c; t(_)::a; 0.2::d.\nq :- a.\nq :- d.", "c q"),
    T("ad-2fixed-1t-fixedbody", "0.4::e.\n0.3::c; t(_)::a; 0.2::d :- e.", "a e"),
]

CONFIGS = {
    # the configuration of problog/test/test_lfi.py
    "test": dict(normalize=True, propagate_evidence=False),
    # the defaults of the LFIProblem constructor (Python API)
    "api": dict(),
    # the defaults of the command line (problog lfi)
    "cli": dict(normalize=True, propagate_evidence=True),
}

# enumerated answers of the random seam: the k-th call of random() returns init[k % len(init)]
INITS = {
    "quick": [[0.5], [0.8, 0.2], [0.2, 0.8], [0.2, 0.5, 0.8]],
    "thorough": [[0.5], [0.8, 0.2], [0.2, 0.8], [0.2, 0.5, 0.8], [0.8, 0.5, 0.2]],
}
MAX_EXAMPLES = {"quick": 3, "thorough": 4}


def templates(tier):
    return QUICK if tier == "quick" else QUICK + THOROUGH_EXTRA


def _only():
    """development aid: VERIF_C24_ONLY=<prefix>[,<prefix>...] restricts a run to the templates whose name starts
    with one of the prefixes"""
    import os

    return tuple(os.environ.get("VERIF_C24_ONLY", "").split(","))


def has_multi_ad(clauses):
    return any(len(h) > 1 for h, _ in clauses)


def configs_for(tpl, tier):
    clauses = parse_template(tpl["text"])
    if tier == "quick" or len(tpl["obs"]) >= 3:
        return ["test", "api"] if has_multi_ad(clauses) else ["test"]
    return ["test", "api", "cli"]


def inits_for(tpl, tier):
    if tier == "thorough" and len(tpl["obs"]) >= 3:
        return INITS["thorough"][:3]
    return INITS[tier]


def max_examples(tpl, tier):
    n = len(tpl["obs"])
    k = MAX_EXAMPLES[tier]
    if n >= 3:
        k -= 1  # 26 interpretations: multisets of <= 2 (quick: 377) / <= 3 (thorough: 3653)
    return k


def interpretations(obs):
    """every non-empty partial interpretation over the observable atoms, fixed order"""
    out = []
    for vals in itertools.product((None, True, False), repeat=len(obs)):
        ex = [[a, v] for a, v in zip(obs, vals) if v is not None]
        if ex:
            out.append(ex)
    return out


def datasets(obs, kmax):
    """all multisets of 1..kmax partial interpretations (a multiset = a sequence modulo permutation of
    its examples: ExampleSet groups equal examples and sums over them)"""
    ints = interpretations(obs)
    for k in range(1, kmax + 1):
        for combo in itertools.combinations_with_replacement(range(len(ints)), k):
            yield [ints[i] for i in combo]


# ---------------------------------------------------------------------------------------------
# R1: data likelihood of given weights


def _atom_ast(a):
    a = a.strip()
    if "(" in a:
        p, rest = a.split("(", 1)
        return [p, [x.strip() for x in rest[:-1].split(",")]]
    return [a, []]


class Model(object):
    """possible-world structure of a template, computed once with R1 (dummy parameter values), then
    evaluated in floating point for any weight vector"""

    _cache = {}

    @classmethod
    def of(cls, text):
        m = cls._cache.get(text)
        if m is None:
            m = cls._cache[text] = cls(text)
        return m

    def __init__(self, text):
        self.text = text
        self.clauses = parse_template(text)
        self.params = []  # (clause index, head index, atom, explicit start or None)
        ast = []
        for ci, (heads, body) in enumerate(self.clauses):
            hs = []
            for hi, (p, a) in enumerate(heads):
                if p is not None and p.startswith("t"):
                    start = float(p[2:]) if p.startswith("t:") else None
                    self.params.append((ci, hi, a, start))
                    hs.append(["1/%d" % (101 + 7 * len(self.params)), _atom_ast(a)])
                else:
                    hs.append([p, _atom_ast(a)])
            ast.append({"heads": hs, "body": [[pos, _atom_ast(a)] for pos, a in body]})
        self.pindex = {(ci, hi): i for i, (ci, hi, _, _) in enumerate(self.params)}
        # AD groups as lfi sees them: per clause the tunable heads, and the fixed mass
        self.ads = []
        for ci, (heads, body) in enumerate(self.clauses):
            tun = [self.pindex[(ci, hi)] for hi in range(len(heads)) if (ci, hi) in self.pindex]
            if tun:
                fixed = sum(float(p) for p, _ in heads if p is not None and not p.startswith("t"))
                self.ads.append(dict(ci=ci, tunable=tun, fixed=fixed, nheads=len(heads)))
        gp = worlds.GroundProgram({"clauses": ast, "queries": [], "evidence": []})
        self.negcycle = gp.has_negative_cycle()
        universe = gp.atoms()
        choice_insts = [gp.instances[i] for i in gp.choices]
        self.worlds = []
        self.two_valued = True
        for pw, rules, combo in gp.worlds():
            factors = []
            for (ci, vals, heads, pos, neg), picked in zip(choice_insts, combo):
                opts = []
                for hi, (p, h) in enumerate(heads):
                    opts.append((Fraction(1) if p is None else p, h))
                j = opts.index(picked) if picked in opts else None
                if j is not None and picked[1] is not None:
                    if (ci, j) in self.pindex:
                        factors.append(("w", self.pindex[(ci, j)]))
                    else:
                        factors.append(("c", float(self.clauses[ci][0][j][0])))
                else:
                    assert picked[1] is None
                    tun = [self.pindex[(ci, hi)] for hi in range(len(heads)) if (ci, hi) in self.pindex]
                    fixed = sum(float(self.clauses[ci][0][hi][0]) for hi in range(len(heads))
                                if (ci, hi) not in self.pindex)
                    factors.append(("none", tun, fixed))
            Tset, Uset = worlds.wfm(rules, universe)
            if Tset != Uset:
                self.two_valued = False
            self.worlds.append((factors, frozenset(Tset)))

    def world_probs(self, w):
        out = []
        for factors, Tset in self.worlds:
            p = 1.0
            for f in factors:
                if f[0] == "w":
                    p *= w[f[1]]
                elif f[0] == "c":
                    p *= f[1]
                else:
                    r = 1.0 - f[2] - sum(w[i] for i in f[1])
                    p *= r if r > 1e-15 else 0.0
            out.append(max(p, 0.0))
        return out

    def example_probs(self, w, examples):
        wp = self.world_probs(w)
        res = []
        for ex in examples:
            tot = 0.0
            for p, (_, Tset) in zip(wp, self.worlds):
                if p and all((a.replace(" ", "") in Tset) == v for a, v in ex):
                    tot += p
            res.append(tot)
        return res

    def none_mass(self, w, ad):
        return 1.0 - ad["fixed"] - sum(w[i] for i in ad["tunable"])

    def in_class(self, w):
        """every all-tunable AD with >= 2 heads is exhaustive (lfi's infer_AD_values treats a fully
        tunable AD as exhaustive: 'all heads but one false' makes the remaining head true)"""
        for ad in self.ads:
            if len(ad["tunable"]) >= 2 and len(ad["tunable"]) == ad["nheads"] and self.none_mass(w, ad) > 1e-9:
                return False
        return True

    def mle(self, examples):
        """closed-form relative-frequency estimate under complete observation, or (None, reason).
        Returns ([value or None per parameter], None)"""
        heads_of = {}
        for ci, (heads, body) in enumerate(self.clauses):
            for p, a in heads:
                heads_of.setdefault(a, []).append(ci)
        for ad in self.ads:
            heads, body = self.clauses[ad["ci"]]
            if ad["fixed"] > 0:
                return None, "fixed-head-in-ad"
            for p, a in heads:
                if len(heads_of[a]) != 1:
                    return None, "head-defined-twice"
                if any(x in "XYZ" for x in a):
                    return None, "first-order"
        est = [None] * len(self.params)
        for ad in self.ads:
            heads, body = self.clauses[ad["ci"]]
            nbody = 0
            counts = [0] * len(heads)
            for ex in examples:
                val = dict((a.replace(" ", ""), v) for a, v in ex)
                for p, a in heads:
                    if a not in val:
                        return None, "incomplete"
                for pos, a in body:
                    if a not in val:
                        return None, "incomplete"
                holds = all(val[a] == pos for pos, a in body)
                true_heads = [hi for hi, (p, a) in enumerate(heads) if val[a]]
                if not holds:
                    if true_heads:
                        return None, "impossible-example"
                    continue
                if len(true_heads) > 1:
                    return None, "impossible-example"
                if not true_heads and len(heads) > 1:
                    # lfi learns a fully tunable AD as exhaustive (normalize; the expected outcomes of
                    # test/lfi/ad say so): an example in which no head is true is outside its model class
                    return None, "all-heads-false-in-tunable-ad"
                nbody += 1
                for hi in true_heads:
                    counts[hi] += 1
            if nbody:
                for hi in range(len(heads)):
                    est[self.pindex[(ad["ci"], hi)]] = counts[hi] / float(nbody)
        return est, None


# ---------------------------------------------------------------------------------------------
# the seam and the driver of the real object


class SeamRandom(object):
    """stands in for the ``random`` module inside problog.learning.lfi"""

    def __init__(self, answers):
        self.answers = list(answers)
        self.calls = 0

    def random(self):
        v = self.answers[self.calls % len(self.answers)]
        self.calls += 1
        return v

    def seed(self, *a, **kw):
        pass


_quiet = False


def _silence_logger():
    global _quiet
    if not _quiet:
        import logging

        lg = logging.getLogger("problog_lfi")
        lg.addHandler(logging.NullHandler())
        lg.propagate = False
        lg.setLevel(logging.CRITICAL)
        _quiet = True


def read_weights(lfi):
    out = []
    for i in range(lfi.count):
        ws = lfi.get_weights(i)
        if len(ws) != 1:
            return None
        out.append(float(ws[0][1]))
    return out


def run_case(case, steps=MAX_STEPS):
    """-> observation dict.  status: ok | error:<cls> | crash:<cls>@<site> | timeout | shape"""
    import problog.learning.lfi as L
    from problog.program import PrologString
    from problog.logic import Term

    _silence_logger()
    install_dsharp_cache()  # the external compiler is a deterministic function of its input file
    seam = SeamRandom(case["init"])
    L.random = seam
    obs = dict(status="ok", ll=[], weights=[], names=[], draws=0, model=None)
    try:
        with watchdog(20):
            examples = [[(Term.from_string(a), bool(v)) for a, v in ex] for ex in case["examples"]]
            lfi = L.LFIProblem(PrologString(case["template"]), examples, max_iter=steps, min_improv=1e-10,
                               **CONFIGS[case["config"]])
            lfi.prepare()
            obs["draws"] = seam.calls
            obs["names"] = [str(n.with_probability()).replace(" ", "") for n in lfi.names]
            w = read_weights(lfi)
            if w is None:
                obs["status"] = "shape"
                return obs
            obs["weights"].append(w)
            for k in range(steps):
                res = lfi.step()
                obs["ll"].append(float(res[0]))
                w2 = read_weights(lfi)
                if w2 is None:
                    obs["status"] = "shape"
                    return obs
                obs["weights"].append(w2)
                if max([abs(x - y) for x, y in zip(w, w2)] or [0.0]) < 1e-13:
                    break  # fixpoint: every further step repeats this one
                w = w2
            obs["model"] = lfi.get_model()
    except WatchdogTimeout:
        obs["status"] = "timeout"
    except RecursionError:
        obs["status"] = "recursion"
    except Exception as exc:  # noqa
        c = classify_exception(exc)
        if c[0] == "error":
            obs["status"] = "error:" + c[1]
        else:
            obs["status"] = "crash:%s@%s" % (c[1], c[2])
        obs["exception"] = "%s: %s" % (type(exc).__name__, str(exc)[:200])
    return obs


def _sum_log(ps):
    return sum(math.log(p) for p in ps)


def well_formed(case):
    """every observed atom and every body atom is defined by some clause of the program (inputs of the
    stated space always are; shrink candidates that drop clauses may not be - observing an undefined
    atom is a user error that lfi rightly reports)"""
    try:
        clauses = parse_template(case["template"])
    except Exception:  # noqa
        return False
    pred = lambda a: a.split("(")[0].strip()  # noqa
    defined = set(pred(a) for heads, _ in clauses for _, a in heads)
    used = set(pred(a) for _, body in clauses for _, a in body)
    used |= set(pred(a) for e in case["examples"] for a, _ in e)
    return bool(clauses) and used <= defined and any(p is not None and p.startswith("t") for h, _ in clauses for p, _ in h)


def judge(case, obs):
    """-> (symptoms: {symptom: detail}, notes: set of unjudged / trivia categories)"""
    syms, notes = {}, set()
    if not well_formed(case):
        notes.add("unjudged:not-well-formed")
        return syms, notes
    if obs["status"].startswith("crash:"):
        syms[obs["status"]] = obs.get("exception", "")
        return syms, notes
    if obs["status"] != "ok":
        notes.add("unjudged:" + obs["status"])
        if obs["status"].startswith("error:") and obs["status"] != "error:InconsistentEvidenceError":
            # a user-level error other than 'inconsistent evidence' on a dataset in which every example has
            # positive probability (judged with every choice uniform): learning must answer
            try:
                m = Model.of(case["template"])
                w = [0.0] * len(m.params)
                for ad in m.ads:
                    for i in ad["tunable"]:
                        w[i] = (1.0 - ad["fixed"]) / (len(ad["tunable"]) + 1)
                if m.two_valued and not m.negcycle and all(p > P_POSSIBLE for p in m.example_probs(w, case["examples"])):
                    syms["error-must-answer:" + obs["status"][6:]] = obs.get("exception", "")
            except Exception:  # noqa  (shrink candidates that are not programs of the template language)
                pass
        if not obs["weights"] or syms:
            return syms, notes
    m = Model.of(case["template"])
    examples = case["examples"]
    W = obs["weights"]
    LL = obs["ll"]
    if obs["names"] != [a.replace(" ", "") for _, _, a, _ in m.params]:
        notes.add("unjudged:parameter-order")
        return syms, notes
    # (2) every weight is a probability, at every iteration
    for k, w in enumerate(W):
        for i, x in enumerate(w):
            if not (-TOL_W <= x <= 1.0 + TOL_W):  # also catches nan
                syms.setdefault("weight-range", "iteration %d: weight of %s = %r" % (k, m.params[i][2], x))
    # (3) learned AD weights sum to at most 1
    for k, w in enumerate(W[1:], 1):
        for ad in m.ads:
            s = ad["fixed"] + sum(w[i] for i in ad["tunable"])
            if not s <= 1.0 + TOL_SUM:
                # the number of tunable heads is part of the symptom: the shrinker may not turn an AD whose
                # normalisation is broken into the (different) single-tunable-head case
                syms.setdefault("ad-sum:%d-tunable" % len(ad["tunable"]),
                                "iteration %d: heads of clause %d sum to %.12g" % (k, ad["ci"], s))
    if "weight-range" in syms:
        return syms, notes  # R1 cannot evaluate invalid weights
    # (1) monotone log-likelihood
    P = [m.example_probs(w, examples) for w in W]
    possible = [all(p > P_POSSIBLE for p in ps) for ps in P]
    TLL = [_sum_log(ps) if ok else None for ps, ok in zip(P, possible)]
    incl = [m.in_class(w) for w in W]
    if not possible[0]:
        notes.add("unjudged:example-impossible-under-initial-weights")
    for k in range(1, len(W)):
        if possible[k - 1] and not possible[k]:
            notes.add("unjudged:example-becomes-impossible")
    for k in range(1, len(LL)):
        if possible[k - 1] and possible[k]:
            if LL[k] < LL[k - 1] - TOL_LL:
                syms.setdefault("ll-decrease", "step %d reported %.12g, step %d reported %.12g" % (k, LL[k - 1], k + 1, LL[k]))
        else:
            notes.add("unjudged:ll-with-impossible-example")
    for k in range(len(LL)):
        # the value reported by step k+1 must be the data log-likelihood of the weights the step started from
        # (what lfi.py computes) - an implementation reporting that of the updated weights is accepted as well
        ok_pre = possible[k] and incl[k]
        ok_post = k + 1 < len(W) and possible[k + 1] and incl[k + 1]
        if ok_pre and ok_post:
            if all(abs(LL[k] - t) > TOL_VALUE * max(1.0, abs(t)) for t in (TLL[k], TLL[k + 1])):
                syms.setdefault("ll-value", "step %d reported %.12g; data log-likelihood of its weights %s is %.12g (of the "
                                "updated weights: %.12g)" % (k + 1, LL[k], _fmt(W[k]), TLL[k], TLL[k + 1]))
        elif possible[k]:
            notes.add("unjudged:ll-value-ad-not-exhaustive-or-impossible")
    for k in range(1, len(W)):
        if possible[k - 1] and possible[k] and incl[k - 1] and incl[k]:
            if TLL[k] < TLL[k - 1] - TOL_LL:
                syms.setdefault("true-ll-decrease", "iteration %d: weights %s -> %s, data log-likelihood %.12g -> %.12g"
                                % (k, _fmt(W[k - 1]), _fmt(W[k]), TLL[k - 1], TLL[k]))
        elif possible[k - 1] and possible[k]:
            notes.add("unjudged:true-ll-ad-not-exhaustive")
    # (4) complete observations: one iteration = relative frequency
    if len(W) > 1:
        est, why = m.mle(examples)
        if est is None:
            notes.add("mle-unjudged:" + why)
        elif not possible[0]:
            notes.add("mle-unjudged:impossible-under-initial-weights")
        else:
            judged = False
            for i, e in enumerate(est):
                if e is None:
                    notes.add("mle-unjudged:body-never-holds")
                    continue
                judged = True
                if abs(W[1][i] - e) > TOL_MLE:
                    syms.setdefault("mle", "after one iteration %s = %.12g, relative frequency %.12g"
                                    % (m.params[i][2], W[1][i], e))
            if judged:
                notes.add("mle-judged")
    return syms, notes


def _fmt(w):
    return "[" + ", ".join("%.6g" % x for x in w) + "]"


def symptoms_of(case, _memo={}):
    key = canon(case)
    r = _memo.get(key)
    if r is None:
        if len(_memo) > 200000:
            _memo.clear()
        obs = run_case(case)
        syms, notes = judge(case, obs)
        r = _memo[key] = (syms, notes, obs)
    return r


def _template_candidates(text):
    clauses = parse_template(text)
    for i in range(len(clauses)):  # drop a clause
        if len(clauses) > 1:
            yield template_text(clauses[:i] + clauses[i + 1:])
    for i, (heads, body) in enumerate(clauses):  # drop a body
        if body and any(p is not None for p, _ in heads):
            yield template_text(clauses[:i] + [(heads, [])] + clauses[i + 1:])
    for i, (heads, body) in enumerate(clauses):  # drop a head of an AD
        if len(heads) > 1:
            for j in range(len(heads)):
                yield template_text(clauses[:i] + [(heads[:j] + heads[j + 1:], body)] + clauses[i + 1:])


INIT_RANK = [[0.5], [0.8, 0.2], [0.2, 0.8]]


def rename_canonical(case):
    """rename the propositional atoms of program and examples to a, b, c, ... in order of first
    occurrence in the program text (None if already canonical or not propositional)"""
    import re

    text = case["template"]
    if "(" in text.replace("t(", ""):
        return None
    body = re.sub(r"t\([^)]*\)", "", text)
    names = []
    for mt in re.finditer(r"[a-z][a-z0-9_]*", body):
        if mt.group(0) not in names:
            names.append(mt.group(0))
    target = ["a", "b", "c", "d", "e", "f", "g", "h"][:len(names)]
    if names == target or len(names) > len(target):
        return None
    mp = dict(zip(names, ["@%d@" % i for i in range(len(names))]))

    def ren_clause(c):
        heads, bd = c
        return ([(p, mp[a]) for p, a in heads], [(pos, mp[a]) for pos, a in bd])

    t2 = template_text([ren_clause(c) for c in parse_template(text)])
    for i, tname in enumerate(target):
        t2 = t2.replace("@%d@" % i, tname)
    back = dict(zip(names, target))
    if any(a not in back for e in case["examples"] for a, _ in e):
        return None
    return dict(case, template=t2, examples=[[[back[a], v] for a, v in e] for e in case["examples"]])


def shrink_candidates(case):
    ex = case["examples"]
    if case["config"] != "test":
        yield dict(case, config="test")
    # drop an example
    if len(ex) > 1:
        for i in range(len(ex)):
            yield dict(case, examples=ex[:i] + ex[i + 1:])
    # drop an observation from an example
    for i, e in enumerate(ex):
        if len(e) > 1:
            for j in range(len(e)):
                yield dict(case, examples=ex[:i] + [e[:j] + e[j + 1:]] + ex[i + 1:])
    # simpler program
    for text in _template_candidates(case["template"]):
        yield dict(case, template=text)
    # simpler initial weights (fixed ranking)
    rank = INIT_RANK.index(case["init"]) if case["init"] in INIT_RANK else len(INIT_RANK)
    for init in INIT_RANK[:rank]:
        yield dict(case, init=init)
    # canonical atom names (order of first occurrence in the program)
    ren = rename_canonical(case)
    if ren is not None:
        yield ren
    # canonical observations: an alphabetically earlier atom, the value true
    atoms = sorted(set(a for e in ex for a, _ in e))
    for i, e in enumerate(ex):
        for j, (a, v) in enumerate(e):
            for b in atoms:
                if b < a and all(b != x for x, _ in e):
                    yield dict(case, examples=ex[:i] + [e[:j] + [[b, v]] + e[j + 1:]] + ex[i + 1:])
            if not v:
                yield dict(case, examples=ex[:i] + [e[:j] + [[a, True]] + e[j + 1:]] + ex[i + 1:])


def normal_form(case):
    return dict(case, examples=sorted((sorted(e) for e in case["examples"]), key=canon))


class C24(Prop):
    pid = "C24"
    title = "Learning from interpretations is a monotone EM producing valid parameters"
    technique = ("bounded-exhaustive enumeration of (program template, LFI configuration, multiset of partial "
                 "interpretations, initial weights through the random seam) on the real LFIProblem, stepped <= 15 "
                 "iterations; invariants on the object's state and on the data likelihood recomputed by the "
                 "possible-world reference R1")
    rule = ("states = (template, configuration, dataset, init) tuples; transitions = EM iterations (step() calls) "
            "executed; non-trivial = the weights changed in at least one iteration; outcomes = convergence class / "
            "unjudged categories")
    assumptions = [
        "step() reports the log-likelihood of the weights it starts from; examples of probability 0 are dropped by lfi "
        "from that sum, so transitions where R1 gives some example probability < 1e-12 are unjudged for (1)",
        "lfi treats a fully tunable AD as exhaustive (infer_AD_values, normalize); the reported value is compared with "
        "R1 and R1's likelihood is required to be monotone only between weight vectors in which such ADs sum to 1",
        "relative-frequency MLE is judged only when every head and body atom of every tunable clause is observed in "
        "every example, heads are defined by one clause, the AD has no fixed head, and all examples are possible",
        "empty interpretations are not inputs (read_examples drops them)",
    ]
    budget = {"quick": 300, "thorough": 2400}
    NCHUNK = {"quick": 4, "thorough": 8}

    def shards(self, tier):
        out = []
        for ti, tpl in enumerate(templates(tier)):
            if not tpl["name"].startswith(_only()):
                continue
            kmax = max_examples(tpl, tier)
            nint = 3 ** len(tpl["obs"]) - 1
            nsets = sum(math.comb(nint + k - 1, k) for k in range(1, kmax + 1))
            chunks = max(1, min(64, nsets // (150 if tier == "quick" else 400)))
            for cfg in configs_for(tpl, tier):
                for ii in range(len(inits_for(tpl, tier))):
                    for r in range(chunks):
                        out.append([ti, cfg, ii, chunks, r])
        # large shards first
        return out

    def precheck(self, tier):
        """reference self-test: closed forms on two templates"""
        m = Model.of("t(_)::a.")
        p = m.example_probs([0.3], [[["a", True]], [["a", False]]])
        if abs(p[0] - 0.3) > 1e-12 or abs(p[1] - 0.7) > 1e-12:
            raise RuntimeError("R1 likelihood broken on t(_)::a")
        m = Model.of("t(_)::a; t(_)::b.\nc :- a.\nc :- b.")
        p = m.example_probs([0.2, 0.5], [[["c", True]], [["a", False], ["b", False]], [["a", True], ["b", True]]])
        if max(abs(p[0] - 0.7), abs(p[1] - 0.3), abs(p[2])) > 1e-12:
            raise RuntimeError("R1 likelihood broken on AD")
        bad = [t["name"] for t in templates(tier) if not Model.of(t["text"]).two_valued or Model.of(t["text"]).negcycle]
        if bad:
            raise RuntimeError("templates not stratified: %r" % bad)
        return {"templates": len(templates(tier)), "reference_selftest": "ok"}

    def run_shard(self, shard, tier, acc):
        ti, cfg, ii, chunks, rem = shard
        tpl = templates(tier)[ti]
        init = inits_for(tpl, tier)[ii]
        text = tpl["text"]
        for idx, ds in enumerate(datasets(tpl["obs"], max_examples(tpl, tier))):
            if idx % chunks != rem:
                continue
            if acc.expired():
                acc.cap("wall budget reached in template %s" % tpl["name"])
                break
            case = normal_form({"template": text, "examples": ds, "init": init, "config": cfg})
            syms, notes, obs = symptoms_of(case)
            acc.evaluations += 1
            acc.traces += 1
            acc.states += 1
            acc.transitions += len(obs["ll"])
            changed = any(max([abs(x - y) for x, y in zip(a, b)] or [0.0]) > 1e-12
                          for a, b in zip(obs["weights"], obs["weights"][1:]))
            if changed:
                acc.nontrivial += 1
            acc.counters["seam_draws"] += obs["draws"]
            for n in notes:
                acc.counters[n] += 1
            if obs["status"] != "ok":
                out = obs["status"]
            elif len(obs["ll"]) >= MAX_STEPS:
                out = "not-converged-in-%d" % MAX_STEPS
            else:
                out = "fixpoint-after-%d" % len(obs["ll"])
            acc.outcomes[out] += 1
            acc.sample(dict(case, name=tpl["name"]), limit=2)
            if syms:
                # one finding per case: the most specific symptom (a broken M-step shows up as several)
                sym = min(syms, key=lambda s_: (PRIORITY.index(s_.split(":")[0]) if s_.split(":")[0] in PRIORITY else -1, s_))
                acc.counters["violating_cases:" + sym.split("@")[0]] += 1
                self.report(acc, sym, case)

    def report(self, acc, sym, case):
        def fails(c):
            return sym in symptoms_of(normal_form(c))[0]

        small = normal_form(shrink(case, shrink_candidates, fails, limit=300))
        s2, n2, o2 = symptoms_of(small)
        detail = s2.get(sym, "")
        what = "%s [%s, init %s] %s | examples %s: %s" % (
            sym, small["config"], small["init"], small["template"].replace("\n", " "),
            canon(small["examples"]), detail)
        if sym.startswith("crash:"):
            acc.violation(sym, {"site": sym}, extra=small, expected="no internal exception", observed=detail, what=what)
        else:
            acc.violation(sym, small, expected=EXPECT.get(sym.split(":")[0], ""), observed=detail, what=what)

    def replay(self, case):
        case = {k: case[k] for k in ("template", "examples", "init", "config")}
        obs = run_case(case)
        syms, notes = judge(case, obs)
        return dict(ok=not syms, expected="monotone log-likelihood, weights in [0,1], AD sums <= 1, relative-frequency MLE",
                    observed={"symptoms": syms, "status": obs["status"], "reported_ll": obs["ll"],
                              "weights": obs["weights"], "unjudged": sorted(notes)})


PRIORITY = ["error-must-answer", "weight-range", "ad-sum", "mle", "ll-decrease", "ll-value", "true-ll-decrease"]

EXPECT = {
    "weight-range": "every weight in [0,1] at every iteration",
    "ad-sum": "learned head probabilities of an annotated disjunction sum to at most 1",
    "ll-decrease": "log-likelihood reported by successive step() calls is non-decreasing (1e-9)",
    "true-ll-decrease": "data log-likelihood (possible-world reference) of successive weight vectors is non-decreasing",
    "ll-value": "step() reports the data log-likelihood of the weights it started from",
    "mle": "with complete observations one iteration returns count(head) / count(body holds)",
}

PROP = C24()
