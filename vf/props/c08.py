"""C08 a query's answer does not depend on what else was grounded before it (E2: breadth-first
search over histories of engine.ground / engine.query calls sharing one target formula and one
prepared database; every reached ground program is evaluated and compared with R1)."""
import collections

from ..core import Prop, watchdog, WatchdogTimeout
from ..explore import bfs_histories
from ..gen import streams
from ..gen.programs import program_text, clause_text, _heads_of
from ..ref.worlds import atom_str, is_var
from .. import progcheck
from ..plrun import classify_exception, install_dsharp_cache

DEPTH = {"quick": 3, "thorough": 4}


def candidates(prog):
    """(queries, evidence atoms) offered to the history menu"""
    qs = list(prog["queries"])[:2]
    # a binary query is also offered with a repeated variable (the tabling key of a non-ground call
    # must record which argument positions share a variable)
    for q in list(qs):
        if len(q[1]) == 2 and is_var(q[1][0]) and is_var(q[1][1]) and q[1][0] != q[1][1]:
            qs.insert(0, [q[0], [q[1][0], q[1][0]]])
            break
    qs = qs[:3]
    heads = [h for h in _heads_of(prog["clauses"]) if not any(is_var(t) for t in h[1])]
    ev = []
    for h in heads:
        if h not in ev and len(ev) < 1:
            ev.append(h)
    if heads and heads[-1] not in ev and heads[-1] not in qs:
        ev.append(heads[-1])
    return qs, ev[:2]


def menu(prog):
    qs, ev = candidates(prog)
    ops = [["q", i] for i in range(len(qs))]
    for j in range(len(ev)):
        ops += [["e", j, True], ["e", j, False]]
    ops += [["dbq", len(qs) - 1], ["bad"]]
    return ops


def run_history(prog, hist):
    """replays hist on a fresh engine/db/target; returns (canonical state, error or None, info)"""
    from problog.engine import DefaultEngine
    from problog.program import PrologString
    from problog.formula import LogicFormula
    from problog.logic import Term
    from problog.errors import ProbLogError
    from problog import get_evaluatable

    install_dsharp_cache()
    qs, ev = candidates(prog)
    src = " ".join(clause_text(c) for c in prog["clauses"])
    engine = DefaultEngine()
    db = engine.prepare(PrologString(src))
    nodes_before = len(db)
    target = LogicFormula()
    grounded_q = []
    grounded_e = []
    for op in hist:
        if op[0] == "q":
            target = engine.ground(db, Term.from_string(atom_str(qs[op[1]])), target, label=target.LABEL_QUERY)
            if qs[op[1]] not in grounded_q:
                grounded_q.append(qs[op[1]])
        elif op[0] == "e":
            a, v = ev[op[1]], op[2]
            target = engine.ground(db, Term.from_string(atom_str(a)), target,
                                   label=target.LABEL_EVIDENCE_POS if v else target.LABEL_EVIDENCE_NEG)
            if [a, v] not in grounded_e:
                grounded_e.append([a, v])
        elif op[0] == "dbq":
            res = engine.query(db, Term.from_string(atom_str(qs[op[1]])))
            fresh = DefaultEngine()
            res2 = fresh.query(fresh.prepare(PrologString(src)), Term.from_string(atom_str(qs[op[1]])))
            if sorted(map(str, res)) != sorted(map(str, res2)):
                return None, ("query-differs", "engine.query after %r gives %s, fresh engine %s" % (hist, res, res2)), None
        elif op[0] == "bad":
            try:
                engine.ground(db, Term("c08_undefined_predicate"), target, label=target.LABEL_QUERY)
                return None, ("undefined-accepted", "grounding an undefined predicate did not raise"), None
            except ProbLogError:
                pass
    if len(db) != nodes_before:
        return None, ("database-changed", "prepared database grew from %d to %d nodes" % (nodes_before, len(db))), None
    state = (str(target), tuple(sorted(map(str, grounded_q))), tuple(sorted(map(str, grounded_e))))
    return state, None, (target, grounded_q, grounded_e)


def judge_state(prog, target, grounded_q, grounded_e):
    """evaluate the shared ground program and compare, query by query, with R1 and with the grounding
    of that query ALONE with the same evidence -> (symptom or None, detail)"""
    from problog import get_evaluatable

    if not grounded_q:
        return None, "no query"
    ev = [[a, v, "pair"] for a, v in grounded_e]
    try:
        res = get_evaluatable().create_from(target).evaluate()
        out = ("ok", {progcheck.norm_key(str(k)): v for k, v in res.items()})
    except Exception as exc:  # noqa
        out = classify_exception(exc)
    judged = 0
    for q in grounded_q:
        p1 = dict(prog, queries=[q], evidence=ev)
        ref = progcheck.reference(p1)
        if ref["negcycle"]:
            continue
        # attribution: grounding this query alone (fresh engine, same evidence) must itself be right
        dsym, _, _, dout = progcheck.judge(p1, ref=ref)
        if dsym is not None or dout[0] in ("timeout", "recursion"):
            continue
        judged += 1
        if ref["kind"] == "inconsistent":
            if not (out[0] == "error" and out[1] == "InconsistentEvidenceError"):
                return "not-inconsistent", "P(evidence)=0 but the shared ground program gives %r" % (out,)
            continue
        if out[0] != "ok":
            sym, detail = progcheck.verdict(ref, out)
            return sym, detail
        # restrict the shared result to the instances of this query
        inst = set(ref["cond"])
        mine = {k: v for k, v in out[1].items() if k in inst}
        for k, pexp in ref["cond"].items():
            if k in mine:
                if abs(mine[k] - pexp) > progcheck.TOL:
                    return "wrong-probability", "%s: shared ground program gives %r, alone/reference %.12g" % (k, mine[k], pexp)
            elif pexp > progcheck.TOL:
                return "missing-instance", "%s missing from the shared ground program, alone/reference %.12g" % (k, pexp)
    if not judged:
        return None, "excluded: every query is wrong or unjudged when grounded alone (C01/C02)"
    return None, ""


def check_history(prog, hist):
    try:
        with watchdog(30):
            state, err, info = run_history(prog, hist)
            if err:
                return None, err
            sym, detail = judge_state(prog, *info)
            if sym:
                return state, (sym, detail)
            return state, None
    except WatchdogTimeout:
        return ("timeout", tuple(map(tuple, hist))), None
    except RecursionError:
        return ("recursion", tuple(map(tuple, hist))), None
    except Exception as exc:  # noqa
        c = classify_exception(exc)
        if c[0] == "error":
            # attribution: if a fresh grounding of exactly the queries/evidence of this history raises
            # the same error, the history is not to blame (C01/C02 case)
            qs, ev = candidates(prog)
            gq = [qs[op[1]] for op in hist if op[0] == "q"]
            ge = [[ev[op[1]], op[2], "pair"] for op in hist if op[0] == "e"]
            if gq or ge:
                from ..plrun import infer

                fresh = infer(program_text(dict(prog, queries=gq, evidence=ge)))
                if fresh[0] == "error" and fresh[1] == c[1]:
                    return ("excluded-fresh-grounding-raises", c[1], tuple(map(tuple, hist))), None
            return None, ("error-in-history:" + c[1], "a ProbLog error was raised while replaying %r" % (hist,))
        return None, ("crash:%s@%s" % (c[1], c[2]), "internal exception while replaying %r" % (hist,))


class C08(Prop):
    pid = "C08"
    title = "A query's answer does not depend on what else was grounded before it"
    technique = ("explicit-state BFS over histories of engine.ground(query) / engine.ground(evidence, +/-) / engine.query / a "
                 "failing call, sharing one target formula and one prepared ClauseDB of the real engine; every distinct "
                 "reached ground program is compiled, evaluated and compared with the possible-world reference for exactly "
                 "the grounded queries and evidence; the prepared database must stay unchanged")
    rule = ("per program (families F1-F3 without query/evidence statements; 2 candidate queries, 2 evidence atoms): all "
            "histories up to depth 3 (quick) / 4 (thorough) over the menu {q0,q1,e0+,e0-,e1+,e1-,dbquery,failing call}; "
            "states merged on (text of the target formula, grounded queries, grounded evidence); non-trivial = state with "
            ">= 2 grounded items")
    assumptions = ["programs whose fresh grounding of the same queries/evidence is itself wrong are excluded (C01 cases)"]
    families = {"quick": [("FTWIN", 4), ("F2.3", 192), ("F3.1", 32), ("F2.2", 8), ("F1.1", 4)],
                "thorough": [("FTWIN", 4), ("F3.3/64", 32), ("F2.4/32", 32), ("F3.2/8", 32), ("F2.3", 192), ("F1.3s/4", 48), ("F1.2q/8", 64),
                             ("F3.1", 16), ("F2.2", 8), ("F1.1", 4)]}
    budget = {"quick": 400, "thorough": 2700}

    def shards(self, tier):
        return [[fam, mod, r] for fam, mod in self.families[tier] for r in range(mod)]

    def run_shard(self, shard, tier, acc):
        fam, mod, rem = shard
        for idx, prog in streams.shard_stream(fam, tier, mod, rem):
            if acc.expired():
                acc.cap("wall budget reached in family %s" % fam)
                break
            if prog.get("evidence"):
                continue
            ref0 = progcheck.reference(prog)
            if ref0["negcycle"]:
                acc.counters["skipped_negative_cycle"] += 1
                continue
            found = {}

            def on_violation(hist, err, found=found):
                found.setdefault(err[0], (list(hist), err[1]))

            stats = collections.Counter()
            bfs_histories(lambda h: check_history(prog, h), menu(prog), DEPTH[tier], on_violation=on_violation, stats=stats)
            acc.states += stats["states"]
            acc.transitions += stats["transitions"]
            acc.evaluations += stats["transitions"] + 1
            acc.traces += stats["states"]
            acc.nontrivial += max(0, stats["states"] - 3)
            acc.outcomes["violating" if found else "ok"] += 1
            acc.sample({"family": fam, "index": idx, "program": " ".join(clause_text(c) for c in prog["clauses"]),
                        "menu": menu(prog), "states": stats["states"]}, limit=2)
            for sym, (hist, detail) in found.items():
                self.report(prog, hist, sym, acc)

    def report(self, prog, hist, sym, acc):
        def sym_of(p, h):
            st, err = check_history(p, h)
            return err[0] if err else None

        # shrink the history first (drop operations), then the program
        h = list(hist)
        changed = True
        while changed:
            changed = False
            for i in range(len(h)):
                h2 = h[:i] + h[i + 1:]
                if sym_of(prog, h2) == sym:
                    h = h2
                    changed = True
                    break

        def fails(p):
            if candidates(p) != candidates(prog):
                return False
            return sym_of(p, h) == sym

        small = progcheck.minimise(prog, fails, limit=60)
        if sym_of(small, h) != sym:
            small = prog
        st, err = check_history(small, h)
        qs, ev = candidates(small)
        case = {"program": " ".join(clause_text(c) for c in small["clauses"]), "ast": small, "history": h,
                "queries": [atom_str(q) for q in qs], "evidence_atoms": [atom_str(a) for a in ev]}
        extra = None
        if sym.startswith("crash:"):
            case, extra = {"site": sym}, case
        acc.violation(sym, case, extra=extra, expected="same answers as a fresh grounding / the reference",
                      observed=err[1] if err else None,
                      what="%s after history %s on: %s [%s]" % (sym, h, case.get("program", extra and extra["program"]), err[1] if err else ""))

    def replay(self, case):
        st, err = check_history(case["ast"], case["history"])
        return dict(ok=err is None, expected="same answers as a fresh grounding / the reference", observed=err)


PROP = C08()
