"""C19 findall/3 and all/3 over probabilistic goals follow the possible-world semantics.

Bounded-exhaustive enumeration of the grammar FF (vf/gen/c19_ff.py) on the real default inference; reference =
R1 total choices (vf/ref/worlds.py) x per world the Prolog solution sequence computed by a tiny SLD evaluator
(vf/ref/c19_sld.py) => exact distribution over the answers of the query."""
import collections
import signal
from fractions import Fraction

from ..core import Prop, shrink, WatchdogTimeout
from ..gen import c19_ff as G
from ..ref import worlds
from ..ref import c19_sld as S
from .. import plrun

TOL = 1e-9
NSHARDS = {"quick": 128, "thorough": 384}
MAX_CHOICES = 8
MAX_LIST = 9
CPU_LIMIT = 8      # seconds of user CPU time of the worker (independent of machine load)
WALL_LIMIT = 120   # seconds wall clock (external compiler hanging)


def run_bounded(src):
    """plrun.infer under a CPU-time watchdog, so that 'timeout' does not depend on how loaded the machine is"""
    def handler(signum, frame):
        raise WatchdogTimeout()

    old = signal.signal(signal.SIGVTALRM, handler)
    try:
        signal.setitimer(signal.ITIMER_VIRTUAL, CPU_LIMIT)
        try:
            return plrun.infer(src, timeout=WALL_LIMIT)
        finally:
            signal.setitimer(signal.ITIMER_VIRTUAL, 0)
    except WatchdogTimeout:
        return ("timeout",)
    finally:
        signal.signal(signal.SIGVTALRM, old)


# ---------------------------------------------------------------------------------------------
# reference


def to_r1(clauses):
    """base clauses -> R1 AST (flat atoms, conjunctions of literals)"""
    def atom(t):
        return [t[0], list(t[1:])] if S.is_compound(t) else [t, []]

    def lits(b, out):
        if S.is_compound(b) and b[0] == "," and len(b) == 3:
            lits(b[1], out)
            lits(b[2], out)
        elif S.is_compound(b) and b[0] == "\\+":
            out.append([False, atom(b[1])])
        else:
            out.append([True, atom(b)])
        return out

    res = []
    for cl in clauses:
        res.append({"heads": [[p, atom(h)] for p, h in cl["heads"]],
                    "body": lits(cl["body"], []) if cl["body"] is not None else []})
    return {"clauses": res, "queries": [], "evidence": []}


class BaseRef(object):
    """total choices of a base program; per world the Prolog clause list in textual order"""

    def __init__(self, base):
        self.base = base
        r1 = to_r1(base)
        # R1 instantiates variables over the constants of the program; anonymous variables are ordinary variables
        for i, cl in enumerate(r1["clauses"]):
            n = [0]

            def ren(a):
                args = []
                for t in a[1]:
                    if t == "_":
                        n[0] += 1
                        t = "_A%d" % n[0]
                    args.append(t)
                return [a[0], args]

            cl["heads"] = [[p, ren(h)] for p, h in cl["heads"]]
            cl["body"] = [[l[0], ren(l[1])] for l in cl["body"]]
        self.gp = worlds.GroundProgram(r1)
        self.nchoices = len(self.gp.choices)
        self.r1 = r1
        self._worlds = None

    def clause_vars(self, ci):
        return worlds.clause_vars(self.r1["clauses"][ci])

    def worlds(self):
        """list of (prob, prolog clauses, chosen, wfm-true atom strings)"""
        if self._worlds is not None:
            return self._worlds
        gp = self.gp
        prob_inst = [inst for inst in gp.instances if not all(p is None for p, _ in inst[2])]
        universe = gp.atoms()
        res = []
        for pw, rules, combo in gp.worlds():
            pick = {}
            for (pp, h), inst in zip(combo, prob_inst):
                pick[(inst[0], tuple(inst[1]))] = h
            clauses = []
            for ci, cl in enumerate(self.base):
                probabilistic = any(p is not None for p, _ in cl["heads"])
                if not probabilistic:
                    clauses.append((cl["heads"][0][1], cl["body"]))
                elif cl["body"] is None and not self.clause_vars(ci):
                    h = pick.get((ci, ()))
                    if h is not None:
                        for p, ht in cl["heads"]:
                            if S.show(ht) == h:
                                clauses.append((ht, None))
                                break
                        else:
                            raise RuntimeError("reference: head %r not found" % (h,))
                else:
                    if len(cl["heads"]) != 1:
                        raise RuntimeError("reference: non-ground AD not modelled")
                    vs = self.clause_vars(ci)
                    guard = ["$chosen", ci] + vs
                    clauses.append((cl["heads"][0][1], [",", cl["body"], guard]))
            T, U = worlds.wfm(rules, universe)
            if T != U:
                raise RuntimeError("reference: base program not two-valued")
            res.append((pw, clauses, (lambda ci, vals, pick=pick: pick.get((ci, vals)) is not None), T))
        self._worlds = res
        return res

    def upper_clauses(self):
        """every probabilistic head switched on at once (not a world when ADs are present): bounds the number of
        candidate elements findall/3 has to split on"""
        out = []
        for cl in self.base:
            for p, h in cl["heads"]:
                out.append((h, cl["body"]))
        return out

    def selfcheck(self):
        """the SLD evaluator and R1's well-founded model agree on the set of true atoms of every world"""
        preds = sorted(G.head_preds(self.base))
        n = 0
        for pw, clauses, chosen, T in self.worlds():
            m = S.Machine(clauses, chosen, declared=preds)
            got = set()
            for f, ar in preds:
                goal = [f] + ["V%d" % i for i in range(ar)]
                for a in m.answers(goal):
                    got.add(S.show(a))
            want = set(a for a in T if any(a.startswith(f + "(") or a == f for f, _ in preds))
            n += 1
            if got != want:
                raise RuntimeError("reference self-check failed: SLD %r vs WFM %r on %r" % (sorted(got), sorted(want), clauses))
        return n


def canon_bag(t):
    """answer term with the elements of every proper list sorted (order-insensitive view)"""
    if S.is_compound(t):
        items = S.list_items(t) if t[0] == "." else None
        if items is not None:
            return "[" + ",".join(sorted(canon_bag(x) for x in items)) + "]"
        return S.show((t[0],) + tuple("\0" + canon_bag(a) for a in t[1:])).replace("\0", "")
    return S.show(t)


def distribution(bref, wclauses, query, all_dedup=True):
    """-> dict(kind='dist', dist={answer text: Fraction}, bag={answer text: canon}, steps) | dict(kind='unsupported', why)"""
    dist = collections.defaultdict(Fraction)
    bag = {}
    steps = 0
    maxlen = 0
    wcl = [(c["heads"][0][1], c["body"]) for c in wclauses]
    declared = G.head_preds(bref.base)
    try:
        for pw, clauses, chosen, T in bref.worlds():
            m = S.Machine(clauses + wcl, chosen, all_dedup=all_dedup, declared=declared)
            seen = set()
            for a in m.answers(query):
                if not S.is_ground(a):
                    return dict(kind="unsupported", why="non-ground answer")
                k = S.show(a)
                if k not in seen:
                    seen.add(k)
                    dist[k] += pw
                    bag[k] = canon_bag(a)
            steps += m.steps
            maxlen = max(maxlen, m.maxlist)
        m = S.Machine(bref.upper_clauses() + wcl, all_dedup=all_dedup, declared=declared)
        m.answers(query)
        maxlen = max(maxlen, m.maxlist)
    except S.Unsupported as e:
        return dict(kind="unsupported", why=str(e).split(" %")[0])
    except S.StepBound:
        return dict(kind="unsupported", why="step bound")
    return dict(kind="dist", dist=dict(dist), bag=bag, steps=steps, maxlen=maxlen)


def owned_by_c13(bref, wclauses):
    return bref.nchoices == 0 and not uses_all(wclauses)


def uses_all(wclauses):
    def has(t):
        return S.is_compound(t) and ((t[0] == "all" and len(t) == 4) or any(has(a) for a in t[1:]))

    return any(has(c["body"]) for c in wclauses if c["body"] is not None)


# ---------------------------------------------------------------------------------------------
# judgement


def compare(ref, obs):
    """-> None | (symptom, detail)"""
    keys = sorted(set(ref) | set(obs))
    bad = [k for k in keys if abs(float(ref.get(k, 0)) - obs.get(k, 0.0)) > TOL]
    if not bad:
        return None
    return bad


def bagged(d, bagmap):
    out = collections.defaultdict(float)
    for k, v in d.items():
        out[bagmap.get(k, k)] += float(v)
    return out


def obs_bag_key(k):
    """order-insensitive view of an observed answer string: the elements of every [...] sorted"""
    try:
        f, _, rest = k.partition("(")
        if not rest:
            return k
        inner = rest[:-1]
        pos = 0
        res = []
        while pos < len(inner):
            s, pos2 = _parse_arg(inner, pos)
            res.append(s)
            pos = pos2 + 1
        return f + "(" + ",".join(res) + ")"
    except Exception:  # noqa
        return k


def _parse_arg(k, i):
    if k[i] == "[":
        i += 1
        items = []
        while k[i] != "]":
            s, i = _parse_arg(k, i)
            items.append(s)
            if k[i] == ",":
                i += 1
        return "[" + ",".join(sorted(items)) + "]", i + 1
    j = i
    depth = 0
    out = []
    while j < len(k):
        c = k[j]
        if c == "[":
            s, j = _parse_arg(k, j)
            out.append(s)
            continue
        if c == "(":
            depth += 1
        elif c == ")":
            if depth == 0:
                break
            depth -= 1
        elif c in ",]" and depth == 0:
            break
        out.append(c)
        j += 1
    return "".join(out), j


def judge(base, wclauses, query, bref=None, route=True):
    """-> dict(sym, detail, expected, observed, out, ref, info).  (``route`` is kept for callers; deterministic
    programs are judged like any other, attribution of deterministic *order* violations to C13 happens in report())"""
    bref = bref or BaseRef(base)
    src = G.program_text(base + wclauses, query)
    ref = distribution(bref, wclauses, query, all_dedup=True)
    res = dict(sym=None, detail="", src=src, ref=ref, expected=None, observed=None, outclass=None, steps=ref.get("steps", 0))
    if ref["kind"] == "dist" and bref.nchoices and ref["maxlen"] > MAX_LIST:
        # findall/3 enumerates 2^n candidate lists for n uncertain elements (documented combinatorial explosion)
        res["detail"] = "unjudged:not-run-list-longer-than-%d" % MAX_LIST
        res["outclass"] = "not-run"
        return res
    out = run_bounded(src)
    res["out"] = out
    res["outclass"] = out[0] if out[0] != "error" else "error:" + out[1]
    if ref["kind"] != "dist":
        res["detail"] = "unjudged:reference-" + ref["why"]
        return res
    exp = {k: float(v) for k, v in ref["dist"].items()}
    res["expected"] = exp
    if out[0] in ("timeout", "recursion"):
        res["detail"] = "unjudged:" + out[0]
        return res
    if out[0] == "crash":
        res["sym"] = "crash:%s@%s" % (out[1], out[2])
        res["observed"] = list(out)
        return res
    if out[0] == "error":
        res["sym"] = "error-must-answer:%s" % out[1]
        res["observed"] = list(out)
        return res
    obs = {k.replace(" ", ""): v for k, v in out[1].items()}
    res["observed"] = obs
    bad = compare(ref["dist"], obs)
    if bad is None:
        res["detail"] = "ok"
        return res
    refs = [ref]
    if uses_all(wclauses):
        # the statement's "duplicates included" read literally for all/3 vs. YAP's all/3 (duplicates removed,
        # documented by test/findall_duplicates.pl): either reading is accepted
        ref2 = distribution(bref, wclauses, query, all_dedup=False)
        if ref2["kind"] == "dist":
            if compare(ref2["dist"], obs) is None:
                res["detail"] = "ok:all3-keeps-duplicates"
                return res
            refs.append(ref2)
    # order-only?
    for r in refs:
        eb = bagged(r["dist"], r["bag"])
        ob = collections.defaultdict(float)
        for k, v in obs.items():
            ob[obs_bag_key(k)] += v
        if all(abs(eb.get(k, 0.0) - ob.get(k, 0.0)) <= TOL for k in set(eb) | set(ob)):
            res["sym"] = "order"
            break
    else:
        res["sym"] = "wrong-probability"
    k = bad[0]
    res["detail"] = "%s: reference %.10g, reported %s" % (k, float(ref["dist"].get(k, 0)),
                                                         ("%.10g" % obs[k]) if k in obs else "not reported")
    if res["sym"] == "wrong-probability":
        # a wrapper that looks at the list ([H|_], q([a|_]), ...) sees a wrong *order* as a wrong probability: if the
        # plain wrapper q(L) :- findall(T,G,L) of one of its collectors shows an order violation, that is the symptom
        for plain in _plain_wrapper(wclauses, query):
            r2 = judge(base, plain, ["q", "L"], bref, route=False)
            if r2["sym"] == "order":
                res["sym"] = "order"
                res["detail"] += "  (the collected list is in the wrong order: %s)" % r2["detail"]
                break
    return res


# ---------------------------------------------------------------------------------------------
# shrinking


def _subterms_replace(t):
    """smaller variants of a body term: drop one conjunct / disjunct, replace \\+g by nothing is not sound -> keep"""
    if S.is_compound(t):
        if t[0] in (",", ";") and len(t) == 3:
            yield t[1]
            yield t[2]
        for i in range(1, len(t)):
            for v in _subterms_replace(t[i]):
                yield list(t[:i]) + [v] + list(t[i + 1:])


def _rename_functor(t, old, new, arity):
    if S.is_compound(t):
        f = new if (t[0] == old and len(t) - 1 == arity) else t[0]
        return [f] + [_rename_functor(a, old, new, arity) for a in t[1:]]
    return t


def _swap_functors(t, a, b, arity):
    if S.is_compound(t):
        f = t[0]
        if len(t) - 1 == arity and f in (a, b):
            f = b if f == a else a
        return [f] + [_swap_functors(x, a, b, arity) for x in t[1:]]
    return t


def _project(t, newp, pos):
    if S.is_compound(t):
        if t[0] == "r" and len(t) == 3:
            return [newp, t[pos]]
        return [t[0]] + [_project(x, newp, pos) for x in t[1:]]
    return t


def _rename_const(t, m):
    if S.is_compound(t):
        return [t[0]] + [_rename_const(a, m) for a in t[1:]]
    return m.get(t, t) if isinstance(t, str) else t


def _map_case(case, fn):
    def cl(c):
        return {"heads": [[p, fn(h)] for p, h in c["heads"]], "body": fn(c["body"]) if c["body"] is not None else None}

    return dict(case, base=[cl(c) for c in case["base"]], wrapper=[cl(c) for c in case["wrapper"]],
                query=fn(case["query"]))


def _collector_variants(t):
    """simpler templates inside findall/all: a compound template is replaced by one of its arguments"""
    if S.is_compound(t):
        if t[0] in ("findall", "all") and len(t) == 4 and S.is_compound(t[1]):
            for a in t[1][1:]:
                yield [t[0], a, t[2], t[3]]
        if t[0] in ("findall", "all") and len(t) == 4 and not S.is_compound(t[1]) and not S.is_var(t[1]):
            gv = G.goal_vars(t[2])
            if gv:
                yield [t[0], gv[0], t[2], t[3]]
        for i in range(1, len(t)):
            for v in _collector_variants(t[i]):
                yield list(t[:i]) + [v] + list(t[i + 1:])


def _unfoldings(t, base):
    """replace a call h(Args) by the body of a base rule whose head is literally h(Args)"""
    if S.is_compound(t):
        bodies = [cl["body"] for cl in base
                  if cl["body"] is not None and len(cl["heads"]) == 1 and S.freeze(cl["heads"][0][1]) == S.freeze(t)]
        nclauses = sum(1 for cl in base if G.head_preds([cl]) == {(t[0], len(t) - 1)})
        if bodies and len(bodies) == nclauses and all(cl["heads"][0][0] is None for cl in base
                                                      if G.head_preds([cl]) == {(t[0], len(t) - 1)}):
            d = bodies[-1]
            for b in reversed(bodies[:-1]):
                d = [";", b, d]
            yield d
        for i in range(1, len(t)):
            for v in _unfoldings(t[i], base):
                yield list(t[:i]) + [v] + list(t[i + 1:])


def _raw_candidates(case):
    base, wcl, q = case["base"], case["wrapper"], case["query"]
    # the plain list-returning wrapper of one of the collectors
    for c in _plain_wrapper(wcl, q):
        yield dict(case, wrapper=c, query=["q", "L"])
    # drop a base clause
    for i in range(len(base)):
        yield dict(case, base=base[:i] + base[i + 1:])
    # drop one head of an AD; split an AD into independent facts
    for i, cl in enumerate(base):
        if len(cl["heads"]) > 1:
            for j in range(len(cl["heads"])):
                c2 = dict(cl, heads=cl["heads"][:j] + cl["heads"][j + 1:])
                yield dict(case, base=base[:i] + [c2] + base[i + 1:])
            yield dict(case, base=base[:i] + [dict(cl, heads=[hd]) for hd in cl["heads"]] + base[i + 1:])
    # make a probabilistic fact / rule deterministic
    for i, cl in enumerate(base):
        if len(cl["heads"]) == 1 and cl["heads"][0][0] is not None:
            c2 = dict(cl, heads=[[None, cl["heads"][0][1]]])
            yield dict(case, base=base[:i] + [c2] + base[i + 1:])
    # simplify bodies (base rules and wrapper), unfold rule calls in the wrapper, simplify templates
    for i, cl in enumerate(base):
        if cl["body"] is not None:
            for b in _subterms_replace(cl["body"]):
                yield dict(case, base=base[:i] + [dict(cl, body=b)] + base[i + 1:])
    for i, cl in enumerate(wcl):
        if cl["body"] is not None:
            for b in _subterms_replace(cl["body"]):
                yield dict(case, wrapper=wcl[:i] + [dict(cl, body=b)] + wcl[i + 1:])
            for b in _unfoldings(cl["body"], base):
                yield dict(case, wrapper=wcl[:i] + [dict(cl, body=b)] + wcl[i + 1:])
            for b in _collector_variants(cl["body"]):
                yield dict(case, wrapper=wcl[:i] + [dict(cl, body=b)] + wcl[i + 1:])
    # merge predicates: g -> f, k -> h
    preds = G.head_preds(base)
    for old, new, ar in (("g", "f", 1), ("k", "h", 1)):
        if (old, ar) in preds:
            yield _map_case(case, lambda t: _rename_functor(t, old, new, ar))
    # project r/2 on one argument (r(A,B) -> f(A) / f(B) / g(A) / g(B)) when that unary predicate is unused
    if ("r", 2) in preds:
        for newp in ("f", "g"):
            if (newp, 1) not in preds:
                for pos in (1, 2):
                    yield _map_case(case, lambda t, newp=newp, pos=pos: _project(t, newp, pos))
    # canonical predicate names: swap f and g
    sw = _map_case(case, lambda t: _swap_functors(t, "f", "g", 1))
    if G.program_text(sw["base"] + sw["wrapper"], sw["query"]) < G.program_text(base + wcl, q):
        yield sw
    # all probabilities to 0.5
    for i, cl in enumerate(base):
        if len(cl["heads"]) == 1 and cl["heads"][0][0] not in (None, "0.5"):
            c2 = dict(cl, heads=[["0.5", cl["heads"][0][1]]])
            yield dict(case, base=base[:i] + [c2] + base[i + 1:])
    # constants: b -> a in one base clause
    for i, cl in enumerate(base):
        c2 = _map_case(dict(case, base=[cl], wrapper=[]), lambda t: _rename_const(t, {"b": "a"}))["base"][0]
        if c2 != cl:
            yield dict(case, base=base[:i] + [c2] + base[i + 1:])
    # canonical clause order: swap adjacent base clauses when that sorts the text
    for i in range(len(base) - 1):
        if G.clause_text(base[i + 1]) < G.clause_text(base[i]):
            yield dict(case, base=base[:i] + [base[i + 1], base[i]] + base[i + 2:])
    # canonical variable names in the wrapper: swap X and Y
    def swap_xy(t):
        if S.is_compound(t):
            return [t[0]] + [swap_xy(a) for a in t[1:]]
        return {"X": "Y", "Y": "X"}.get(t, t) if isinstance(t, str) else t

    w2 = _map_case(dict(case, base=[]), swap_xy)
    if G.program_text(w2["wrapper"], w2["query"]) < G.program_text(wcl, q):
        yield dict(case, wrapper=w2["wrapper"], query=w2["query"])
    # canonical constant names: swap a and b
    sw = _map_case(case, lambda t: _rename_const(t, {"a": "b", "b": "a"}))
    if G.program_text(sw["base"] + sw["wrapper"], sw["query"]) < G.program_text(base + wcl, q):
        yield sw


def _collectors(t, acc):
    if S.is_compound(t):
        if t[0] in ("findall", "all") and len(t) == 4:
            acc.append(t)
        for a in t[1:]:
            _collectors(a, acc)
    return acc


def _plain_wrapper(wcl, query=None):
    """q(L) :- findall(T, G, L).  built from each collector of the wrapper (if the wrapper is not already that)"""
    for cl in wcl:
        for col in (_collectors(cl["body"], []) if cl["body"] is not None else []):
            new = [{"heads": [[None, ["q", "L"]]], "body": [col[0], col[1], col[2], "L"]}]
            differs = new != wcl or (query is not None and S.freeze(query) != ("q", "L"))
            if differs and "L" not in S.term_vars(col[1]) + S.term_vars(col[2]):
                yield new


def prune_unreachable(case):
    """drop base clauses that the wrapper no longer reaches (after unfolding / renaming / simplifying)"""
    base, wcl = case["base"], case["wrapper"]
    need = set()
    for cl in wcl:
        if cl["body"] is not None:
            need |= G.called(cl["body"])
    reach, todo = set(), list(need)
    while todo:
        p = todo.pop()
        if p in reach:
            continue
        reach.add(p)
        for cl in base:
            if p in G.head_preds([cl]) and cl["body"] is not None:
                todo.extend(G.called(cl["body"]))
    kept = [cl for cl in base if G.head_preds([cl]) <= reach]
    return case if len(kept) == len(base) else dict(case, base=kept)


def candidates(case):
    for c in _raw_candidates(case):
        yield prune_unreachable(c)


def well_formed(case):
    base, wcl, q = case["base"], case["wrapper"], case["query"]
    if not G.closed_and_relevant(base, wcl):
        return False
    # head variables of the wrapper must still be bound by its body (range restriction), and the query predicate defined
    for cl in wcl:
        hv = S.term_vars(cl["heads"][0][1])
        bv = S.term_vars(cl["body"]) if cl["body"] is not None else []
        if not set(hv) <= set(bv):
            return False
    for cl in base:
        if cl["body"] is not None:
            hp = G.head_preds([cl])
            if G.called(cl["body"]) & hp:
                return False  # no recursion in FF
            if any(h[0] in ("f", "g", "r") for _, h in cl["heads"]):
                return False  # fact predicates keep ground heads only (C13 clause-index attribution)
            hv = S.term_vars(cl["heads"][0][1])
            if not set(hv) <= set(S.term_vars(cl["body"])):
                return False
            # no negation before its variables are bound: keep negative literals only after a positive one
            b = cl["body"]
            first = b[1] if (S.is_compound(b) and b[0] == ",") else b
            if S.is_compound(first) and first[0] == "\\+":
                return False
    return True


def make_case(base, wcl, query):
    return {"base": base, "wrapper": wcl, "query": query, "program": G.program_text(base + wcl, query)}


_SYM_MEMO = {}
_MIN_MEMO = {}


def sym_of(c):
    """symptom of a case (memoised per worker: shrink paths of one root cause share most candidates)"""
    key = G.program_text(c["base"] + c["wrapper"], c["query"])
    if key not in _SYM_MEMO:
        if len(_SYM_MEMO) > 100000:
            _SYM_MEMO.clear()
        try:
            _SYM_MEMO[key] = judge(c["base"], c["wrapper"], c["query"], route=False)["sym"] if well_formed(c) else None
        except RuntimeError:
            _SYM_MEMO[key] = None
    return _SYM_MEMO[key]


def minimise(case, sym):
    key = (sym, case["program"])
    if key not in _MIN_MEMO:
        small = shrink(case, candidates, lambda c: sym_of(c) == sym, limit=400)
        _MIN_MEMO[key] = make_case(small["base"], small["wrapper"], small["query"])
    return _MIN_MEMO[key]


# ---------------------------------------------------------------------------------------------


class C19(Prop):
    pid = "C19"
    title = "findall/all in probabilistic programs follow the possible-world semantics"
    technique = ("bounded-exhaustive enumeration of grammar FF (facts / ADs / rules x findall/all wrappers) run through "
                 "the real default inference, compared with R1 total choices x Prolog (SLD) solution sequence per world")
    rule = ("every program of FF: statements from a 13-entry fact menu (probabilistic and deterministic facts over "
            "f/1 g/1 r/2, duplicate occurrences, ADs) + rules from a 10-rule menu (h/1, k/1: duplicates via two clauses, "
            "negation, joins, a probabilistic rule, negation of a derived predicate) + one wrapper (findall/3 or all/3 "
            "over 15 goals x templates X, X-Y, Y, constant, free-variable term; result list returned, measured with "
            "length/2, matched against [_|_], [_], [H|_], [a], [], negated, query pattern q([a|_]), context variable, "
            "two collectors, nested, via auxiliary predicate: 119 wrappers quick, 317 thorough).  quick: <=2 facts + "
            "<=1 rule and 3 facts + 0 rules; thorough: <=3 facts + <=1 rule (all wrappers) and <=2 facts + 2 rules "
            "(quick wrapper set).  Only closed programs in which every base statement is reachable from the wrapper, "
            "<=8 probabilistic choices; states = programs, transitions = possible worlds x wrapper evaluated by the "
            "reference; non-trivial = >=2 worlds of non-zero probability and >=2 distinct answers in the reference "
            "distribution")
    assumptions = [
        "probabilities compared with tolerance 1e-9; an instance reported with probability 0 is the same as not reported",
        "all/3: the repository's own test (test/findall_duplicates.pl) and YAP define all/3 as removing duplicate "
        "solutions; the statement reads 'duplicates included'.  A result is accepted if it matches either reading; "
        "both readings exclude []",
        "programs whose reference answer is non-ground (template variable not bound by the goal) are unjudged",
        "clause heads of one predicate are all ground or all non-ground, so the clause-index order defect owned by C13 "
        "cannot influence result order",
        "an 'order' violation whose minimised program has no probabilistic choice and uses findall/3 only is the "
        "deterministic findall order defect owned by C13 (counter owned_by_C13_deterministic_findall:order), not "
        "reported here; every other symptom of a deterministic program is reported",
        "timeouts (8 s CPU of the worker / 120 s wall) are unjudged; programs whose reference result list is longer than 9 elements are not run",
    ]
    budget = {"quick": 240, "thorough": 2400}

    def precheck(self, tier):
        n = 0
        nb = 0
        for fs, rs, _ in G.bases("quick"):
            b = BaseRef(G.base_clauses(fs, rs))
            if b.nchoices > MAX_CHOICES:
                continue
            n += b.selfcheck()
            nb += 1
            if nb >= 400:
                break
        # anchor from the statement of the task: duplicates are independent occurrences
        base = [G.fact("0.3", ["f", "a"]), G.fact("0.5", ["f", "a"])]
        wcl = [G.rule(["q", "L"], ["findall", "X", ["f", "X"], "L"])]
        d = distribution(BaseRef(base), wcl, ["q", "L"])["dist"]
        want = {"q([a,a])": Fraction(3, 20), "q([a])": Fraction(1, 2), "q([])": Fraction(7, 20)}
        if d != want:
            raise RuntimeError("reference anchor failed: %r" % (d,))
        return {"reference_selfcheck": "SLD evaluator = R1 well-founded model on %d worlds of %d base programs" % (n, nb)}

    def shards(self, tier):
        return [[tier, NSHARDS[tier], r] for r in range(NSHARDS[tier])]

    def run_shard(self, shard, tier, acc):
        _, mod, rem = shard
        wsets = {"quick": G.wrappers("quick"), "thorough": G.wrappers("thorough")}
        for bi, (fs, rs, wset) in enumerate(G.bases(tier)):
            if bi % mod != rem:
                continue
            base = G.base_clauses(fs, rs)
            todo = [(name, wc, q) for name, wc, q in wsets[wset] if G.closed_and_relevant(base, wc)]
            if not todo:
                continue
            bref = BaseRef(base)
            if bref.nchoices > MAX_CHOICES:
                acc.counters["skipped_more_than_%d_choices" % MAX_CHOICES] += len(todo)
                continue
            bref.selfcheck()
            acc.counters["base_programs"] += 1
            for name, wc, q in todo:
                if acc.expired():
                    acc.cap("wall budget reached inside shard")
                    return
                self.one(base, wc, q, bref, name, acc)

    def one(self, base, wc, q, bref, name, acc):
        r = judge(base, wc, q, bref)
        acc.evaluations += 1
        acc.states += 1
        nw = len(bref.worlds())
        acc.transitions += nw
        ref = r["ref"]
        kind = name.split(":")[0]
        if r["detail"].startswith("unjudged"):
            acc.counters[r["detail"] + "/" + r["outclass"]] += 1
            acc.outcomes[("unjudged", r["outclass"])] += 1
            if r["outclass"] == "timeout":
                acc.counters["timeout:" + name] += 1
                acc.notes.setdefault("timeout_example", r["src"])
            return
        acc.traces += 1
        if nw >= 2 and len(ref["dist"]) >= 2:
            acc.nontrivial += 1
        acc.counters["wrapper:" + kind] += 1
        if r["detail"] == "ok:all3-keeps-duplicates":
            acc.counters["all3_matches_duplicates_included_reading"] += 1
        elif r["sym"] is None and uses_all(wc):
            r2 = distribution(bref, wc, q, all_dedup=False)
            if r2["kind"] == "dist" and r2["dist"] != ref["dist"]:
                acc.counters["all3_matches_duplicates_removed_reading"] += 1
        acc.outcomes[(r["sym"] or "ok", r["outclass"], min(len(ref["dist"]), 9))] += 1
        acc.sample({"wrapper": name, "program": r["src"]}, limit=2)
        if r["sym"]:
            self.report(base, wc, q, r, acc)

    def report(self, base, wc, q, r, acc):
        sym = r["sym"]
        case = make_case(base, wc, q)
        small = minimise(case, sym)
        if sym == "order" and owned_by_c13(BaseRef(small["base"]), small["wrapper"]):
            # the order violation survives with every probabilistic choice removed: the deterministic findall/3
            # order defect that C13 owns (DESIGN 2.8); any other symptom is reported here
            acc.counters["owned_by_C13_deterministic_findall:" + sym] += 1
            acc.notes.setdefault("owned_by_C13_example", small["program"])
            return
        r2 = judge(small["base"], small["wrapper"], small["query"])
        extra = None
        key_case = small
        if sym.startswith("crash:") or sym.startswith("error-must-answer:"):
            key_case, extra = {"site": sym}, small
        acc.violation(sym, key_case, expected=r2["expected"], observed=r2["observed"], extra=extra,
                      what="%s: %s  [%s]" % (sym, small["program"].replace("\n", " "), r2["detail"]))

    def replay(self, case):
        r = judge(case["base"], case["wrapper"], case["query"])
        return dict(ok=r["sym"] is None, expected=r["expected"],
                    observed={"result": r["observed"], "symptom": r["sym"], "detail": r["detail"]})


PROP = C19()
