"""C26 subquery/2,3 computes the same probabilities as top-level inference (programs x goals x
evidence lists, oracle R1)."""
import re

from ..core import Prop
from ..gen import streams
from ..gen.programs import program_text, clause_text, _heads_of
from ..ref import worlds
from ..ref.worlds import atom_str, is_var
from .. import progcheck
from ..plrun import infer

TOL = 1e-8


def evidence_lists(prog):
    heads = [h for h in _heads_of(prog["clauses"]) if not any(is_var(t) for t in h[1])]
    res = [[]]
    if heads:
        res.append([[heads[0], True]])
        res.append([[heads[-1], False]])
        if len(heads) > 1:
            res.append([[heads[0], True], [heads[-1], False]])
            res.append([[heads[-1], False], [heads[0], True]])  # a negated literal before a positive one
            if len(heads) > 2:
                res.append([[heads[1], False], [heads[0], True], [heads[-1], True]])
            res.append([[heads[1], True]])
    out = []
    for r in res:
        if r not in out:
            out.append(r)
    return out


def wrapper_text(prog, evlist):
    lines = [clause_text(cl) for cl in prog["clauses"]]
    for i, q in enumerate(prog["queries"]):
        args = ",".join(q[1] + ["P"])
        goal = atom_str(q)
        if evlist:
            ev = "[" + ",".join(atom_str(a) if v else "\\+" + atom_str(a) for a, v in evlist) + "]"
            lines.append("sq%d(%s) :- subquery(%s, P, %s)." % (i, args, goal, ev))
        else:
            lines.append("sq%d(%s) :- subquery(%s, P)." % (i, args, goal))
        lines.append("query(sq%d(%s))." % (i, args))
    if evlist and prog["queries"]:
        # the same goal once more WITHOUT evidence, after the call with evidence (a subquery must not
        # remember the evidence of an earlier subquery on the same goal)
        q = prog["queries"][0]
        args = ",".join(q[1] + ["P"])
        lines.append("sqp0(%s) :- subquery(%s, P)." % (args, atom_str(q)))
        lines.append("query(sqp0(%s))." % args)
    return " ".join(lines)


def parse_results(res, prog, prefix="sq"):
    """{'sq0(c,0.3)': 1.0} -> {'p(c)': 0.3}, list of problems"""
    got = {}
    problems = []
    for k, v in res.items():
        if prefix == "sq" and k.startswith("sqp"):
            continue
        m = re.match(r"^%s(\d+)\((.*)\)$" % prefix, k.replace(" ", ""))
        if not m and prefix == "sqp":
            continue
        if not m:
            problems.append("unexpected result key %s" % k)
            continue
        qi = int(m.group(1))
        parts = m.group(2).split(",")
        pred = prog["queries"][qi][0]
        args, p = parts[:-1], parts[-1]
        name = pred if not args else "%s(%s)" % (pred, ",".join(args))
        try:
            pv = float(p)
        except ValueError:
            if v is not None and abs(v) > 1e-12:
                problems.append("probability argument not bound in %s" % k)
            continue
        if abs(v - 1.0) > 1e-9:
            if abs(v) < 1e-12:
                continue
            problems.append("wrapper answer %s has probability %r (deterministic wrapper)" % (k, v))
        if name in got and abs(got[name] - pv) > TOL:
            problems.append("two different probabilities for %s: %r and %r" % (name, got[name], pv))
        got[name] = pv
    return got, problems


def check(prog, evlist):
    """-> (symptom or None, detail)"""
    p2 = dict(prog, evidence=[[a, v, "pair"] for a, v in evlist])
    ref = progcheck.reference(p2)
    if ref["negcycle"]:
        return None, "skipped: negative cycle"
    if ref["kind"] != "answer":
        return None, "unjudged: P(evidence list) = 0"
    # attribution: top-level inference with the same evidence must itself be right
    dsym, _, _, dout = progcheck.judge(p2, ref=ref)
    if dsym is not None or dout[0] != "ok":
        return None, "excluded: top-level inference wrong (C01)"
    out = infer(wrapper_text(prog, evlist))
    if out[0] in ("timeout", "recursion"):
        return None, out[0]
    if out[0] == "crash":
        return "crash:%s@%s" % (out[1], out[2]), "internal exception"
    if out[0] == "error":
        return "error-must-answer:" + out[1], "subquery raised although top-level inference answers"
    got, problems = parse_results(out[1], prog)
    if problems:
        return "malformed-answer", problems[0]
    cond = ref["cond"]
    for name, pv in got.items():
        if name in cond:
            if abs(pv - cond[name]) > TOL:
                return "wrong-probability", "subquery gives %s: %r, conditional probability %.10g" % (name, pv, cond[name])
        elif progcheck.is_nonground_key(name):
            if abs(pv) > TOL:
                return "wrong-probability", "non-ground answer %s with %r" % (name, pv)
        else:
            return "unexpected-instance", "%s (%r)" % (name, pv)
    for name, p in cond.items():
        if p > TOL and name not in got:
            return "missing-instance", "%s not returned, expected %.10g" % (name, p)
    if evlist and prog["queries"]:
        p0 = dict(prog, evidence=[], queries=[prog["queries"][0]])
        ref0 = progcheck.reference(p0)
        if ref0["kind"] == "answer" and not ref0["negcycle"] and progcheck.judge(p0, ref=ref0)[0] is None:
            got0, problems = parse_results(out[1], prog, prefix="sqp")
            for name, pv in got0.items():
                if name in ref0["cond"] and abs(pv - ref0["cond"][name]) > TOL:
                    return ("evidence-remembered", "subquery without evidence after one with evidence gives %s: %r, "
                            "unconditional probability %.10g" % (name, pv, ref0["cond"][name]))
            for name, p in ref0["cond"].items():
                if p > TOL and name not in got0:
                    return "evidence-remembered", "%s not returned by the later subquery without evidence" % name
    return None, ""


class C26(Prop):
    pid = "C26"
    title = "subquery/2,3 computes the same probabilities as top-level inference"
    technique = ("programs x goals x evidence lists: a deterministic wrapper rule calling subquery/2 or subquery/3 on every "
                 "query goal (ground and non-ground) is added to each generated program and run through the real pipeline; "
                 "the probability bound by subquery is compared with the possible-world reference conditioned on the list")
    rule = ("states = (program, evidence list) pairs with P(list) > 0 whose top-level inference is correct; transitions = "
            "wrapper answers compared; evidence lists: [], [+h], [-h], [+h1,-h2] over the program's ground heads")
    families = {"quick": [("FSQ", 2), ("F3.1", 16), ("F2.2", 8), ("F1.2q", 96), ("F2.3", 48), ("F1.1", 4)],
                "thorough": [("FSQ", 2), ("F3.2", 96), ("F2.3", 48), ("F1.3s", 48), ("F1.2q", 128), ("F3.1", 16), ("F2.2", 8), ("F1.1", 4)]}
    budget = {"quick": 300, "thorough": 2400}

    def shards(self, tier):
        return [[fam, mod, r] for fam, mod in self.families[tier] for r in range(mod)]

    def run_shard(self, shard, tier, acc):
        fam, mod, rem = shard
        for idx, prog in streams.shard_stream(fam, tier, mod, rem):
            if acc.expired():
                acc.cap("wall budget reached in family %s" % fam)
                break
            if prog.get("evidence"):
                continue  # the evidence dimension is supplied through the list argument
            for evlist in evidence_lists(prog):
                sym, detail = check(prog, evlist)
                acc.evaluations += 1
                acc.traces += 1
                acc.states += 1
                acc.transitions += len(prog["queries"])
                if evlist:
                    acc.nontrivial += 1
                acc.outcomes[sym or detail.split(":")[0] or "ok"] += 1
                acc.sample({"family": fam, "index": idx, "program": wrapper_text(prog, evlist)}, limit=2)
                if sym:
                    def fails(p, evlist=evlist, sym=sym):
                        if not progcheck.closed(dict(p, evidence=[[a, v, "pair"] for a, v in evlist])):
                            return False
                        return check(p, evlist)[0] == sym

                    small = progcheck.minimise(prog, fails, limit=80)
                    s2, d2 = check(small, evlist)
                    if s2 != sym:
                        small = prog
                        s2, d2 = check(small, evlist)
                    case = {"program": wrapper_text(small, evlist), "ast": small, "evidence_list": evlist}
                    extra = None
                    if sym.startswith("crash:"):
                        case, extra = {"site": sym}, case
                    acc.violation(sym, case, extra=extra, expected="P(goal | evidence list) of the reference", observed=d2,
                                  what="%s: %s [%s]" % (sym, wrapper_text(small, evlist), d2))

    def replay(self, case):
        sym, detail = check(case["ast"], case["evidence_list"])
        return dict(ok=sym is None, expected="P(goal | evidence list) of the reference", observed={"symptom": sym, "detail": detail})


PROP = C26()
