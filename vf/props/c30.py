"""C30 invalid probability annotations are rejected (E3 over annotation values x program shapes x
{probability, log-probability})."""
import itertools
from fractions import Fraction

from ..core import Prop
from ..plrun import infer_cli

# (text, exact value)
VALUES = [("-0.5", Fraction(-1, 2)), ("-0.001", Fraction(-1, 1000)), ("0", Fraction(0)), ("0.0", Fraction(0)),
          ("0.5", Fraction(1, 2)), ("1", Fraction(1)), ("1.0", Fraction(1)), ("1.001", Fraction(1001, 1000)),
          ("1.5", Fraction(3, 2)), ("2", Fraction(2)), ("1/2", Fraction(1, 2)), ("3/2", Fraction(3, 2)),
          ("0.5+0.7", Fraction(6, 5)), ("0.2+0.3", Fraction(1, 2)), ("-0.1", Fraction(-1, 10)), ("2-1.5", Fraction(1, 2)),
          ("0.5*4", Fraction(2)),
          # not-a-number and infinite annotations are outside [0,1] as well (the oracle only needs "invalid":
          # they are given the out-of-range stand-in value 2)
          ("nan", Fraction(2)), ("inf", Fraction(2)), ("inf-inf", Fraction(2)), ("0*inf", Fraction(2))]
AD_SETS = [["0.6", "0.6"], ["0.5", "0.5"], ["0.5", "0.5", "0.001"], ["0.4", "0.4", "0.4"], ["0.3", "0.3", "0.3"],
           ["0.9", "0.2"], ["0.5", "0.501"], ["1", "0.001"], ["0.2", "0.3"], ["1.5", "0.1"], ["-0.2", "0.5"],
           ["1/2", "2/3"], ["1/2", "1/3"]]
VAL = dict(VALUES)
for s_ in AD_SETS:
    for t in s_:
        VAL.setdefault(t, Fraction(t))
HEADS = ["a", "b", "c"]


def cases(tier):
    """yields (text, expected_invalid: True/False/None(unjudged), core) where core names the
    statement carrying the invalid annotation and whether every head of it is grounded by the
    query (violations are keyed by symptom + core: one listed finding per invalid statement shape,
    not per surrounding program)"""
    for src, bad, core in _cases(tier):
        yield src, bad, core


def _cases(tier):
    for txt, v in VALUES:
        bad = v < 0 or v > 1
        core = {"statement": "%s::a" % txt, "grounded": "all"}
        yield "%s::a. query(a)." % txt, bad, core
        yield "%s::a. 0.5::b. q :- a, b. query(q)." % txt, bad, core
        yield "0.5::b. %s::a. q :- b. q :- a. query(q)." % txt, bad, core
        yield "%s::a :- b. 0.5::b. query(a)." % txt, bad, dict(core, statement="%s::a :- b" % txt)
        yield "%s::a(1). q :- a(X). query(q)." % txt, bad, core
        yield "%s::a. 0.5::b. query(b). evidence(a)." % txt, bad, core
        # the invalid fact is irrelevant to the query: not judged
        yield "%s::a. 0.5::b. query(b)." % txt, (None if bad else False), core
        yield ("%s::a; 0.2::b. query(a)." % txt, (True if bad else (v + Fraction(1, 5) > 1)),
               {"statement": "%s::a; 0.2::b" % txt, "grounded": "some"})
    for probs in AD_SETS:
        vals = [VAL[p] for p in probs]
        bad = any(v < 0 or v > 1 for v in vals) or sum(vals) > 1
        heads = HEADS[: len(probs)]
        adtxt = "; ".join("%s::%s" % (p, h) for p, h in zip(probs, heads))
        for r in range(1, len(heads) + 1):
            for qs in itertools.combinations(heads, r):
                q = " ".join("query(%s)." % h for h in qs)
                core = {"statement": adtxt, "grounded": "all" if len(qs) == len(heads) else "some"}
                yield "%s. %s" % (adtxt, q), bad, core
                yield "%s :- d. 0.5::d. %s" % (adtxt, q), bad, dict(core, statement=adtxt + " :- d")
        core = {"statement": adtxt, "grounded": "some"}
        yield "%s. q :- %s. query(q)." % (adtxt, heads[0]), bad, core
        yield "%s. q :- \\+%s. query(q)." % (adtxt, heads[-1]), bad, core
        yield "%s. 0.5::d. query(d). evidence(%s)." % (adtxt, heads[0]), bad, core
        if tier == "thorough":
            fo = "; ".join("%s::%s(X)" % (p, h) for p, h in zip(probs, heads))
            for r in range(1, len(heads) + 1):
                for qs in itertools.combinations(heads, r):
                    q = " ".join("query(%s(1))." % h for h in qs)
                    yield ("%s :- n(X). n(1). n(2). %s" % (fo, q), bad,
                           {"statement": fo + " :- n(X)", "grounded": "all" if len(qs) == len(heads) else "some"})


class C30(Prop):
    pid = "C30"
    title = "Invalid probability annotations are rejected"
    technique = ("bounded-exhaustive enumeration of probability annotations (inside, on and outside [0,1], arithmetic "
                 "expressions) on facts, rules and annotated disjunctions with every subset of heads queried, run through "
                 "the real pipeline with the probability and the log-probability semiring; oracle: exact rational arithmetic")
    rule = ("states = program texts; transitions = (program, semiring) executions; non-trivial = program with an annotation "
            "outside [0,1] or an AD whose probabilities sum to more than 1 (values within 1e-9 of a bound are not generated)")
    assumptions = ["an invalid annotation on a clause the query does not depend on is not judged"]

    def shards(self, tier):
        return list(range(16))

    def run_shard(self, shard, tier, acc):
        for i, (src, bad, core) in enumerate(cases(tier)):
            if i % 16 != shard:
                continue
            acc.states += 1
            if bad:
                acc.nontrivial += 1
            acc.sample({"program": src, "expected_invalid": bad}, limit=2)
            for logspace in (False, True):
                out = infer_cli(src, {"logspace": logspace})
                acc.evaluations += 1
                acc.traces += 1
                acc.transitions += 1
                sym = self.symptom(bad, out)
                acc.outcomes[(bad, out[0] if out[0] != "error" else out[1], sym or "ok")] += 1
                if bad is None:
                    acc.counters["unjudged_irrelevant_invalid_annotation"] += 1
                if sym:
                    case = dict(core, logspace=logspace)
                    extra = {"program": src}
                    if sym.startswith("crash:"):
                        case, extra = {"site": sym}, {"program": src, "logspace": logspace}
                    acc.violation(sym, case, extra=extra, expected="InvalidValue" if bad else "probabilities",
                                  observed=out, what="%s: %s (logspace=%s) -> %s" % (sym, src, logspace, out))

    @staticmethod
    def symptom(bad, out):
        if out[0] in ("timeout", "recursion"):
            return None
        if out[0] == "crash":
            return "crash:%s@%s" % (out[1], out[2])
        if bad is None:
            return None
        if bad:
            if out[0] == "ok":
                return "invalid-probability-answered"
            if out[0] == "error" and out[1] != "InvalidValue":
                return "wrong-error:" + out[1]
            return None
        if out[0] == "error" and out[1] == "InvalidValue":
            return "valid-probability-rejected"
        return None

    def replay(self, case):
        src = case["program"]
        exp = dict((s, b) for s, b, _ in cases("thorough")).get(src)
        out = infer_cli(src, {"logspace": case.get("logspace", False)})
        sym = self.symptom(exp, out)
        return dict(ok=sym is None, expected="InvalidValue" if exp else "probabilities", observed=out)


PROP = C30()
