"""C22 sampling draws from the program's distribution — decided exactly by exploring the weighted
choice tree of one sampling attempt of the real sampler (every comparison of a random draw with a
threshold is a choice point carrying the branch masses), no statistics."""
import collections
import random as _random
from fractions import Fraction

from ..core import Prop, watchdog, WatchdogTimeout
from ..explore import Chooser, explore_full
from ..gen import streams
from ..gen.programs import program_text, _heads_of
from ..ref import worlds
from ..plrun import classify_exception
from .. import progcheck

TOL = 1e-9
CUR = None


class Rejected(Exception):
    pass


class DecisionFloat(float):
    def __lt__(self, other):
        return CUR.choose(2, float(other)) == 0

    def __le__(self, other):
        return CUR.choose(2, float(other)) == 0


class DecisionRandom(_random.Random):
    def random(self):
        return DecisionFloat(0.5)


_installed = False


def install():
    """replace the module-level random source of problog.tasks.sample and make a rejected attempt
    visible (the sampler would silently retry)"""
    global _installed
    import problog.tasks.sample as S

    if _installed:
        return S
    S.random = DecisionRandom()
    orig = S.verify_evidence

    def verify(engine, db, ev_target, q_target):
        ok = orig(engine, db, ev_target, q_target)
        if not ok:
            raise Rejected()
        return ok

    S.verify_evidence = verify
    _installed = True
    return S


def mass_of(trace):
    m = 1.0
    for n, t, c in trace:
        t = min(max(t, 0.0), 1.0)
        m *= t if c == 0 else 1.0 - t
    return m


def attempt(src, prefix, mode, propagate_evidence):
    """one sampling attempt under the schedule ``prefix``"""
    global CUR
    import io
    import contextlib
    from problog.program import PrologString

    S = install()
    CUR = Chooser(prefix)
    try:
        if mode == "sample":
            gen = S.sample(PrologString(src), n=1, format="str", propagate_evidence=propagate_evidence,
                           with_probability=True, as_evidence=True, oneline=True)
            text = next(gen)
            out = ("accept", text)
        else:
            with contextlib.redirect_stdout(io.StringIO()):
                est = S.estimate(PrologString(src), n=1, propagate_evidence=propagate_evidence)
            out = ("accept", {str(k): v for k, v in est.items()})
    except Rejected:
        out = ("reject", None)
    return CUR.trace, out


def parse_sample(text):
    """'evidence(a). evidence(\\+b). % Probability: 0.06' -> ({'a': True, 'b': False}, 0.06)"""
    body, _, prob = text.partition("% Probability:")
    vals = {}
    for part in body.split("evidence(")[1:]:
        atom = part.rsplit(")", 1)[0].strip()
        if atom.startswith("\\+"):
            vals[atom[2:].replace(" ", "")] = False
        else:
            vals[atom.replace(" ", "")] = True
    return vals, float(prob)


def reference_joint(prog):
    """{frozenset of true query atoms: P(assignment and evidence)}, P(e), world probabilities by
    assignment (for the printed probability), flags"""
    gp = worlds.GroundProgram(prog)
    qatoms = [worlds.atom_str(q) for q in prog["queries"]]
    ev = [(worlds.atom_str(e[0]), bool(e[1])) for e in prog.get("evidence", [])]
    universe = gp.atoms() | set(qatoms) | set(a for a, _ in ev)
    joint = collections.defaultdict(Fraction)
    pe = Fraction(0)
    for pw, rules, combo in gp.worlds():
        T, U = worlds.wfm(rules, universe)
        if T != U:
            return None
        if all((a in T) == v for a, v in ev):
            pe += pw
            joint[frozenset(a for a in qatoms if a in T)] += pw
    return dict(joint=joint, pe=pe, qatoms=qatoms, negcycle=gp.has_negative_cycle())


def all_choice_facts(prog):
    """every probabilistic clause is a fact / AD fact and no atom is defined twice"""
    seen = []
    for cl in prog["clauses"]:
        if any(p is not None for p, _ in cl["heads"]):
            if cl["body"]:
                return False
        for _, h in cl["heads"]:
            if h in seen and any(p is not None for p, _ in cl["heads"]):
                return False
            seen.append(h)
    return True


def check_program(prog, propagate_evidence):
    """-> (symptom or None, detail, stats)"""
    st = {"leaves": 0, "points": 0}
    ref = reference_joint(prog)
    if ref is None or ref["negcycle"]:
        return None, "skipped: not two-valued / negative cycle", st
    src = program_text(prog)
    dist = collections.defaultdict(float)
    est_sum = collections.defaultdict(float)
    acc_mass = 0.0
    total = 0.0
    judge_printed = all_choice_facts(prog)
    try:
        with watchdog(60):
            for mode in ("sample", "estimate"):
                for choices, out, trace in explore_full(lambda prefix: attempt(src, prefix, mode, propagate_evidence),
                                                        max_exec=5000):
                    m = mass_of(trace)
                    st["leaves"] += 1
                    st["points"] += len(trace)
                    if m <= 0.0:
                        continue
                    if mode == "estimate":
                        if out[0] == "accept":
                            for k, v in out[1].items():
                                est_sum[k.replace(" ", "")] += m * v
                        continue
                    total += m
                    if out[0] != "accept":
                        continue
                    acc_mass += m
                    vals, printed = parse_sample(out[1])
                    truth = frozenset(a for a in ref["qatoms"] if vals.get(a, False))
                    missing = [a for a in ref["qatoms"] if a not in vals]
                    if missing:
                        return "sample-omits-query", "query %s not in sample %r" % (missing, out[1]), st
                    # (i) consistent with the evidence
                    if ref["joint"].get(truth, 0) == 0:
                        return ("sample-inconsistent-with-evidence",
                                "accepted sample %r has probability 0 given the evidence" % (out[1],), st)
                    # (ii) printed probability = product of the choices made (= mass of the leaf)
                    if abs(printed - m) > 1e-7 * max(1.0, m) and judge_printed:
                        return ("printed-probability",
                                "sample %r printed %.8g, product of choices made %.8g" % (out[1], printed, m), st)
                    dist[truth] += m
    except WatchdogTimeout:
        return None, "timeout", st
    except RuntimeError as e:
        if "choice tree larger" in str(e):
            return None, "capped: tree too large", st
        c = classify_exception(e)
        return "crash:%s@%s" % (c[1], c[2]), "internal exception", st
    except Exception as exc:  # noqa
        c = classify_exception(exc)
        if c[0] == "error":
            return None, "error:" + c[1], st
        return "crash:%s@%s" % (c[1], c[2]), "internal exception", st
    pe = float(ref["pe"])
    if abs(total - 1.0) > 1e-9:
        return "tree-mass", "leaf masses sum to %.12g" % total, st
    if pe == 0:
        if acc_mass > TOL:
            return "sample-inconsistent-with-evidence", "P(e)=0 but accept mass %.6g" % acc_mass, st
        return None, "P(e)=0", st
    if acc_mass <= 0:
        return "never-accepts", "P(e)=%.6g but no attempt is accepted" % pe, st
    # (iii) output distribution = conditional distribution
    keys = set(dist) | set(ref["joint"])
    for k in keys:
        got = dist.get(k, 0.0) / acc_mass
        exp = float(ref["joint"].get(k, 0) / ref["pe"])
        if abs(got - exp) > 1e-9:
            return ("wrong-distribution",
                    "P(sample = {%s}) = %.10g, conditional probability %.10g" % (",".join(sorted(k)), got, exp), st)
    # (iv) expectation of the estimator
    for a in ref["qatoms"]:
        exp = float(sum(p for k, p in ref["joint"].items() if a in k) / ref["pe"])
        got = est_sum.get(a, 0.0) / acc_mass
        if abs(got - exp) > 1e-9:
            return "wrong-estimate", "E[estimate(%s)] = %.10g, P(q|e) = %.10g" % (a, got, exp), st
    return None, "", st


def with_all_queries(prog):
    if prog.get("text"):
        return prog
    heads = _heads_of(prog["clauses"])
    return dict(prog, queries=[h for h in heads if not any(worlds.is_var(t) for t in h[1])])


class C22(Prop):
    pid = "C22"
    title = "Sampling draws from the program's distribution"
    technique = ("exhaustive exploration of the weighted choice tree of one sampling attempt of the real sample task "
                 "(random.random replaced by a decision float: each comparison with a threshold t branches with masses "
                 "t / 1-t); exact comparison of the induced output distribution, printed probabilities and estimator "
                 "expectation with the possible-world reference")
    rule = ("states = (program, propagate_evidence) pairs; transitions = choice points executed over all leaves of the "
            "tree; the Hoeffding test of the quantifier is replaced by equality of the exact output distribution with "
            "P(. | evidence), which implies convergence of frequencies; non-trivial = tree with >= 2 accepted leaves")
    assumptions = ["continuous distributions are outside the statement",
                   "printed probability is judged when every probabilistic clause is a fact/AD fact (all choices made)"]
    families = {"quick": [("FDUP", 4), ("FLEX", 10), ("F2.2", 16), ("F1.2q", 64), ("F2.3", 192), ("F1.1", 4)],
                "thorough": [("F1.2q", 64), ("FDUP", 4), ("FLEX", 10), ("F2.3", 192), ("F1.2/8", 64), ("F2.4/8", 64), ("F1.3s", 48), ("F2.2", 16), ("F1.1", 4)]}
    budget = {"quick": 300, "thorough": 2400}

    def shards(self, tier):
        return [[fam, mod, r] for fam, mod in self.families[tier] for r in range(mod)]

    def run_shard(self, shard, tier, acc):
        fam, mod, rem = shard
        for idx, prog in streams.shard_stream(fam, tier, mod, rem):
            if acc.expired():
                acc.cap("wall budget reached in family %s" % fam)
                break
            # two query decorations: every head queried (a sample then determines the choices made)
            # and the program's own queries (evidence may then touch choices no query touched)
            variants = [(with_all_queries(prog), pe) for pe in (False, True)]
            if prog.get("evidence") and prog["queries"] != variants[0][0]["queries"]:
                variants += [(prog, pe) for pe in (False, True)]
            for prog, pe in variants:
                sym, detail, st = check_program(prog, pe)
                acc.evaluations += st["leaves"]
                acc.traces += 1
                acc.states += 1
                acc.transitions += st["points"]
                if st["leaves"] >= 4:
                    acc.nontrivial += 1
                acc.outcomes[sym or detail.split(":")[0] or "ok"] += 1
                acc.sample({"family": fam, "index": idx, "program": program_text(prog), "propagate_evidence": pe}, limit=2)
                if sym:
                    def fails(p, pe=pe, sym=sym):
                        return check_program(p, pe)[0] == sym

                    small = progcheck.minimise(prog, fails, limit=120, strong=True)
                    s2, d2, _ = check_program(small, pe)
                    case = {"program": program_text(small), "ast": small, "propagate_evidence": pe}
                    extra = None
                    if sym.startswith("crash:"):
                        case, extra = {"site": sym}, case
                    acc.violation(sym, case, extra=extra, expected="samples distributed as P(. | evidence)", observed=d2,
                                  what="%s (propagate_evidence=%s): %s [%s]" % (sym, pe, program_text(small), d2))

    def replay(self, case):
        sym, detail, st = check_program(case["ast"], case["propagate_evidence"])
        return dict(ok=sym is None, expected="samples distributed as P(. | evidence)", observed={"symptom": sym, "detail": detail})


PROP = C22()
