"""C10 compiled d-DNNF is a valid, equivalent circuit.  Every CNF produced from the program
grammars is compiled with the bundled dsharp through the real DDNNF.create_from; the circuit is
checked node by node (decomposable, smooth) and by exhaustive enumeration (deterministic, same
models as the CNF, labels, weights)."""
import itertools

from ..core import Prop, watchdog, WatchdogTimeout
from ..gen import streams
from ..gen.programs import program_text
from ..ref import boolgraph as B
from .. import progcheck
from ..plrun import classify_exception

MAX_VARS = {"quick": 12, "thorough": 16}


def compile_case(src, **kw):
    from problog.program import PrologString
    from problog.formula import LogicFormula, LogicDAG
    from problog.cnf_formula import CNF
    from problog.ddnnf_formula import DDNNF

    try:
        lf = LogicFormula.create_from(PrologString(src), **kw)
        dag = LogicDAG.create_from(lf, **kw)
        cnf = CNF.create_from(dag)
    except Exception as exc:  # noqa
        # an exception before compilation is not this property's business (C01/C02/C09/C27 own it)
        raise NotCompiled(exc)
    nnf = DDNNF.create_from(cnf)
    return cnf, nnf


class NotCompiled(Exception):
    pass


def check_circuit(cnf, nnf, max_vars):
    st = {"assignments": 0, "nodes": 0}
    nodes = B.extract(nnf)
    st["nodes"] = len(nodes)
    byidx = {i: (t, pl) for i, t, pl in nodes}
    varsets = {}
    # variable sets bottom-up (children precede parents in a DDNNF built by add_and/add_or)
    for i, t, pl in nodes:
        if t == "atom":
            varsets[i] = frozenset([pl])
        else:
            vs = []
            for c in pl:
                if c in (0, None):
                    vs.append(frozenset())
                elif abs(c) not in varsets:
                    return "circuit-not-topological", "node %d refers to later node %d" % (i, abs(c)), st
                else:
                    vs.append(varsets[abs(c)])
            if t == "conj":
                for a, b in itertools.combinations(vs, 2):
                    if a & b:
                        return "not-decomposable", "AND node %d: children share variables %s" % (i, sorted(a & b)), st
            else:
                if len(set(vs)) > 1:
                    return "not-smooth", "OR node %d: children mention different variables" % i, st
            varsets[i] = frozenset().union(*vs) if vs else frozenset()
    clauses = B.clauses_of(cnf)
    nvars = cnf.atomcount
    # weights carried
    wc, wn = cnf.get_weights(), nnf.get_weights()
    for i, t, pl in nodes:
        if t == "atom":
            if str(wn.get(i)) != str(wc.get(pl, True)):
                return "weights-not-carried", "variable %s: circuit %s cnf %s" % (pl, wn.get(i), wc.get(pl, True)), st
    if len(list(nnf.constraints())) != len(list(cnf.constraints())):
        return "constraints-not-carried", "%d vs %d" % (len(list(nnf.constraints())), len(list(cnf.constraints()))), st
    names_c = {(str(n), l): k for n, k, l in cnf.get_names_with_label()}
    names_n = {(str(n), l): k for n, k, l in nnf.get_names_with_label()}
    if set(names_c) != set(names_n):
        return "names-not-carried", "%r vs %r" % (sorted(names_c), sorted(names_n)), st
    if nvars > max_vars:
        return None, "capped: %d variables" % nvars, st
    g = B.Graph(nodes)
    atom_of_var = {pl: i for i, t, pl in nodes if t == "atom"}
    root = len(nodes)  # the last node is the root of the compiled circuit
    is_trivial = cnf.is_trivial()
    for bits in itertools.product((False, True), repeat=nvars):
        st["assignments"] += 1
        val = {v + 1: b for v, b in enumerate(bits)}
        sat = B.satisfied(clauses, val)
        cv = g.evaluate({atom_of_var[v]: b for v, b in val.items() if v in atom_of_var})
        # determinism: at most one child of every OR node is true
        for i, t, pl in nodes:
            if t == "disj" and sum(1 for c in pl if g.key_value(c, cv)) > 1:
                return "not-deterministic", "OR node %d has two true children under %s" % (i, val), st
        circ = cv.get(root, True) if nodes else True
        if circ != sat:
            return "models-differ", "assignment %s: cnf %s circuit %s" % (val, sat, circ), st
        if sat:
            for key, lit in names_c.items():
                lv = B.Graph.key_value(g, lit, val) if lit not in (0, None) else (lit == 0)
                nk = names_n[key]
                nv = g.key_value(nk, cv)
                if lv != nv:
                    return "label-differs", "%s: cnf literal %s is %s, circuit node %s is %s" % (key[0], lit, lv, nk, nv), st
    return None, "", st


def run_case(prog, tier):
    try:
        with watchdog(30):
            # programs that repeat a clause or a body literal are compiled with keep_duplicates (the
            # documented option that lets repeated literals reach the CNF)
            kw = {"keep_duplicates": True} if prog.get("keep_duplicates") else {}
            cnf, nnf = compile_case(program_text(prog), **kw)
            return check_circuit(cnf, nnf, MAX_VARS[tier])
    except WatchdogTimeout:
        return None, "timeout", {}
    except RecursionError:
        return None, "recursion", {}
    except NotCompiled as exc:
        return None, "error:" + type(exc.args[0]).__name__, {}
    except Exception as exc:  # noqa
        c = classify_exception(exc)
        if c[0] == "error":
            return None, "error:" + c[1], {}
        return "crash:%s@%s" % (c[1], c[2]), "internal exception", {}


API_WEIGHTS = [0.0, 0, 1, 1.0, 0.3, (0.2, 0.9)]
API_SHAPES = ["and", "or", "atom", "facts", "notor"]


def api_cases():
    """ground programs built through the LogicFormula API (weights are plain Python numbers / pairs, not
    parsed Constants): two atoms with every pair of weights x formula shape"""
    for shape in API_SHAPES:
        for w1 in API_WEIGHTS:
            for w2 in API_WEIGHTS:
                yield {"shape": shape, "w": [w1, w2]}


def compile_api(case):
    from problog.formula import LogicFormula, LogicDAG
    from problog.logic import Term
    from problog.cnf_formula import CNF
    from problog.ddnnf_formula import DDNNF

    lf = LogicFormula()
    ws = [tuple(w) if isinstance(w, list) else w for w in case["w"]]
    a = lf.add_atom(1, ws[0], name=Term("a"))
    b = lf.add_atom(2, ws[1], name=Term("b"))
    shape = case["shape"]
    if shape == "and":
        q = lf.add_and([a, b])
    elif shape == "or":
        q = lf.add_or([a, b])
    elif shape == "notor":
        q = lf.add_or([-a, b])
    else:
        q = a
    lf.add_name(Term("q"), q, lf.LABEL_QUERY)
    if shape == "facts":
        lf.add_name(Term("b"), b, lf.LABEL_QUERY)
    dag = LogicDAG.create_from(lf)
    cnf = CNF.create_from(dag)
    nnf = DDNNF.create_from(cnf)
    return cnf, nnf


def run_api_case(case, tier):
    try:
        with watchdog(30):
            cnf, nnf = compile_api(case)
            return check_circuit(cnf, nnf, MAX_VARS[tier])
    except WatchdogTimeout:
        return None, "timeout", {}
    except Exception as exc:  # noqa
        c = classify_exception(exc)
        if c[0] == "error":
            return None, "error:" + c[1], {}
        return "crash:%s@%s" % (c[1], c[2]), "internal exception", {}


class C10(Prop):
    pid = "C10"
    title = "Compiled d-DNNF is a valid, equivalent circuit"
    technique = ("every CNF produced from the program grammars (and from a small grammar of formulas built through the "
                 "LogicFormula API with plain Python weights) is compiled by the bundled dsharp through the real "
                 "DDNNF.create_from; decomposability and smoothness by variable-set computation on every node, determinism, "
                 "model equivalence and label correctness by enumerating ALL assignments of the CNF variables")
    rule = ("states = CNFs (one per generated program with evidence/queries); transitions = assignments enumerated; "
            "non-trivial = CNF with >= 3 variables that is not trivial; CNFs above the variable bound get structural "
            "checks only (counted as capped)")
    families = {"quick": [("FDUP", 4), ("F1.1dup", 4), ("FT", 8), ("FC3", 32), ("F2.3", 48), ("F3.1", 16), ("F1.3s", 32), ("F2.2", 8), ("F1.1", 4)],
                "thorough": [("FDUP", 4), ("F1.1dup", 4), ("FT", 8), ("FC3", 32), ("FC3g/8", 64), ("F3.2", 96), ("F2.4/4", 64), ("F2.3", 48), ("F1.2", 128), ("F1.3s", 32), ("F3.1", 16), ("F2.2", 8), ("F1.1", 4)]}
    budget = {"quick": 300, "thorough": 2400}

    def shards(self, tier):
        return [["API", 1, 0]] + [[fam, mod, r] for fam, mod in self.families[tier] for r in range(mod)]

    def run_api(self, tier, acc):
        for case in api_cases():
            sym, detail, st = run_api_case(case, tier)
            acc.evaluations += 1
            acc.states += 1
            acc.traces += 1
            acc.transitions += st.get("assignments", 0)
            acc.outcomes[sym or detail.split(":")[0] or "ok"] += 1
            acc.sample({"family": "API", "case": case}, limit=1)
            if sym:
                c2 = dict(case, kind="api")
                extra = None
                if sym.startswith("crash:"):
                    c2, extra = {"site": sym}, c2
                acc.violation(sym, c2, extra=extra, expected="valid d-DNNF equivalent to the CNF", observed=detail,
                              what="%s: API-built formula %s [%s]" % (sym, case, detail))

    def run_shard(self, shard, tier, acc):
        fam, mod, rem = shard
        if fam == "API":
            return self.run_api(tier, acc)
        for idx, prog0 in streams.shard_stream(fam, tier, mod, rem):
          for prog in ([prog0, dict(prog0, keep_duplicates=True)] if fam == "F1.1dup" else [prog0]):
            if acc.expired():
                acc.cap("wall budget reached in family %s" % fam)
                break
            sym, detail, st = run_case(prog, tier)
            acc.evaluations += 1
            acc.states += 1
            acc.traces += 1
            acc.transitions += st.get("assignments", 0)
            if st.get("assignments", 0) >= 8 and st.get("nodes", 0) > 3:
                acc.nontrivial += 1
            acc.outcomes[sym or detail.split(":")[0] or "ok"] += 1
            acc.sample({"family": fam, "index": idx, "program": program_text(prog)}, limit=2)
            if sym:
                def fails(p):
                    return run_case(p, tier)[0] == sym

                small = progcheck.minimise(prog, fails, limit=80)
                s2, d2, _ = run_case(small, tier)
                case = {"program": program_text(small), "ast": small}
                extra = None
                if sym.startswith("crash:"):
                    case, extra = {"site": sym}, case
                acc.violation(sym, case, extra=extra, expected="valid d-DNNF equivalent to the CNF", observed=d2,
                              what="%s: %s [%s]" % (sym, program_text(small), d2))

    def replay(self, case):
        if case.get("kind") == "api":
            sym, detail, st = run_api_case(case, "thorough")
            return dict(ok=sym is None, expected="valid d-DNNF equivalent to the CNF", observed={"symptom": sym, "detail": detail})
        sym, detail, st = run_case(case["ast"], "thorough")
        return dict(ok=sym is None, expected="valid d-DNNF equivalent to the CNF", observed={"symptom": sym, "detail": detail})


PROP = C10()
