"""C18 - term == is an equivalence consistent with hash, and for ground terms equals unification
identity (E3: full matrix over a finite universe of constructed and parsed terms).

Universe.  Every entry is a JSON *recipe* that is rebuilt into a fresh ProbLog object:

    ["T", functor, r1, ..., rn]   Term(functor, *args)             ["C", value]   Constant(int|float|str)
    ["V", name]                   Var(name)                        ["N", f, r]    Not(f, child), f in {"\\\\+", "not"}
    ["And", r1, r2] ["Or", r1, r2]                                 ["L", r1, ..]  list2term([...])
    ["P", text]                   Term.from_string(text)           (the same terms obtained from the parser)
    ["Pr", p, r]                  r.with_probability(Constant(p))  (== and hash ignore the annotation)

Leaves (atoms a b 'a' 'A b' [] '1' f true, Constant of int / float / str incl. 'a', '1', "a", strings,
variables X Y _), the special constructors (Not with both functors, And, Or, lists) and their plain
Term counterparts, unary and binary compounds over the leaves, a second nesting level, and for every
printable recipe its parsed twin.  quick ~ 210 entries, thorough ~ 900.

Checks (all ordered pairs, all triples through bitset rows):
    reflexivity  a == a                      symmetry  (a == b) = (b == a)
    transitivity a == b, b == c => a == c     hash      a == b => hash(a) == hash(b)
    ground pairs a == b  <=>  problog.engine_unify.unify_value(a, b, {}) does not raise UnifyError
"""
import re

from ..core import Prop, shrink, canon

QUICK_LEAVES = [
    ["T", "a"], ["T", "b"], ["T", "'a'"], ["T", "'A b'"], ["T", "[]"], ["T", "'1'"], ["T", "f"],
    ["T", "true"],
    ["C", 1], ["C", 1.0], ["C", 0], ["C", 0.0], ["C", -1], ["C", 2], ["C", 2.5],
    ["C", "a"], ["C", "'a'"], ["C", "1"], ["C", '"a"'], ["C", '"s"'], ["C", "[]"],
    ["V", "X"], ["V", "Y"], ["V", "_"],
]
SPECIAL = [
    ["N", "\\+", ["T", "a"]], ["N", "not", ["T", "a"]], ["T", "\\+", ["T", "a"]], ["T", "not", ["T", "a"]],
    ["N", "\\+", ["T", "b"]], ["N", "\\+", ["V", "X"]], ["N", "not", ["V", "X"]],
    ["N", "\\+", ["N", "\\+", ["T", "a"]]], ["N", "not", ["N", "\\+", ["T", "a"]]],
    ["N", "\\+", ["T", "f", ["T", "a"]]], ["N", "not", ["T", "f", ["T", "a"]]],
    ["And", ["T", "a"], ["T", "b"]], ["T", ",", ["T", "a"], ["T", "b"]], ["And", ["T", "b"], ["T", "a"]],
    ["Or", ["T", "a"], ["T", "b"]], ["T", ";", ["T", "a"], ["T", "b"]], ["Or", ["T", "b"], ["T", "a"]],
    ["And", ["T", "a"], ["And", ["T", "b"], ["T", "a"]]], ["And", ["And", ["T", "a"], ["T", "b"]], ["T", "a"]],
    ["And", ["T", "a"], ["N", "\\+", ["T", "b"]]], ["And", ["T", "a"], ["N", "not", ["T", "b"]]],
    ["Or", ["T", "a"], ["And", ["T", "b"], ["T", "a"]]],
    ["L"], ["L", ["T", "a"]], ["L", ["T", "a"], ["T", "b"]], ["L", ["C", 1], ["C", 2]], ["L", ["C", 1.0], ["C", 2]],
    ["L", ["C", "a"]], ["L", ["V", "X"]], ["L", ["L", ["T", "a"]]],
    ["T", ".", ["T", "a"], ["T", "[]"]], ["T", ".", ["T", "a"], ["V", "Y"]], ["T", ".", ["T", "a"], ["T", "b"]],
    ["T", "f", ["T", "a"], ["T", "b"]], ["T", "g", ["T", "a"]], ["T", "f", ["L", ["T", "a"]]],
    ["T", "f", ["N", "\\+", ["T", "a"]]], ["T", "f", ["N", "not", ["T", "a"]]],
    ["T", "'f'", ["T", "a"]], ["T", "'A b'", ["T", "a"]],
    ["Pr", 0.5, ["T", "a"]], ["Pr", 0.3, ["T", "a"]], ["Pr", 0.5, ["T", "f", ["T", "a"]]],
]
PARSED = [
    "a", "'a'", "'A b'", "[]", "'1'", "1", "1.0", "0", "0.0", "-1", "2", "2.5", "\"a\"", "\"s\"", "X", "Y", "_",
    "f(a)", "f('a')", "f(1)", "f(1.0)", "f(\"a\")", "f(X)", "f(Y)", "f(f(a))", "f(a,b)", "g(a,b)", "g(b,a)",
    "g(a,X)", "g(X,X)", "g(X,Y)", "g(1,1.0)", "g(f(a),b)", "'f'(a)",
    "\\+a", "not a", "\\+ \\+a", "not \\+a", "\\+f(a)", "not f(a)", "\\+X", "(a,b)", "(b,a)", "(a;b)", "(a,b,a)",
    "(a,\\+b)", "(a, not b)", "(a;b,a)",
    "[a]", "[a,b]", "[1,2]", "[1.0,2]", "[X]", "[[a]]", "[a|Y]", "[a|b]", "f([a])", "f(\\+a)", "f(not a)", "0.5::a", "0.5::f(a)",
]
BIN_ARGS = [["T", "a"], ["T", "b"], ["C", 1], ["C", "a"], ["V", "X"], ["V", "Y"]]
UNARY_SECOND = [["T", "a"], ["C", "a"], ["C", 1], ["C", 1.0], ["V", "X"], ["T", "'a'"]]


def universe(tier):
    """deterministic list of recipes (no duplicates)"""
    u = []
    seen = set()

    def add(r):
        k = canon(r)
        if k not in seen:
            seen.add(k)
            u.append(r)

    for r in QUICK_LEAVES:
        add(r)
    for r in SPECIAL:
        add(r)
    for leaf in QUICK_LEAVES:
        add(["T", "f", leaf])
    for x in BIN_ARGS:
        for y in BIN_ARGS:
            add(["T", "g", x, y])
    for x in UNARY_SECOND:
        add(["T", "f", ["T", "f", x]])
        add(["T", "g", ["T", "f", x], ["T", "b"]])
    for t in PARSED:
        add(["P", t])
    if tier == "thorough":
        for x in QUICK_LEAVES:
            for y in QUICK_LEAVES:
                add(["T", "g", x, y])
        for x in QUICK_LEAVES:
            add(["T", "f", ["T", "f", x]])
            add(["L", x])
            add(["L", x, ["T", "b"]])
            add(["N", "\\+", x])
            add(["N", "not", x])
            add(["And", x, ["T", "b"]])
            add(["Or", ["T", "b"], x])
            add(["T", "f", x, x])
        for r in list(u):
            t = text_of(r)
            if t is not None and r[0] != "P":
                add(["P", t])
    return u


_PLAIN = re.compile(r"^[a-z][A-Za-z0-9_]*$")
_ARG0 = {"T": 2, "N": 2, "And": 1, "Or": 1, "L": 1, "Pr": 2}  # index of the first child recipe


def text_of(r):
    """Prolog text of a recipe for its parsed twin (own printer); None when the recipe has no
    unambiguous concrete syntax (Constant holding a plain str, Term with a numeric name...)."""
    k = r[0]
    if k == "P":
        return r[1]
    if k == "V":
        return r[1]
    if k == "C":
        v = r[1]
        if type(v) in (int, float):
            return repr(v)
        return v if v.startswith('"') else None
    if k == "T":
        f = r[1]
        if not (_PLAIN.match(f) or (f.startswith("'") and f.endswith("'")) or f in ("[]",)):
            return None
        args = [text_of(x) for x in r[2:]]
        if any(a is None for a in args):
            return None
        return f if not args else "%s(%s)" % (f, ",".join(args))
    if k == "N":
        c = text_of(r[2])
        return None if c is None else ("\\+(%s)" % c if r[1] == "\\+" else "not (%s)" % c)
    if k in ("And", "Or"):
        a, b = text_of(r[1]), text_of(r[2])
        if a is None or b is None:
            return None
        return "((%s)%s(%s))" % (a, "," if k == "And" else ";", b)
    if k == "L":
        args = [text_of(x) for x in r[1:]]
        if any(a is None for a in args):
            return None
        return "[" + ",".join(args) + "]"
    if k == "Pr":
        c = text_of(r[2])
        return None if c is None else "%r::%s" % (r[1], c)
    return None


_VAR_TOKEN = re.compile(r"(?<![A-Za-z0-9_'\"])[A-Z_][A-Za-z0-9_]*")


def is_ground_recipe(r):
    k = r[0]
    if k == "V":
        return False
    if k == "P":
        text = re.sub(r"'[^']*'|\"[^\"]*\"", "q", r[1])
        return not _VAR_TOKEN.search(text)
    if k == "C":
        return True
    start = _ARG0[k]
    return all(is_ground_recipe(x) for x in r[start:])


def build(r):
    import problog.logic as L

    k = r[0]
    if k == "T":
        return L.Term(r[1], *[build(x) for x in r[2:]])
    if k == "C":
        return L.Constant(r[1])
    if k == "V":
        return L.Var(r[1])
    if k == "N":
        return L.Not(r[1], build(r[2]))
    if k == "And":
        return L.And(build(r[1]), build(r[2]))
    if k == "Or":
        return L.Or(build(r[1]), build(r[2]))
    if k == "L":
        return L.list2term([build(x) for x in r[1:]])
    if k == "P":
        return L.Term.from_string(r[1])
    if k == "Pr":
        return build(r[2]).with_probability(L.Constant(r[1]))
    raise ValueError(r)


def show(r):
    k = r[0]
    if k == "T":
        return "Term(%s)" % ", ".join([repr(r[1])] + [show(x) for x in r[2:]])
    if k == "C":
        return "Constant(%r)" % (r[1],)
    if k == "V":
        return "Var(%r)" % r[1]
    if k == "N":
        return "Not(%r, %s)" % (r[1], show(r[2]))
    if k in ("And", "Or"):
        return "%s(%s, %s)" % (k, show(r[1]), show(r[2]))
    if k == "L":
        return "list2term([%s])" % ", ".join(show(x) for x in r[1:])
    if k == "Pr":
        return "%s.with_probability(Constant(%r))" % (show(r[2]), r[1])
    return "parse(%r)" % r[1]


# ---------------------------------------------------------------------------------------------
# observations on real objects


def safe_eq(a, b):
    """-> True | False | ("raises", cls)"""
    try:
        r = a == b
    except Exception as exc:  # noqa
        return ("raises", type(exc).__name__)
    if r is True or r is False:
        return r
    return ("non-bool", type(r).__name__)


def safe_hash(a):
    try:
        return hash(a)
    except Exception as exc:  # noqa
        return ("raises", type(exc).__name__)


def unify_identical(a, b):
    """ProbLog's own unification on two ground terms: True (unifies = identical) | False
    (UnifyError) | ("raises", cls)"""
    from problog.engine_unify import unify_value, UnifyError

    try:
        unify_value(a, b, {})
        return True
    except UnifyError:
        return False
    except Exception as exc:  # noqa
        return ("raises", type(exc).__name__)


def symptoms_pair(ra, rb):
    """all symptoms of the ordered pair (a, b), a and b rebuilt freshly; [] if none.  The
    symmetric-looking checks are attributed to the ordered pair with a == b true."""
    try:
        a, b = build(ra), build(rb)
    except Exception:  # noqa - not a constructible term: outside the property
        return []
    out = []
    e = safe_eq(a, b)
    e2 = safe_eq(b, a)
    if type(e) is tuple:
        out.append("eq-raises:" + e[1])
    if e is True and e2 is False:
        out.append("eq-not-symmetric")
    if e is True:
        ha, hb = safe_hash(a), safe_hash(b)
        if type(ha) is tuple or type(hb) is tuple:
            out.append("hash-raises")
        elif ha != hb:
            out.append("hash-mismatch")
    # == and hash must not depend on the history of the two objects: printing a term caches its
    # representation (and is what every user of the result dictionaries does)
    h_before = (safe_hash(a), safe_hash(b))
    try:
        for t in (a, b):
            str(t)
            repr(t)
    except Exception:  # noqa - printing problems are C17's business
        pass
    else:
        if type(e) is bool and safe_eq(a, b) != e:
            out.append("eq-changes-after-printing")
        if type(e2) is bool and safe_eq(b, a) != e2:
            out.append("eq-changes-after-printing")
        if (safe_hash(a), safe_hash(b)) != h_before:
            out.append("hash-changes-after-printing")
        out = sorted(set(out), key=out.index)
    try:
        a, b = build(ra), build(rb)
    except Exception:  # noqa
        return out
    if is_ground_recipe(ra) and is_ground_recipe(rb) and type(e) is bool:
        u = unify_identical(a, b)
        u2 = unify_identical(b, a)
        if type(u) is bool and u == u2:
            if e and not u:
                out.append("eq-but-not-unify-identical")
            if u and not e:
                out.append("unify-identical-but-not-eq")
    return out


def symptoms_single(ra):
    try:
        a, a2 = build(ra), build(ra)
    except Exception:  # noqa
        return []
    out = []
    for x, y, name in ((a, a, "eq-not-reflexive"), (a, a2, "eq-not-reflexive:rebuilt")):
        e = safe_eq(x, y)
        if e is not True:
            out.append(name)
    if type(safe_hash(a)) is tuple:
        out.append("hash-raises")
    elif safe_hash(a) != safe_hash(a2):
        out.append("hash-unstable:rebuilt")
    return out


def symptoms_triple(ra, rb, rc):
    try:
        a, b, c = build(ra), build(rb), build(rc)
    except Exception:  # noqa
        return []
    if safe_eq(a, b) is True and safe_eq(b, c) is True and safe_eq(a, c) is False:
        return ["eq-not-transitive"]
    return []


def symptoms_of(terms):
    return {1: symptoms_single, 2: symptoms_pair, 3: symptoms_triple}[len(terms)](*terms)


# ---------------------------------------------------------------------------------------------
# shrinking of recipe tuples

CANON_ATOM = "a"


def rsize(r):
    if r[0] in ("C", "V"):
        return 1
    if r[0] == "P":
        return 1 + len(r[1]) // 2
    if r[0] == "L":  # sugar for '.'(x1, '.'(x2, ... [])): one cons per element plus []
        return 1 + sum(1 + rsize(x) for x in r[1:])
    return 1 + sum(rsize(x) for x in r[_ARG0[r[0]]:])


_CANON_NAMES = {0: "a", 1: "f", 2: "g"}


def rweight(r):
    """distance from the canonical symbols: Term a / f/1 / g/2 weigh 0; Constant 1, 1.0, 'a' and Var X
    weigh 1, other constants / variables / names more; special constructors 1, list sugar 10"""
    if r[0] == "C":
        v = r[1]
        return 1 if (type(v) is int and v == 1) or (type(v) is float and v == 1.0) or v == "a" else 2
    if r[0] == "V":
        return 1 if r[1] == "X" else 2
    if r[0] == "P":
        return 1
    if r[0] == "T":
        return (0 if _CANON_NAMES.get(len(r) - 2) == r[1] else 1) + sum(rweight(x) for x in r[2:])
    if r[0] == "Pr":
        return (1 if r[1] == 0.5 else 2) + rweight(r[2])
    return (10 if r[0] == "L" else 1) + sum(rweight(x) for x in children(r))


def expand_list(r):
    t = ["T", "[]"]
    for x in reversed(r[1:]):
        t = ["T", ".", x, t]
    return t


def children(r):
    return [] if r[0] in ("C", "V", "P") else list(r[_ARG0[r[0]]:])


def with_child(r, i, c):
    k = _ARG0[r[0]] + i
    return r[:k] + [c] + r[k + 1:]


def variants(r):
    """one sub-recipe replaced by one of its children or by Term('a'); outermost first"""
    for c in children(r):
        yield c
    if r != ["T", CANON_ATOM]:
        yield ["T", CANON_ATOM]
    if r[0] == "P":
        t = reparse_as_recipe(r[1])
        if t is not None:
            yield t
    if r[0] == "L":
        yield expand_list(r)
    for i, c in enumerate(children(r)):
        for v in variants(c):
            yield with_child(r, i, v)


def reparse_as_recipe(text):
    """a parsed entry -> the constructor recipe of what the parser actually returned (classes,
    functors and constant values read off the object), so that a finding about a parsed term can
    shrink to its constructor form when that fails in the same way"""
    try:
        return recipe_of_object(build(["P", text]))
    except Exception:  # noqa
        return None


def recipe_of_object(o):
    import problog.logic as L

    if isinstance(o, L.Term) and o.probability is not None:
        return ["Pr", float(o.probability), recipe_of_object(o.with_probability(None))]
    if isinstance(o, L.Var):
        return ["V", o.name]
    if isinstance(o, L.Constant):
        return ["C", o.functor]
    if type(o) is L.Not:
        return ["N", o.functor, recipe_of_object(o.args[0])]
    if type(o) is L.And:
        return ["And", recipe_of_object(o.args[0]), recipe_of_object(o.args[1])]
    if type(o) is L.Or:
        return ["Or", recipe_of_object(o.args[0]), recipe_of_object(o.args[1])]
    if type(o) is L.Term and type(o.functor) is str:
        return ["T", o.functor] + [recipe_of_object(a) for a in o.args]
    raise ValueError("no constructor recipe for %r" % type(o))


def paired(rs):
    """moves applied to all recipes at once when they have the same constructor and arity:
    descend into the i-th child; drop the i-th argument (Term); replace an i-th child that is
    identical everywhere by Term('a'); the same inside the i-th children"""
    k = rs[0][0]
    if k in ("C", "V", "P"):
        return
    if any(r[0] != k or len(r) != len(rs[0]) for r in rs):
        return
    n = len(children(rs[0]))
    for i in range(n):
        yield [children(r)[i] for r in rs]
    if k == "T" and n >= 2 and all(r[1] == rs[0][1] for r in rs):
        for i in range(n):
            yield [r[:2 + i] + r[3 + i:] for r in rs]
    if k == "L" and n >= 1:
        yield [["T", _CANON_NAMES.get(n, "h")] + r[1:] for r in rs]
    if k in ("N", "And", "Or") and (k != "N" or all(r[1] == rs[0][1] for r in rs)):
        # the same special constructor on all sides acts as a plain wrapper
        yield [["T", _CANON_NAMES[n]] + children(r) for r in rs]
    for i in range(n):
        ci = [children(r)[i] for r in rs]
        if all(c == ci[0] for c in ci) and ci[0] != ["T", CANON_ATOM]:
            yield [with_child(r, i, ["T", CANON_ATOM]) for r in rs]
    for i in range(n):
        for sub in paired([children(r)[i] for r in rs]):
            yield [with_child(r, i, s) for r, s in zip(rs, sub)]


def base_name(v):
    """'a' -> a, "a" -> a (the name without its quotes)"""
    if len(v) >= 2 and v[0] == v[-1] and v[0] in "'\"":
        return v[1:-1]
    return v


def values_in(r, acc):
    """renamable symbols: ("name", base, arity) for Term functors and str constants (arity 0),
    numbers"""
    if r[0] == "C":
        acc.append(("name", base_name(r[1]), 0) if type(r[1]) is str else r[1])
    elif r[0] == "T":
        acc.append(("name", base_name(r[1]), len(r) - 2))
        for x in r[2:]:
            values_in(x, acc)
    elif r[0] not in ("P", "V"):
        for x in children(r):
            values_in(x, acc)
    return acc


def rename_value(r, old, new, unquote=False):
    """every occurrence of a number, or of a name/arity with any quoting (quotes are kept unless
    unquote, which drops single quotes)"""
    def requote(v, new):  # noqa
        if len(v) >= 2 and v[0] == v[-1] and (v[0] == '"' or (v[0] == "'" and not unquote)):
            return v[0] + new + v[0]
        return new

    if r[0] == "C":
        if type(old) is tuple:
            if type(r[1]) is str and old[2] == 0 and base_name(r[1]) == old[1]:
                return ["C", requote(r[1], new)]
            return r
        return ["C", new] if (type(r[1]) is type(old) and r[1] == old) else r
    if r[0] == "P" or r[0] == "V":
        return r
    if r[0] == "T":
        f = r[1]
        if type(old) is tuple and len(r) - 2 == old[2] and base_name(f) == old[1]:
            f = requote(f, new)
        return ["T", f] + [rename_value(x, old, new, unquote) for x in r[2:]]
    k = _ARG0[r[0]]
    return r[:k] + [rename_value(x, old, new, unquote) for x in r[k:]]


def count_parsed(r):
    if r[0] == "P":
        return 1
    return sum(count_parsed(x) for x in children(r))


def canon_prob(r):
    """every probability annotation -> 0.5"""
    if r[0] in ("C", "V", "P"):
        return r
    k = _ARG0[r[0]]
    head = ["Pr", 0.5] if r[0] == "Pr" else r[:k]
    return head + [canon_prob(x) for x in r[k:]]


def measure(rs):
    return (sum(count_parsed(r) for r in rs), sum(rsize(r) for r in rs), sum(rweight(r) for r in rs), canon(rs))


def candidates(case):
    rs = case["terms"]
    m0 = measure(rs)
    out = []
    seen = set()

    def push(new):
        m = measure(new)
        if m < m0 and m[3] not in seen:
            seen.add(m[3])
            out.append({"terms": new})

    for new in paired(rs):
        push(new)
    for i, r in enumerate(rs):
        for v in variants(r):
            push(rs[:i] + [v] + rs[i + 1:])
    # rename one symbol everywhere (all recipes): names of arity 0 -> a, 1 -> f, 2 -> g (quotes kept),
    # integers -> 1, floats -> 1.0
    vals = []
    for r in rs:
        values_in(r, vals)
    for v in vals:
        if type(v) is tuple:
            tgt = _CANON_NAMES.get(v[2])
            if tgt is not None and v[1] != tgt:
                push([rename_value(r, v, tgt) for r in rs])
            # drop the quotes of this name everywhere
            push([rename_value(r, v, v[1], unquote=True) for r in rs])
        elif type(v) is int and v != 1:
            push([rename_value(r, v, 1) for r in rs])
        elif type(v) is float and v != 1.0:
            push([rename_value(r, v, 1.0) for r in rs])
    push([canon_prob(r) for r in rs])
    if len(rs) >= 2:
        push(list(reversed(rs)))
    return out


_MIN = {}


def minimise(sym, terms):
    k = (sym, canon(terms))
    if k not in _MIN:
        def fails(c):
            return sym in symptoms_of(c["terms"])

        _MIN[k] = shrink({"terms": terms}, candidates, fails, limit=4000)
    return _MIN[k]


def describe(sym, terms):
    objs = []
    for r in terms:
        try:
            o = build(r)
            objs.append("%s" % show(r) if r[0] != "P" else "%s [%s]" % (show(r), type(o).__name__))
        except Exception as exc:  # noqa
            objs.append("%s [unbuildable %s]" % (show(r), type(exc).__name__))
    return objs


def expected_observed(sym, terms):
    rs = terms
    try:
        o = [build(r) for r in rs]
    except Exception as exc:  # noqa
        return "constructible terms", "recipe raises %s" % type(exc).__name__
    if len(o) == 1:
        return ("a == a and a == rebuilt(a) with equal hashes",
                "a == a: %r, a == rebuilt: %r, hashes %r / %r" % (safe_eq(o[0], o[0]), safe_eq(o[0], build(rs[0])),
                                                                   safe_hash(o[0]), safe_hash(build(rs[0]))))
    if len(o) == 3:
        return ("a == b and b == c imply a == c",
                "a == b: %r, b == c: %r, a == c: %r" % (safe_eq(o[0], o[1]), safe_eq(o[1], o[2]), safe_eq(o[0], o[2])))
    a, b = o
    obs = "a == b: %r, b == a: %r, hash(a) %s hash(b)" % (safe_eq(a, b), safe_eq(b, a),
                                                         "==" if safe_hash(a) == safe_hash(b) else "!=")
    if is_ground_recipe(rs[0]) and is_ground_recipe(rs[1]):
        obs += ", unify_value(a, b): %r, unify_value(b, a): %r" % (unify_identical(a, b), unify_identical(b, a))
    exp = {"eq-not-symmetric": "(a == b) = (b == a)", "hash-mismatch": "a == b implies hash(a) == hash(b)",
           "eq-but-not-unify-identical": "ground a == b exactly when unification treats them as identical",
           "unify-identical-but-not-eq": "ground a == b exactly when unification treats them as identical"}
    return exp.get(sym, "== returns a bool without raising"), obs


NSHARDS = 32


class C18(Prop):
    pid = "C18"
    title = "Term equality is an equivalence consistent with hashing"
    technique = ("bounded-exhaustive enumeration: full == / hash / unify_value matrix over a finite universe of "
                 "terms built with the public constructors and by the parser, on the real problog.logic classes; "
                 "transitivity over all triples via bitset rows")
    rule = ("universe = leaves (atoms, quoted atoms, Constant int/float/str, Var), Not with both functors, And, Or, "
            "lists, their plain-Term counterparts, unary/binary compounds over the leaves, second nesting level, "
            "and parsed twins (quick ~210, thorough ~900 entries); every ordered pair and every triple is checked; "
            "a pair of distinct entries is non-trivial when at least one of a==b, b==a, equal hash, "
            "unify-identical holds")
    assumptions = [
        "ground = the recipe contains no Var / no variable token; unification identity of ground a, b = "
        "unify_value(a, b, {}) does not raise UnifyError; pairs where unify_value raises something else or is "
        "asymmetric are unjudged",
        "recipes that cannot be constructed are outside the property",
    ]
    budget = {"quick": 150, "thorough": 900}

    def shards(self, tier):
        return [[i, NSHARDS] for i in range(NSHARDS)]

    def run_shard(self, shard, tier, acc):
        r0, m = shard
        U = universe(tier)
        n = len(U)
        objs = []
        for r in U:
            objs.append(build(r))
        ground = [is_ground_recipe(r) for r in U]
        rows = {}

        def row(i):
            """bitset of {j : U[i] == U[j]} (raising / non-bool counted as not equal here)"""
            if i not in rows:
                bits = 0
                a = objs[i]
                for j in range(n):
                    if safe_eq(a, objs[j]) is True:
                        bits |= 1 << j
                rows[i] = bits
                acc.evaluations += n
            return rows[i]

        reported = set()

        def report(sym, terms):
            small = minimise(sym, terms)
            k = (sym, canon(small))
            exp, obs = expected_observed(sym, small["terms"])
            acc.violation(sym, small, expected=exp, observed=obs,
                          what="%s: %s  -- %s" % (sym, " ; ".join(describe(sym, small["terms"])), obs))
            reported.add(k)

        for i in range(r0, n, m):
            if acc.expired():
                acc.cap("wall budget reached inside shard")
                break
            a = objs[i]
            acc.states += 1
            acc.sample({"terms": [U[i]]})
            for sym in symptoms_single(U[i]):
                report(sym, [U[i]])
            acc.evaluations += 2
            ei = row(i)
            for j in range(n):
                b = objs[j]
                acc.traces += 1
                e = bool(ei >> j & 1)
                e2 = safe_eq(b, a)
                h = safe_hash(a) == safe_hash(b)
                acc.evaluations += 1
                u = None
                if ground[i] and ground[j]:
                    u = unify_identical(a, b)
                    u2 = unify_identical(b, a)
                    acc.evaluations += 2
                    acc.transitions += 2
                    if type(u) is tuple or type(u2) is tuple:
                        acc.counters["unjudged:unify-raises"] += 1
                    elif u != u2:
                        acc.counters["unjudged:unify-asymmetric"] += 1
                    acc.counters["ground_pairs"] += 1
                if i != j and (e or e2 is True or h or u is True):
                    acc.nontrivial += 1
                acc.outcomes["eq=%d qe=%s hash=%d unify=%s" % (e, int(e2) if type(e2) is bool else "x", h,
                                                                "-" if u is None else (int(u) if type(u) is bool else "x"))] += 1
                if i == j:
                    continue
                # symptoms are recomputed on freshly built objects (no shared caches)
                if e or e2 is True or type(safe_eq(a, b)) is tuple or (u is True):
                    for sym in symptoms_pair(U[i], U[j]):
                        report(sym, [U[i], U[j]])
                # transitivity: a == b, b == c, not a == c for every c
                if e:
                    bad = row(j) & ~ei
                    acc.transitions += n  # n triples (i, j, *) decided by one bitset operation
                    k = 0
                    while bad:
                        if bad & 1:
                            # row() treats a raising == as "not equal": recheck on fresh objects
                            for sym in symptoms_triple(U[i], U[j], U[k]):
                                report(sym, [U[i], U[j], U[k]])
                        bad >>= 1
                        k += 1
        acc.notes["universe_size"] = n

    def precheck(self, tier):
        U = universe(tier)
        return dict(universe_size=len(U), ground_entries=sum(1 for r in U if is_ground_recipe(r)),
                    parsed_entries=sum(1 for r in U if r[0] == "P"), triples=len(U) ** 3)

    def replay(self, case):
        terms = case["terms"]
        syms = symptoms_of(terms)
        exp, obs = expected_observed(syms[0] if syms else "", terms)
        return dict(ok=not syms, expected=exp,
                    observed="%s  -- %s%s" % (" ; ".join(describe("", terms)), obs, "  [%s]" % ", ".join(syms) if syms else ""))


PROP = C18()
