"""C12 built-in semirings obey their algebra and documented defaults.

E3: every pair / triple of a fixed value grid through the commutative-semiring laws of
SemiringProbability, SemiringLogProbability and SemiringSymbolic; log <-> probability
correspondence of plus, times, negate, normalize, value, result, ad_complement, ad_negate,
pos_value, neg_value, true, false, is_zero, is_one; base-class defaults (is_one(one()),
is_zero(zero()), normalize(a, one()) == a) on a minimal subclass of Semiring and on the MPE
semirings that inherit them.  Nothing is sampled.

A case is JSON: {"semiring": name, "law": law, "args": [...]} where the arguments are always given
in *probability space* (the harness takes the logarithm for the log semiring: 0 -> -inf) or, for the
symbolic composition law, expression trees  number | [op, tree, ...].
"""
import itertools
import math
import re

from ..core import Prop, shrink

TOL = 1e-9
ZMIN = 1e-6       # normalize is judged for z >= ZMIN only

V_QUICK = [0.0, 1e-300, 1e-12, 0.1, 0.25, 0.5, 0.75, 0.9, 1 - 1e-12, 1.0]
V_EXTRA = [1e-200, 1e-100, 1e-9, 1e-6, 0.001, 0.01, 0.2, 0.3, 1 / 3.0, 0.4, 0.6, 2 / 3.0, 0.99, 1 - 1e-9]
V_NEAR = [1e-9, 1e-6, 1e-3, 1 - 1e-3, 1 - 1e-6, 1 - 1e-9]   # extra boundary probes of the one-argument laws
SIMPLE = [0.5, 0.25, 1.0, 0.0, 0.75, 0.1]      # the shrinker moves arguments towards the front of this list


def grid(tier):
    return V_QUICK + (V_EXTRA if tier == "thorough" else [])


def close(x, y):
    if isinstance(x, float) and isinstance(y, float) and (math.isnan(x) or math.isnan(y)):
        return False
    return abs(x - y) <= TOL * max(1.0, abs(x), abs(y))


# ---------------------------------------------------------------------------------------------
# a tiny arithmetic evaluator for the strings of SemiringSymbolic (usual precedence, left assoc.)

_TOKEN = re.compile(r"\s*(?:(\d+\.?\d*(?:[eE][+-]?\d+)?|\.\d+(?:[eE][+-]?\d+)?)|(inf|nan)|(.))")


class ParseError(Exception):
    pass


def tokenize(s):
    out = []
    pos = 0
    s = s.rstrip()
    while pos < len(s):
        m = _TOKEN.match(s, pos)
        if not m:
            raise ParseError("cannot tokenize %r at %d" % (s, pos))
        if m.group(1) is not None:
            out.append(("num", float(m.group(1))))
        elif m.group(2) is not None:
            out.append(("num", float(m.group(2))))
        else:
            if m.group(3) not in "+-*/()":
                raise ParseError("unexpected character %r in %r" % (m.group(3), s))
            out.append(("op", m.group(3)))
        pos = m.end()
    return out


def evaluate(s):
    """value of an arithmetic string: expr := term (('+'|'-') term)*; term := factor (('*'|'/') factor)*;
    factor := number | '(' expr ')' | '-' factor"""
    toks = tokenize(s)
    pos = [0]

    def peek():
        return toks[pos[0]] if pos[0] < len(toks) else (None, None)

    def take():
        t = peek()
        pos[0] += 1
        return t

    def factor():
        k, v = take()
        if k == "num":
            return v
        if k == "op" and v == "(":
            r = expr()
            k2, v2 = take()
            if (k2, v2) != ("op", ")"):
                raise ParseError("expected ) in %r" % s)
            return r
        if k == "op" and v == "-":
            return -factor()
        raise ParseError("unexpected token %r in %r" % (v, s))

    def term():
        r = factor()
        while peek() in (("op", "*"), ("op", "/")):
            _, o = take()
            f = factor()
            r = r * f if o == "*" else r / f
        return r

    def expr():
        r = term()
        while peek() in (("op", "+"), ("op", "-")):
            _, o = take()
            t = term()
            r = r + t if o == "+" else r - t
        return r

    r = expr()
    if pos[0] != len(toks):
        raise ParseError("trailing tokens in %r" % s)
    return r


# ---------------------------------------------------------------------------------------------
# semirings under test

def get_semiring(name):
    from problog import evaluator as E

    if name == "prob":
        return E.SemiringProbability()
    if name == "log":
        return E.SemiringLogProbability()
    if name == "sym":
        return E.SemiringSymbolic()
    if name == "minimal":
        class Minimal(E.Semiring):
            """defines only what the interface leaves abstract"""

            def one(self):
                return 1.0

            def zero(self):
                return 0.0

            def plus(self, a, b):
                return a + b

            def times(self, a, b):
                return a * b

        return Minimal()
    if name == "mpe":
        from problog.tasks.mpe import SemiringMPEState

        return SemiringMPEState()
    if name == "minpe":
        from problog.tasks.mpe import SemiringMinPEState

        return SemiringMinPEState()
    raise ValueError(name)


def enc(name, v):
    """probability -> internal value"""
    if name == "log":
        return float("-inf") if v == 0 else math.log(v)
    if name == "sym":
        return get_semiring("sym").value(v)
    if name in ("mpe", "minpe"):
        return (float(v), {1})
    return float(v)


def dec(name, x):
    """internal value -> probability (a float)"""
    if name == "log":
        return math.exp(x)
    if name == "sym":
        return evaluate(x)
    if name in ("mpe", "minpe"):
        return x[0]
    return x


# ---------------------------------------------------------------------------------------------
# laws: each returns (judged, ok, expected, observed)

ALGEBRA = ("prob", "log", "sym")

PAIR_LAWS = ["plus", "times", "comm-plus", "comm-times", "normalize", "ad_complement2", "ad_negate"]
TRIPLE_LAWS = ["assoc-plus", "assoc-times", "distrib-left", "distrib-right", "ad_complement3"]
SINGLE_LAWS = ["ident-plus", "ident-times", "annihilate", "negate", "negate-twice", "normalize-one", "value",
               "result", "pos_value", "neg_value"]
CONST_LAWS = ["is_zero(zero())", "is_one(one())", "not is_zero(one())", "not is_one(zero())", "is_zero(value(0))",
              "is_one(value(1))", "true()", "false()", "to_evidence", "result_zero", "result_one"]
DEFAULT_LAWS = ["is_one(one())", "is_zero(zero())", "not is_zero(one())", "not is_one(zero())"]


def sym_build(S, t):
    """string produced by SemiringSymbolic for an expression tree"""
    if not isinstance(t, list):
        return S.value(t)
    op = t[0]
    if op == "plus":
        return S.plus(sym_build(S, t[1]), sym_build(S, t[2]))
    if op == "times":
        return S.times(sym_build(S, t[1]), sym_build(S, t[2]))
    if op == "negate":
        return S.negate(sym_build(S, t[1]))
    if op == "normalize":
        return S.normalize(sym_build(S, t[1]), sym_build(S, t[2]))
    raise ValueError(op)


def sym_num(t):
    """the number the tree denotes; None if it divides by something below ZMIN (unjudged)"""
    if not isinstance(t, list):
        return float(t)
    xs = [sym_num(x) for x in t[1:]]
    if any(x is None for x in xs):
        return None
    op = t[0]
    if op == "plus":
        return xs[0] + xs[1]
    if op == "times":
        return xs[0] * xs[1]
    if op == "negate":
        return 1.0 - xs[0]
    if op == "normalize":
        if abs(xs[1]) < ZMIN:
            return None
        return xs[0] / xs[1]
    raise ValueError(op)


def check(case):
    """-> dict(judged=bool, ok=bool, expected=..., observed=...) ; exceptions of the implementation are
    reported as observed='raise <Class>' and ok=False"""
    name, law, args = case["semiring"], case["law"], case.get("args", [])
    S = get_semiring(name)
    try:
        return _check(S, name, law, args)
    except ParseError as e:
        return dict(judged=True, ok=False, expected="an arithmetic expression", observed="unparsable: %s" % e)
    except (ArithmeticError, ValueError, TypeError, AttributeError, NotImplementedError) as e:
        return dict(judged=True, ok=False, expected="a value", observed="raise %s: %s" % (type(e).__name__, e))
    except Exception as e:  # ProbLogError family (OperationNotSupported, InvalidValue)
        return dict(judged=True, ok=False, expected="a value", observed="raise %s: %s" % (type(e).__name__, e))


def _res(exp, obs, judged=True):
    return dict(judged=judged, ok=(not judged) or close(exp, obs), expected=exp, observed=obs)


def _bool(exp, obs):
    return dict(judged=True, ok=bool(obs) == exp, expected=exp, observed=obs)


def _check(S, name, law, args):
    e = lambda v: enc(name, v)
    d = lambda x: dec(name, x)
    if law == "compose":               # symbolic only: the string evaluates to the number the calls denote
        want = sym_num(args[0])
        if want is None:
            return dict(judged=False, ok=True, expected=None, observed=None)
        s = sym_build(S, args[0])
        try:
            got = evaluate(s)
        except ZeroDivisionError:
            return dict(judged=True, ok=False, expected=want, observed="%r divides by zero" % s)
        r = _res(want, got)
        r["observed"] = "%r = %r" % (s, got)
        return r
    if law.startswith("corr:"):        # log-probability is the logarithmic image of probability
        from problog import evaluator as E

        P, L = E.SemiringProbability(), E.SemiringLogProbability()
        op = law[5:]
        le = lambda v: enc("log", v)
        if op in ("plus", "times"):
            return _res(getattr(P, op)(args[0], args[1]), math.exp(getattr(L, op)(le(args[0]), le(args[1]))))
        if op == "negate":
            return _res(P.negate(args[0]), math.exp(L.negate(le(args[0]))))
        if op == "neg_value":
            return _res(P.neg_value(args[0]), math.exp(L.neg_value(args[0])))
        if op == "value":
            return _res(P.result(P.value(args[0])), L.result(L.value(args[0])))
        if op == "normalize":
            if args[1] < ZMIN:
                return dict(judged=False, ok=True, expected=None, observed=None)
            return _res(P.normalize(args[0], args[1]), math.exp(L.normalize(le(args[0]), le(args[1]))))
        if op == "ad_complement2":
            if args[0] + args[1] > 1.0:
                return dict(judged=False, ok=True, expected=None, observed=None)
            return _res(P.ad_complement([args[0], args[1]]), math.exp(L.ad_complement([le(args[0]), le(args[1])])))
        if op == "ad_negate":
            return _res(P.ad_negate(args[0], args[1]), math.exp(L.ad_negate(le(args[0]), le(args[1]))))
        if op in ("is_zero", "is_one"):  # exact 0 / 1 only
            return _bool(bool(getattr(P, op)(args[0])), getattr(L, op)(le(args[0])))
        raise ValueError(law)
    if law == "plus":
        return _res(args[0] + args[1], d(S.plus(e(args[0]), e(args[1]))))
    if law == "times":
        return _res(args[0] * args[1], d(S.times(e(args[0]), e(args[1]))))
    if law == "comm-plus":
        return _res(d(S.plus(e(args[0]), e(args[1]))), d(S.plus(e(args[1]), e(args[0]))))
    if law == "comm-times":
        return _res(d(S.times(e(args[0]), e(args[1]))), d(S.times(e(args[1]), e(args[0]))))
    if law == "assoc-plus":
        a, b, c = map(e, args)
        return _res(d(S.plus(S.plus(a, b), c)), d(S.plus(a, S.plus(b, c))))
    if law == "assoc-times":
        a, b, c = map(e, args)
        return _res(d(S.times(S.times(a, b), c)), d(S.times(a, S.times(b, c))))
    if law == "distrib-left":
        a, b, c = map(e, args)
        return _res(d(S.times(a, S.plus(b, c))), d(S.plus(S.times(a, b), S.times(a, c))))
    if law == "distrib-right":
        a, b, c = map(e, args)
        return _res(d(S.times(S.plus(b, c), a)), d(S.plus(S.times(b, a), S.times(c, a))))
    if law == "ident-plus":
        a = e(args[0])
        r1 = _res(args[0], d(S.plus(a, S.zero())))
        return r1 if not r1["ok"] else _res(args[0], d(S.plus(S.zero(), a)))
    if law == "ident-times":
        a = e(args[0])
        r1 = _res(args[0], d(S.times(a, S.one())))
        return r1 if not r1["ok"] else _res(args[0], d(S.times(S.one(), a)))
    if law == "annihilate":
        a = e(args[0])
        r1 = _res(0.0, d(S.times(a, S.zero())))
        return r1 if not r1["ok"] else _res(0.0, d(S.times(S.zero(), a)))
    if law == "negate":
        return _res(1.0 - args[0], d(S.negate(e(args[0]))))
    if law == "negate-twice":
        return _res(args[0], d(S.negate(S.negate(e(args[0])))))
    if law == "normalize":
        if args[1] < ZMIN:
            return dict(judged=False, ok=True, expected=None, observed=None)
        return _res(args[0] / args[1], d(S.normalize(e(args[0]), e(args[1]))))
    if law == "normalize-one":
        a = e(args[0])
        got = S.normalize(a, S.one())
        if name in ("mpe", "minpe"):
            return dict(judged=True, ok=got == a, expected=repr(a), observed=repr(got))
        return _res(args[0], d(got))
    if law == "value":
        return _res(args[0], d(S.value(args[0])))
    if law == "result":
        if name == "sym":
            return dict(judged=False, ok=True, expected=None, observed=None)
        return _res(args[0], S.result(e(args[0])))
    if law == "pos_value":
        return _res(args[0], d(S.pos_value(args[0])))
    if law == "neg_value":
        return _res(1.0 - args[0], d(S.neg_value(args[0])))
    if law in ("ad_complement2", "ad_complement3"):
        if sum(args) > 1.0:
            return dict(judged=False, ok=True, expected=None, observed=None)
        return _res(1.0 - sum(args), d(S.ad_complement([e(x) for x in args])))
    if law == "ad_negate":
        return _res(1.0, d(S.ad_negate(e(args[0]), e(args[1]))))
    if law == "is_zero(zero())":
        return _bool(True, S.is_zero(S.zero()))
    if law == "is_one(one())":
        return _bool(True, S.is_one(S.one()))
    if law == "not is_zero(one())":
        return _bool(False, S.is_zero(S.one()))
    if law == "not is_one(zero())":
        return _bool(False, S.is_one(S.zero()))
    if law == "is_zero(value(0))":
        return _bool(True, S.is_zero(S.value(0.0)))
    if law == "is_one(value(1))":
        return _bool(True, S.is_one(S.value(1.0)))
    if law == "true()":
        p, n = S.true()
        r = _res(1.0, d(p))
        return r if not r["ok"] else _res(0.0, d(n))
    if law == "false()":
        p, n = S.false()
        r = _res(0.0, d(p))
        return r if not r["ok"] else _res(1.0, d(n))
    if law == "to_evidence":
        p, n = S.to_evidence(e(0.5), e(0.5), 1)
        p2, n2 = S.to_evidence(e(0.5), e(0.5), -1)
        got = [d(p), d(n), d(p2), d(n2)]
        return dict(judged=True, ok=all(close(x, y) for x, y in zip(got, [1.0, 0.0, 0.0, 1.0])),
                    expected=[1.0, 0.0, 0.0, 1.0], observed=got)
    if law == "result_zero":
        return _res(0.0, float(S.result_zero()) if name != "sym" else evaluate(S.result_zero()))
    if law == "result_one":
        return _res(1.0, float(S.result_one()) if name != "sym" else evaluate(S.result_one()))
    raise ValueError(law)


# ---------------------------------------------------------------------------------------------
# enumeration

def sym_atoms(tier):
    return [0.0, 0.25, 0.5, 1.0] if tier == "quick" else [0.0, 1e-12, 0.25, 0.5, 0.9, 1.0]


def sym_depth1(atoms):
    out = list(atoms)
    for a in atoms:
        out.append(["negate", a])
        for b in atoms:
            out.append(["plus", a, b])
            out.append(["times", a, b])
            out.append(["normalize", a, b])
    return out


def cases_of(shard, tier):
    kind = shard[0]
    V = grid(tier)
    if kind == "const":
        for name in ALGEBRA:
            for law in CONST_LAWS:
                if name == "sym" and law in ("is_zero(value(0))", "is_one(value(1))"):
                    continue   # str(0.0) is '0.0': exact-0/1 recognition of external floats is not stated
                yield {"semiring": name, "law": law, "args": []}
        for name in ("minimal", "mpe", "minpe"):
            for law in DEFAULT_LAWS:
                yield {"semiring": name, "law": law, "args": []}
            for v in V:
                yield {"semiring": name, "law": "normalize-one", "args": [v]}
        for v in (0.0, 1.0):
            yield {"semiring": "log", "law": "corr:is_zero", "args": [v]}
            yield {"semiring": "log", "law": "corr:is_one", "args": [v]}
    elif kind == "single":
        V1 = V + [v for v in V_NEAR if v not in V]
        for name in ALGEBRA:
            for law in SINGLE_LAWS:
                for v in V1:
                    yield {"semiring": name, "law": law, "args": [v]}
        for v in V1:
            for op in ("negate", "value", "neg_value"):
                yield {"semiring": "log", "law": "corr:" + op, "args": [v]}
    elif kind == "pair":
        name = shard[1]
        for law in PAIR_LAWS:
            for a, b in itertools.product(V, repeat=2):
                yield {"semiring": name, "law": law, "args": [a, b]}
        if name == "log":
            for op in ("plus", "times", "normalize", "ad_complement2", "ad_negate"):
                for a, b in itertools.product(V, repeat=2):
                    yield {"semiring": "log", "law": "corr:" + op, "args": [a, b]}
    elif kind == "triple":
        name, law, i, n = shard[1], shard[2], shard[3], shard[4]
        for j, a in enumerate(V):
            if j % n != i:
                continue
            for b, c in itertools.product(V, repeat=2):
                yield {"semiring": name, "law": law, "args": [a, b, c]}
    elif kind == "compose3":
        for c in cases_compose3(shard[1], shard[2]):
            yield c
    elif kind == "compose":
        i, n = shard[1], shard[2]
        d1 = sym_depth1(sym_atoms(tier))
        if i == 0:
            for t in d1:
                yield {"semiring": "sym", "law": "compose", "args": [t]}
            for t in d1:
                yield {"semiring": "sym", "law": "compose", "args": [["negate", t]]}
        for j, x in enumerate(d1):
            if j % n != i:
                continue
            for y in d1:
                for op in ("plus", "times", "normalize"):
                    yield {"semiring": "sym", "law": "compose", "args": [[op, x, y]]}


def cases_compose3(i, n):
    """depth-3 trees op(T2, a) / op(a, T2) / negate(T2) where T2 = op(x, y) with x, y of depth <= 1 over the
    atoms {0.25, 0.5} (an expression that begins and ends with a parenthesised factor needs three
    nested calls: plus(times(plus(x,y), negate(z)), w))"""
    atoms = [0.25, 0.5]
    d1 = sym_depth1(atoms)
    k = 0
    for x in d1:
        for y in d1:
            for op2 in ("plus", "times", "normalize"):
                k += 1
                if k % n != i:
                    continue
                t2 = [op2, x, y]
                yield {"semiring": "sym", "law": "compose", "args": [["negate", t2]]}
                for a in atoms:
                    for op3 in ("plus", "times", "normalize"):
                        yield {"semiring": "sym", "law": "compose", "args": [[op3, t2, a]]}
                        yield {"semiring": "sym", "law": "compose", "args": [[op3, a, t2]]}


def _simpler_values(v):
    for s in SIMPLE:
        if s == v:
            return
        yield s


def _tree_cands(t):
    """smaller trees: a subtree, or one operand replaced by something simpler"""
    if not isinstance(t, list):
        for s in _simpler_values(t):
            yield s
        return
    for x in t[1:]:
        yield x
    for i in range(1, len(t)):
        for c in _tree_cands(t[i]):
            yield t[:i] + [c] + t[i + 1:]


def candidates(case):
    args = case.get("args", [])
    if case["law"] == "compose":
        for c in _tree_cands(args[0]):
            yield dict(case, args=[c])
        return
    for i, v in enumerate(args):
        for s in _simpler_values(v):
            yield dict(case, args=args[:i] + [s] + args[i + 1:])


def symptom(case, res):
    obs = res["observed"]
    if isinstance(obs, str) and obs.startswith("raise "):
        return "error-must-answer:%s" % obs.split()[1].rstrip(":")
    if isinstance(obs, str) and obs.startswith("unparsable"):
        return "unparsable"
    return "wrong-value"


class C12(Prop):
    pid = "C12"
    title = "Built-in semirings obey their algebra and documented defaults"
    technique = ("bounded-exhaustive enumeration (E3) of value pairs/triples through the semiring laws on the real "
                 "SemiringProbability / SemiringLogProbability / SemiringSymbolic (strings evaluated by an own arithmetic "
                 "evaluator), log<->probability correspondence, base-class defaults on a minimal subclass and the MPE semirings")
    rule = ("grid V = {0, 1e-300, 1e-12, 0.1, 0.25, 0.5, 0.75, 0.9, 1-1e-12, 1} (thorough: 24 values), internal values "
            "of the log semiring are the logs (-inf for 0); every single/pair/triple through every law (one-argument "
            "laws additionally on 1e-9, 1e-6, 1e-3 and their complements); symbolic "
            "composition: every expression tree of depth <= 2 over {plus, times, negate, normalize} and 4 (thorough 6) "
            "atoms must evaluate to the number the calls denote; a case is non-trivial when it is judged and not all "
            "arguments are 0/1; comparison in probability space, tolerance 1e-9 * max(1, |x|)")
    assumptions = [
        "normalize judged for z >= 1e-6 only; ad_complement judged when the weights sum to <= 1",
        "is_zero / is_one judged on exact 0 / 1 only",
        "values above 1 (sums) are compared with tolerance relative to their magnitude",
        "the strings of SemiringSymbolic are read with the usual precedence and left associativity of + - * /",
        "MPE semirings: only the inherited defaults are judged (their plus is max/min by design)",
    ]
    budget = {"quick": 120, "thorough": 600}

    def shards(self, tier):
        res = [["const"], ["single"]]
        for name in ALGEBRA:
            res.append(["pair", name])
            for law in TRIPLE_LAWS:
                n = 2 if tier == "quick" else 6
                for i in range(n):
                    res.append(["triple", name, law, i, n])
        n = 8 if tier == "quick" else 16
        for i in range(n):
            res.append(["compose", i, n])
        for i in range(8):
            res.append(["compose3", i, 8])
        return res

    def run_shard(self, shard, tier, acc):
        for case in cases_of(shard, tier):
            if acc.expired():
                acc.cap("wall budget reached inside shard")
                break
            res = check(case)
            acc.evaluations += 1
            acc.states += 1
            acc.transitions += 1
            if not res["judged"]:
                acc.counters["unjudged"] += 1
                acc.counters["unjudged:" + case["law"]] += 1
                acc.outcomes["unjudged"] += 1
                continue
            acc.traces += 1
            flat = repr(case["args"])
            if any(ch in flat for ch in "23456789") or "e-" in flat:
                acc.nontrivial += 1
            acc.counters["judged:" + case["semiring"]] += 1
            if res["ok"]:
                acc.outcomes["holds:" + case["law"].split(":")[0]] += 1
                if case["law"] in ("assoc-plus", "compose", "normalize"):
                    acc.sample(case)
                continue
            sym = symptom(case, res)
            acc.outcomes["violates:" + case["law"]] += 1

            def fails(c):
                r = check(c)
                return r["judged"] and not r["ok"] and symptom(c, r) == sym

            small = shrink(case, candidates, fails)
            r = check(small)
            acc.violation(sym, small, expected=r["expected"], observed=r["observed"],
                          what="%s %s%r: expected %r, observed %r" % (small["semiring"], small["law"], tuple(small["args"]),
                                                                      r["expected"], r["observed"]))

    def precheck(self, tier):
        """the arithmetic evaluator agrees with Python on strings written with explicit parentheses"""
        n = 0
        vals = ["0.5", "0.25", "1e-12", "1", "0.999999999999", "3"]
        for a, b, c in itertools.product(vals, repeat=3):
            for s in ("%s + %s*%s", "(%s + %s)*%s", "%s / %s / %s", "%s / (%s*%s)", "(1-%s)*%s / %s", "%s*%s / %s",
                      "%s-%s-%s", "%s / %s*%s", "(1-%s*%s) + %s"):
                txt = s % (a, b, c)
                want = eval(txt, {"__builtins__": {}})   # own literals only
                got = evaluate(txt)
                if want != got:
                    raise RuntimeError("C12 arithmetic evaluator: %r gives %r, python %r" % (txt, got, want))
                n += 1
        return {"evaluator_validated_on_strings": n}

    def replay(self, case):
        r = check(case)
        if not r["judged"]:
            return dict(ok=True, expected="(unjudged)", observed="(unjudged)")
        return dict(ok=r["ok"], expected=r["expected"], observed=r["observed"])


PROP = C12()
