"""C11 the ground-program builder (problog.formula.LogicFormula) preserves Boolean meaning.

E2: explicit-state BFS over histories of builder calls on a real LogicFormula; after every call the
truth table of every key ever returned, computed from the builder's *actual node list*, must equal
the truth table of the expression the call sequence *describes* (symbolic model below).

History ops (JSON; keys are the literal keys of the builder: 0 = TRUE, null = FALSE, +-int):
    ["atom", identifier, probability, group]      add_atom(identifier, probability, group=group)
    ["and", [k..], name]                          add_and((k..), name=name)
    ["or", [k..], mode, name]                     add_or((k..), readonly=(mode=="ro"), name=name)
                                                  mode "mut": readonly=False; "ph": placeholder=True
    ["dis", m, k]                                 add_disjunct(m, k)        (m: key of a mutable node)
    ["neg", k]                                    negate(k)
    ["name", name, k, label]                      add_name(Term(name), k, label)

Exploration = for every builder configuration of the tier, every atom variant and every *plan*
(menu level per depth, see PLANS and C11.rule) one BFS, sharded over the first-level calls.  The
oracle is ``Model`` + ``graph_tables``; ``Run.step`` is the single place where the real builder is
called and compared.  Violations are shrunk on a symbolic form of the history (``symbolize`` /
``concretize``: references to "the result of call j") so that dropping a call re-keys the rest.
"""
import collections
import hashlib
import itertools

from ..core import Prop, shrink, watchdog
from ..explore import bfs_histories

FLAGS = ["auto_compact", "keep_order", "keep_duplicates", "keep_all", "avoid_name_clash"]
DEFAULTS = {"auto_compact": True, "keep_order": False, "keep_duplicates": False, "keep_all": False,
            "avoid_name_clash": False, "max_arity": 0}


# ---------------------------------------------------------------------------------------------
# R2: truth tables of an AND/OR graph with (positive) cycles, as bit masks over 2^n assignments

_VM = {}


def var_masks(n):
    """mask of variable i = set of assignments (bit positions) in which variable i is true"""
    if n in _VM:
        return _VM[n]
    res = []
    for i in range(n):
        m = 0
        for a in range(1 << n):
            if (a >> i) & 1:
                m |= 1 << a
        res.append(m)
    _VM[n] = res
    return res


UNDEF = "undef"  # value of a node that lies on / depends on a cycle through negation


def graph_tables(nodes, full):
    """``nodes[i]`` describes node ``i+1``: ("v", mask) | ("and", lits) | ("or", lits); a literal is
    0 (TRUE), None (FALSE) or a signed node number.  Returns the list of truth tables (least
    fixpoint on positive cycles; UNDEF for nodes on or above a cycle through negation)."""
    n = len(nodes)
    val = [None] * n
    # fast path: acyclic evaluation in index order when children always precede parents
    ok = True
    for i in range(n):
        nd = nodes[i]
        if nd[0] == "v":
            val[i] = nd[1]
            continue
        isand = nd[0] == "and"
        acc = full if isand else 0
        for c in nd[1]:
            if c is None:
                v = 0
            elif c == 0:
                v = full
            else:
                j = abs(c) - 1
                if j >= i or j >= n:
                    ok = False
                    break
                v = val[j]
                if v is UNDEF:
                    acc = UNDEF
                    break
                if c < 0:
                    v = full & ~v
            acc = (acc & v) if isand else (acc | v)
        if not ok:
            break
        val[i] = acc
    if ok:
        return val
    return _graph_tables_scc(nodes, full)


def _graph_tables_scc(nodes, full):
    n = len(nodes)
    succ = []
    for nd in nodes:
        if nd[0] == "v":
            succ.append(())
        else:
            succ.append(tuple(abs(c) - 1 for c in nd[1] if c is not None and c != 0))
    for s in succ:
        for j in s:
            if j >= n:
                raise IndexError("child key %d beyond node list of length %d" % (j + 1, n))
    # Tarjan (iterative); SCCs come out dependencies-first
    index = [None] * n
    low = [0] * n
    onst = [False] * n
    st = []
    sccs = []
    counter = [0]
    for root in range(n):
        if index[root] is not None:
            continue
        work = [(root, 0)]
        while work:
            v, pi = work.pop()
            if pi == 0:
                index[v] = low[v] = counter[0]
                counter[0] += 1
                st.append(v)
                onst[v] = True
            recurse = False
            ss = succ[v]
            while pi < len(ss):
                w = ss[pi]
                pi += 1
                if index[w] is None:
                    work.append((v, pi))
                    work.append((w, 0))
                    recurse = True
                    break
                elif onst[w]:
                    low[v] = min(low[v], index[w])
            if recurse:
                continue
            if low[v] == index[v]:
                comp = []
                while True:
                    w = st.pop()
                    onst[w] = False
                    comp.append(w)
                    if w == v:
                        break
                sccs.append(comp)
            if work:
                u = work[-1][0]
                low[u] = min(low[u], low[v])
    val = [None] * n

    def compute(i):
        nd = nodes[i]
        if nd[0] == "v":
            return nd[1]
        isand = nd[0] == "and"
        acc = full if isand else 0
        for c in nd[1]:
            if c is None:
                v = 0
            elif c == 0:
                v = full
            else:
                v = val[abs(c) - 1]
                if v is UNDEF:
                    return UNDEF
                if c < 0:
                    v = full & ~v
            acc = (acc & v) if isand else (acc | v)
        return acc

    for comp in sccs:
        if len(comp) == 1 and comp[0] not in succ[comp[0]]:
            val[comp[0]] = compute(comp[0])
            continue
        cs = set(comp)
        neg = False
        for i in comp:
            if nodes[i][0] != "v":
                for c in nodes[i][1]:
                    if c is not None and c != 0 and c < 0 and (-c - 1) in cs:
                        neg = True
        if neg:
            for i in comp:
                val[i] = UNDEF
            continue
        for i in comp:
            val[i] = 0
        changed = True
        while changed:
            changed = False
            for i in sorted(comp):
                v = compute(i)
                if v != val[i]:
                    val[i] = v
                    changed = True
    return val


def lit_table(tabs, key, full):
    if key is None:
        return 0
    if key == 0:
        return full
    v = tabs[abs(key) - 1]
    if v is UNDEF:
        return UNDEF
    return (full & ~v) if key < 0 else v


# ---------------------------------------------------------------------------------------------
# the symbolic model: the expression graph the call sequence describes

class Model(object):
    """Model nodes use the same literal encoding as the builder (0/None/+-number) but live in their
    own numbering; nothing is folded, shared, reordered or collapsed: every call adds the node it
    describes.  ``meaning[k]`` = model literals for which the builder returned the real key k."""

    def __init__(self):
        self.nodes = []          # ("v", varindex) | ("and", lits) | ("or", lits)
        self.var_of = {}         # atom identifier -> model node number
        self.meaning = collections.OrderedDict()   # real positive key -> [model literal, ...]
        self.mutable = collections.OrderedDict()   # real positive key of a mutable node -> model node
        self.names = {}          # name -> {"labels": {label: model literal}, "compound": [model literal]}
        self.nvars = 0
        self.imm = {}            # (kind, lits) -> model node, immutable nodes only

    def new(self, node):
        self.nodes.append(node)
        return len(self.nodes)

    def lift(self, key):
        """model literal denoted by a real key (None if the key was never returned)"""
        if key is None or key == 0:
            return key
        refs = self.meaning.get(abs(key))
        if not refs:
            return "unknown"
        r = refs[0]
        if key > 0:
            return r
        return self.neg(r)

    @staticmethod
    def neg(r):
        if r is None:
            return 0
        if r == 0:
            return None
        return -r

    def bind(self, key, ref):
        """the builder returned ``key`` for the expression ``ref``"""
        if key is None or key == 0:
            return
        if key < 0:
            key, ref = -key, self.neg(ref)
        lst = self.meaning.setdefault(key, [])
        if ref not in lst:
            lst.append(ref)

    def tables(self):
        n = self.nvars
        full = (1 << (1 << n)) - 1
        vm = var_masks(n)
        g = [("v", vm[nd[1]]) if nd[0] == "v" else nd for nd in self.nodes]
        return graph_tables(g, full), full


def actual_tables(formula, model):
    """truth tables of the builder's actual node list (atoms are looked up by identifier)"""
    n = model.nvars
    full = (1 << (1 << n)) - 1
    vm = var_masks(n)
    g = []
    for i, nd, t in formula:
        if t == "atom":
            if nd.probability is None:      # keep_all: explicit deterministic-true atom
                g.append(("and", ()))
            elif nd.probability is False:   # keep_all: explicit deterministic-false atom
                g.append(("or", ()))
            else:
                mn = model.var_of.get(nd.identifier)
                if mn is None:
                    g.append(("v", "foreign"))      # e.g. the extra choice atom of an AD group
                else:
                    g.append(("v", vm[model.nodes[mn - 1][1]]))
        elif t == "conj":
            g.append(("and", tuple(nd.children)))
        elif t == "disj":
            g.append(("or", tuple(nd.children)))
        else:
            raise TypeError("unexpected node type %r" % t)
    # foreign atoms (the extra choice atom of an AD group) must not be reachable from judged keys:
    # a self-negating node evaluates to UNDEF (cycle through negation) and poisons whatever uses it
    g2 = [("or", (-(i + 1),)) if (nd[0] == "v" and nd[1] == "foreign") else nd for i, nd in enumerate(g)]
    return graph_tables(g2, full), full


def tt(v, nbits):
    if v is UNDEF:
        return "undefined(cycle through negation / foreign atom)"
    return format(v, "0%db" % nbits)


# ---------------------------------------------------------------------------------------------
# executing a history on the real builder and on the model

class Invalid(Exception):
    """the history is not a well-formed in-contract call sequence (only produced while shrinking)"""


def mk_formula(config):
    from problog.formula import LogicFormula

    kw = dict(DEFAULTS)
    kw.update(config or {})
    return LogicFormula(**kw)


def _grp(g):
    if g is None:
        return None
    return (g[0], tuple(g[1]))


def fmt_op(op):
    k = op[0]
    if k == "atom":
        return "add_atom(%r, %r%s)" % (op[1], op[2], "" if op[3] is None else ", group=%r" % (_grp(op[3]),))
    if k == "and":
        return "add_and(%r%s)" % (tuple(op[1]), "" if op[2] is None else ", name=%s" % op[2])
    if k == "or":
        extra = {"ro": "", "mut": ", readonly=False", "ph": ", placeholder=True"}[op[2]]
        return "add_or(%r%s%s)" % (tuple(op[1]), extra, "" if op[3] is None else ", name=%s" % op[3])
    if k == "dis":
        return "add_disjunct(%r, %r)" % (op[1], op[2])
    if k == "neg":
        return "negate(%r)" % (op[1],)
    if k == "name":
        return "add_name(%s, %r, %r)" % (op[1], op[2], op[3])
    return repr(op)


class Run(object):
    """Replays a history step by step on a fresh real LogicFormula and on the model."""

    def __init__(self, config):
        from problog.logic import Term

        self.Term = Term
        self.config = config or {}
        self.f = mk_formula(config)
        self.m = Model()
        self.used = set()     # keys of variable atoms referenced by a non-atom call so far
        self.error = None     # (symptom, text, expected, observed)
        self.last = None      # outcome class of the last call (evidence only)
        self.steps = 0

    # -- one call -------------------------------------------------------------------------
    def step(self, op, check=True):
        """describe ``op`` in the model, execute it on the builder and (if ``check``) compare every
        key returned so far; ``check=False`` is used for prefixes the BFS has verified already"""
        f, m = self.f, self.m
        kind = op[0]
        self.steps += 1
        for k in (op[1] if kind in ("and", "or") else [op[2]] if kind in ("dis", "name") else [op[1]] if kind == "neg" else []):
            if k is not None and k != 0:
                r0 = m.meaning.get(abs(k))
                if r0 and r0[0] is not None and r0[0] > 0 and m.nodes[r0[0] - 1][0] == "v":
                    self.used.add(abs(k))
        # 1. describe the call in the model (before executing: arguments are looked up first)
        if kind == "atom":
            ident, prob, group = op[1], op[2], op[3]
            if prob is None:
                ref = 0
            elif prob is False:
                ref = None
            else:
                ref = m.var_of.get(ident)
                if ref is None:
                    ref = m.new(("v", m.nvars))
                    m.nvars += 1
                    m.var_of[ident] = ref
            call = lambda: f.add_atom(ident, prob, group=_grp(group))
        elif kind in ("and", "or"):
            lits = [m.lift(k) for k in op[1]]
            if "unknown" in lits:
                raise Invalid("unknown key in %r" % (op,))
            if kind == "or" and op[2] == "ph" and op[1]:
                raise Invalid("placeholder with content")
            if not op[1] and not (kind == "or" and op[2] == "ph"):
                raise Invalid("empty content")
            if kind == "and" or op[2] == "ro":
                # identical immutable descriptions denote the same function forever: one model node
                ref = m.imm.get((kind, tuple(lits)))
                if ref is None:
                    ref = m.imm[(kind, tuple(lits))] = m.new((kind, tuple(lits)))
            else:
                ref = m.new((kind, tuple(lits)))
            name = None if op[-1] is None else self.Term(op[-1])
            if name is not None:
                m.names.setdefault(op[-1], {"labels": {}, "compound": []})["compound"].append(ref)
            if kind == "and":
                call = lambda: f.add_and(tuple(op[1]), name=name)
            elif op[2] == "ro":
                call = lambda: f.add_or(tuple(op[1]), name=name)
            elif op[2] == "mut":
                call = lambda: f.add_or(tuple(op[1]), readonly=False, name=name)
            else:
                call = lambda: f.add_or((), placeholder=True, name=name)
        elif kind == "dis":
            mk, k = op[1], op[2]
            if mk == 0:
                # documented: TRUE may be passed and is returned
                ref = 0
                mnode = None
            else:
                mnode = m.mutable.get(mk)
                if mnode is None:
                    raise Invalid("add_disjunct on a key that is not a mutable disjunction")
                lit = m.lift(k)
                if lit == "unknown":
                    raise Invalid("unknown key in %r" % (op,))
                nd = m.nodes[mnode - 1]
                m.nodes[mnode - 1] = ("or", nd[1] + (lit,))
                ref = mnode
            call = lambda: f.add_disjunct(mk, k)
        elif kind == "neg":
            lit = m.lift(op[1])
            if lit == "unknown":
                raise Invalid("unknown key in %r" % (op,))
            ref = m.neg(lit)
            call = lambda: f.negate(op[1])
        elif kind == "name":
            lit = m.lift(op[2])
            if lit == "unknown":
                raise Invalid("unknown key in %r" % (op,))
            label = op[3] if op[3] is not None else "named"
            m.names.setdefault(op[1], {"labels": {}, "compound": []})["labels"][label] = lit
            ref = "none"
            call = lambda: f.add_name(self.Term(op[1]), op[2], op[3])
        else:
            raise Invalid("unknown op %r" % (op,))

        # a description with a cycle through negation has no least-fixpoint meaning: outside the statement
        if check:
            mtabs, full = m.tables()
            if any(v is UNDEF for v in mtabs):
                raise Invalid("negcycle")

        # 2. execute on the real builder
        nbefore = len(f)
        dis_before = f.get_node(op[1]) if kind == "dis" and op[1] else None
        try:
            res = call()
        except Exception as e:  # in-contract call raised
            import traceback

            tb = traceback.extract_tb(e.__traceback__)
            fn = "?"
            for fr in tb:
                if "/problog/" in fr.filename:
                    fn = fr.name
            self.error = ("crash:%s@%s" % (type(e).__name__, fn),
                          "%s raised %s: %s" % (fmt_op(op), type(e).__name__, e), "a key", "%s" % type(e).__name__)
            return None

        nb = 1 << m.nvars
        if kind == "name":
            self.last = "name"
        elif res is None:
            self.last = kind + "->FALSE"
        elif res == 0:
            self.last = kind + "->TRUE"
        elif len(f) > nbefore:
            self.last = kind + "->new-node"
        elif kind == "dis":
            self.last = "dis->updated" if f.get_node(op[1]) != dis_before else "dis->unchanged"
        else:
            self.last = kind + "->existing-key"
        # 3. the returned key
        if kind != "name":
            if not (res is None or (isinstance(res, int) and not isinstance(res, bool))):
                self.error = ("wrong-return:" + kind, "%s returned %r, not a key" % (fmt_op(op), res), "a key", repr(res))
                return None
            if res is not None and res != 0 and abs(res) > len(f):
                self.error = ("wrong-return:" + kind, "%s returned key %r beyond the node list (%d nodes)"
                              % (fmt_op(op), res, len(f)), "a key of the formula", repr(res))
                return None
            m.bind(res, ref)
            if kind == "or" and op[2] in ("mut", "ph") and res is not None and res > 0:
                m.mutable[res] = ref
        if not check:
            return res
        # 4. compare every key ever returned
        try:
            atabs, _ = actual_tables(f, m)
        except (IndexError, TypeError, AssertionError) as e:
            self.error = ("broken-node-list:" + kind, "after %s the node list cannot be evaluated: %s" % (fmt_op(op), e),
                          "well-formed node list", str(e))
            return None
        if kind != "name":
            want = lit_table(mtabs, ref, full)
            got = lit_table(atabs, res, full)
            if want != got:
                self.error = ("wrong-return:" + kind,
                              "%s returned key %r with truth table %s; the described expression has %s"
                              % (fmt_op(op), res, tt(got, nb), tt(want, nb)), tt(want, nb), tt(got, nb))
                return None
        for key, refs in m.meaning.items():
            got = lit_table(atabs, key, full)
            for r in refs:
                want = lit_table(mtabs, r, full)
                if want != got:
                    self.error = ("meaning-changed:" + kind,
                                  "after %s the earlier key %r has truth table %s; the call sequence describes %s"
                                  % (fmt_op(op), key, tt(got, nb), tt(want, nb)), tt(want, nb), tt(got, nb))
                    return None
        # 5. names
        for nm in sorted(m.names):
            ent = m.names[nm]
            if not ent["labels"]:
                continue
            try:
                k = f.get_node_by_name(self.Term(nm))
            except KeyError:
                self.error = ("name-wrong:" + kind, "after %s name %s does not resolve (KeyError)" % (fmt_op(op), nm),
                              "a key", "KeyError")
                return None
            if k is not None and k != 0 and (not isinstance(k, int) or abs(k) > len(f)):
                self.error = ("name-wrong:" + kind, "after %s name %s resolves to %r" % (fmt_op(op), nm, k), "a key", repr(k))
                return None
            got = lit_table(atabs, k, full)
            allowed = [lit_table(mtabs, r, full) for r in list(ent["labels"].values()) + ent["compound"]]
            if got not in allowed:
                self.error = ("name-wrong:" + kind,
                              "after %s name %s resolves to key %r with truth table %s; described: %s"
                              % (fmt_op(op), nm, k, tt(got, nb), sorted(set(tt(a, nb) for a in allowed))),
                              sorted(set(tt(a, nb) for a in allowed)), tt(got, nb))
                return None
        self.mtabs, self.atabs, self.full = mtabs, atabs, full
        return res

    # -- canonical state ------------------------------------------------------------------
    def state(self):
        f, m = self.f, self.m
        nodes = repr(f._nodes) if hasattr(f, "_nodes") else repr(list(f))
        names = repr(sorted((str(l), sorted((str(k), v if v is not None else "F") for k, v in d.items()))
                            for l, d in f._names.items()))
        idx = repr((sorted(f._index_conj.items(), key=repr), sorted(f._index_disj.items(), key=repr)))
        mt = tuple((k, tuple(lit_table(self.mtabs, r, self.full) for r in refs)) for k, refs in m.meaning.items())
        mn = tuple(sorted((nm, tuple(sorted((l, lit_table(self.mtabs, r, self.full)) for l, r in e["labels"].items())),
                           tuple(sorted(set(lit_table(self.mtabs, r, self.full) for r in e["compound"]))))
                          for nm, e in m.names.items()))
        # the model graph itself: futures depend on which model nodes are shared/mutable
        mg = repr((m.nodes, list(m.meaning.items()), list(m.mutable.items())))
        full = repr((nodes, idx, names, mt, mn, mg, tuple(sorted(self.used))))
        return hashlib.blake2b(full.encode(), digest_size=16).digest()


def run_history(config, hist, check_all=True, guard=True):
    """-> (Run, error|None, invalid_reason|None).  The run stops at the first error.  With
    ``check_all=False`` only the last call is compared with the model (the BFS has compared every
    proper prefix before).  Builder calls contain no loops; the watchdog (``guard``) is kept for
    replays and shrinking and left out of the BFS inner loop (two signal() calls per history)."""
    r = Run(config)
    r.mtabs, r.atabs, r.full = [], [], 0
    n = len(hist)
    try:
        if guard:
            with watchdog(30):
                return _run(r, hist, n, check_all)
        return _run(r, hist, n, check_all)
    except Invalid as e:
        return r, None, str(e)


def _run(r, hist, n, check_all):
    for i, op in enumerate(hist):
        r.step(op, check=check_all or i == n - 1)
        if r.error:
            return r, r.error, None
    return r, None, None


# ---------------------------------------------------------------------------------------------
# menus

VARIANTS = {
    # name: (prefix of atom calls, symmetry classes of atom *keys* (interchangeable atoms))
    "plain": ([["atom", 1, 0.3, None], ["atom", 2, 0.6, None], ["atom", 3, 0.5, None]], [[1, 2, 3]]),
    "neutral": ([["atom", 1, 0.3, None], ["atom", 2, 0.6, None], ["atom", 3, True, None]], [[1, 2], [3]]),
    "group": ([["atom", 1, 0.3, None], ["atom", 2, 0.6, [7, []]], ["atom", 3, 0.5, [7, []]]], [[1], [2, 3]]),
    "det": ([["atom", 1, 0.3, None], ["atom", 2, 0.6, None], ["atom", 3, None, None]], [[1, 2]]),
}


class Info(object):
    """what a menu may depend on; everything here is a function of the canonical state"""

    def __init__(self, run, classes):
        m = run.m
        self.keys = list(m.meaning)                      # positive keys returned so far
        self.atoms = []
        for k in self.keys:
            r0 = m.meaning[k][0]
            if r0 is not None and r0 > 0 and m.nodes[r0 - 1][0] == "v":
                self.atoms.append(k)
        self.compound = [k for k in self.keys if k not in self.atoms]
        self.mutable = [k for k in m.mutable]
        self.used = set(run.used)
        self.classes = classes
        self.nnodes = len(run.f)
        self.names = sorted(m.names)
        self.identifiers = set(run.f._index_atom)


def canon_ok(args, info, polarity=True):
    """symmetry reduction: within a class of interchangeable atoms, atoms are first used in class
    order (and, with ``polarity``, first used positively)"""
    used = set(info.used)
    for a in args:
        if a is None or a == 0:
            continue
        k = abs(a)
        for cl in info.classes:
            if k in cl:
                i = cl.index(k)
                nused = len([x for x in cl if x in used])
                if k in used:
                    break
                if i != nused:
                    return False
                if polarity and a < 0:
                    return False
                used.add(k)
                break
    return True


def _uniq(ops):
    seen = set()
    res = []
    for o in ops:
        k = repr(o)
        if k not in seen:
            seen.add(k)
            res.append(o)
    return res


def menu(info, level):
    """the calls offered in a state; ``level`` in rich / medium / narrow (see C11.rule)"""
    atoms = list(info.atoms)
    comp = info.compound
    consts = [0, None]
    nmut = len(info.mutable)
    ops = []

    def ok(*args):
        return canon_ok(args, info, True)

    def both(keys):
        res = []
        for k in keys:
            res += [k, -k]
        return res

    if level == "narrow":
        r = comp[-1] if comp else None
        # partner atom: the next atom in canonical first-use order, else the first atom
        a = None
        for x in atoms:
            if ok(x) and x not in info.used:
                a = x
                break
        if a is None and atoms:
            a = atoms[0]
        if r is None:
            foci = [x for x in atoms[:1]]
        else:
            foci = [r]
        for x in foci:
            for y in [a] + [m for m in info.mutable if m != x]:
                if y is None or abs(y) == abs(x):
                    continue
                for t in ((x, y), (-x, y)):
                    if ok(*t):
                        ops.append(["and", list(t), None])
                        ops.append(["or", list(t), "ro", None])
            if nmut < 2 and ok(x):
                ops.append(["or", [x], "mut", None])
            if ok(x):
                ops.append(["neg", x])
        if nmut < 2:
            ops.append(["or", [], "ph", None])
        for mk in info.mutable:
            for x in ([r, -r] if r is not None else []) + [a, 0]:
                if x is None and x != 0:
                    continue
                if x != mk and ok(x):
                    ops.append(["dis", mk, x])
        return _uniq(ops)

    W = comp if level == "rich" else comp[-2:]
    pos = atoms + W
    lits = both(pos)
    tuples = []
    for x in (lits if level == "rich" else pos) + consts:
        tuples.append((x,))
    if level == "rich":
        allx = lits + consts
        for i, x in enumerate(allx):
            for y in allx[i:]:
                tuples.append((x, y))
    else:
        for i, x in enumerate(pos):
            tuples += [(x, x), (x, -x), (x, 0), (x, None)]
            for y in pos[i + 1:]:
                tuples += [(x, y), (x, -y), (-x, y)]
    # triples: duplicate / complement / constant inside / three distinct atoms
    tx = pos if level == "rich" else (W[-1:] or atoms[:1])
    for x in tx:
        for y in pos:
            if x == y:
                continue
            tuples += [(x, y, x), (x, y, -x), (x, 0, y), (x, None, y)]
    for x, y, z in itertools.combinations(atoms, 3):
        tuples += [(x, y, z), (x, -y, z)]
    tuples = [t for t in tuples if ok(*t)]
    for t in tuples:
        ops.append(["and", list(t), None])
        ops.append(["or", list(t), "ro", None])
        if nmut < 2 and (len(t) == 1 or (level == "rich" and len(t) == 2)):
            ops.append(["or", list(t), "mut", None])
    if nmut < 2:
        ops.append(["or", [], "ph", None])
    for mk in info.mutable:
        for x in (both(atoms + comp) if level == "rich" else lits) + consts:
            if ok(x):
                ops.append(["dis", mk, x])
    for x in consts + both(atoms[:1] + W[-1:]):
        if ok(x):
            ops.append(["neg", x])
    return _uniq(ops)


def names_menu(info):
    """the naming slice: add_name on few keys / labels, compound calls with name= (drives
    avoid_name_clash and the single-child collapse that re-labels a child)"""
    atoms = list(info.atoms)
    comp = info.compound
    ops = []
    r = comp[-1] if comp else None
    a1 = atoms[0] if atoms else None
    a2 = atoms[1] if len(atoms) > 1 else None
    nmut = len(info.mutable)

    def ok(*args):
        return canon_ok(args, info, False)

    keys = [x for x in (a1, r) if x is not None]
    for x in keys:
        for y in (x, -x):
            ops.append(["name", "q1", y, None])
        ops.append(["name", "q1", x, "query"])
        ops.append(["name", "q2", x, None])
        for nm in ("q1", "q2"):
            ops.append(["and", [x], nm])
            ops.append(["or", [x], "ro", nm])
        ops.append(["or", [-x], "ro", "q1"])
        if nmut < 2:
            ops.append(["or", [x], "mut", "q1"])
    for c in (0, None):
        ops.append(["name", "q1", c, None])
    if a1 is not None and a2 is not None:
        for nm in ("q1", "q2"):
            ops.append(["and", [a1, a2], nm])
            ops.append(["or", [a1, a2], "ro", nm])
        ops.append(["and", [a1, a2], None])
    if r is not None and a1 is not None and r != a1:
        ops.append(["and", [r, a1], "q2"])
        ops.append(["or", [r, a1], "ro", "q2"])
    for mk in info.mutable:
        for x in keys:
            if x != mk:
                ops.append(["dis", mk, x])
    return _uniq([o for o in ops if ok(*(o[1] if o[0] in ("and", "or") else [o[2]]))])


def atom_menu(info):
    """add_atom calls offered in rich states: re-adding an existing identifier (must return the same
    key), deterministic atoms (probability None / False: TRUE / FALSE unless keep_all)"""
    ops = [["atom", 1, 0.9, None]]
    if 9 not in info.identifiers:
        ops.append(["atom", 9, None, None])
    if 8 not in info.identifiers:
        ops.append(["atom", 8, False, None])
    return ops


def level_menu(info, level):
    if level == "names":
        return names_menu(info)
    ops = menu(info, level)
    if level == "rich":
        ops = ops + atom_menu(info)
        if info.atoms:
            ops.append(["dis", 0, info.atoms[0]])    # documented: TRUE may be passed and is returned
    return ops


# ---------------------------------------------------------------------------------------------
# configurations, plans, shards

def config_list(tier):
    """deviations from the default builder configuration"""
    opts = [("auto_compact", False), ("keep_order", True), ("keep_duplicates", True), ("keep_all", True),
            ("avoid_name_clash", True), ("max_arity", 2)]
    if tier == "thorough":
        res = []
        for r in range(len(opts) + 1):
            for sub in itertools.combinations(opts, r):
                res.append(dict(sub))
        return res
    res = [{}] + [dict([o]) for o in opts]
    pairs = [("keep_all", "max_arity"), ("keep_duplicates", "max_arity"), ("auto_compact", "keep_duplicates"),
             ("keep_order", "keep_duplicates"), ("avoid_name_clash", "keep_all"), ("auto_compact", "max_arity")]
    d = dict(opts)
    for a, b in pairs:
        res.append({a: d[a], b: d[b]})
    return res


R, M, N, Q = "rich", "medium", "narrow", "names"
PLANS = {
    # per tier: (plan name, atom variant, menu level per depth, number of shards, configuration filter)
    "quick": [
        ("rr", "plain", [R, R], 2, "all"),
        ("mmm", "plain", [M, M, M], 16, "le1"),
        ("mmn", "plain", [M, M, N], 2, "gt1"),
        ("rmnn", "plain", [R, M, N, N], 12, "le1"),
        ("rnnnn", "plain", [R, N, N, N, N], 12, "le1"),
        ("rnnn", "plain", [R, N, N, N], 2, "gt1"),
        ("qqq", "plain", [Q, Q, Q], 2, "all"),
        ("mqq", "plain", [M, Q, Q], 4, "names"),
        ("v-neutral", "neutral", [R, M], 1, "variants"),
        ("v-group", "group", [R, M], 1, "variants"),
        ("v-det", "det", [R, M], 1, "variants"),
        ("v-group-n", "group", [M, N, N, N], 2, "variants"),
        ("v-det-n", "det", [M, N, N, N], 2, "variants"),
    ],
    "thorough": [
        ("rrm", "plain", [R, R, M], 24, "le2"),
        ("mmm", "plain", [M, M, M], 8, "all"),
        ("rnnnn", "plain", [R, N, N, N, N], 8, "all"),
        ("rnnnnn", "plain", [R, N, N, N, N, N], 24, "le1"),
        ("rmnnn", "plain", [R, M, N, N, N], 24, "le1"),
        ("qqqq", "plain", [Q, Q, Q, Q], 8, "le2"),
        ("qqq", "plain", [Q, Q, Q], 1, "gt2"),
        ("mqq", "plain", [M, Q, Q], 4, "le2"),
        ("v-neutral", "neutral", [R, M, N], 2, "le1"),
        ("v-group", "group", [R, M, N], 2, "le1"),
        ("v-det", "det", [R, M, N], 2, "le1"),
        ("v-group-n", "group", [M, N, N, N, N], 4, "le1"),
        ("v-det-n", "det", [M, N, N, N, N], 4, "le1"),
    ],
}


def _filter(cfg, flt):
    if flt == "all":
        return True
    if flt == "names":
        return cfg == {} or "avoid_name_clash" in cfg or cfg == {"keep_all": True}
    if flt == "variants":
        return cfg in ({}, {"keep_all": True}, {"auto_compact": False})
    if flt == "le2":
        return len(cfg) <= 2
    if flt == "gt1":
        return len(cfg) > 1
    if flt == "gt2":
        return len(cfg) > 2
    if flt == "le1":
        return len(cfg) <= 1
    raise ValueError(flt)


class Explorer(object):
    """one BFS (one config, variant, plan, chunk of first-level calls)"""

    def __init__(self, config, variant, levels, acc=None):
        self.config = config
        self.prefix, self.classes = VARIANTS[variant]
        self.levels = levels
        self.maxlen = len(self.prefix) + len(levels)
        self.infos = {}
        self.acc = acc
        self.outcomes = collections.Counter()
        self.invalid = collections.Counter()

    def apply(self, h):
        r, err, inv = run_history(self.config, h, check_all=False, guard=False)
        if inv:
            self.invalid[inv.split(" ")[0]] += 1
            return ("invalid", inv), None
        if err:
            return None, err
        self.outcomes[r.last] += 1
        st = r.state()
        if len(h) < self.maxlen and st not in self.infos:     # states at the depth bound are never expanded
            self.infos[st] = Info(r, self.classes)
        return st, None

    def ops(self, h, s):
        if isinstance(s, tuple):
            return []
        d = len(h) - len(self.prefix)
        m = level_menu(self.infos[s], self.levels[d])
        if d == 0 and self.chunk is not None:
            j, k = self.chunk
            m = [o for i, o in enumerate(m) if i % k == j]
        return m

    def run(self, chunk, on_violation):
        self.chunk = chunk
        stats = collections.Counter()
        bfs_histories(self.apply, self.ops, len(self.prefix) + len(self.levels), prefix=self.prefix,
                      on_violation=on_violation, stats=stats)
        return stats


# ---------------------------------------------------------------------------------------------
# shrinking: histories are re-keyed after an op is dropped

def _args_of(op):
    k = op[0]
    if k in ("and", "or"):
        return list(op[1])
    if k == "dis":
        return [op[1], op[2]]
    if k == "neg":
        return [op[1]]
    if k == "name":
        return [op[2]]
    return []


def _with_args(op, args):
    k = op[0]
    if k == "and":
        return ["and", list(args), op[2]]
    if k == "or":
        return ["or", list(args), op[2], op[3]]
    if k == "dis":
        return ["dis", args[0], args[1]]
    if k == "neg":
        return ["neg", args[0]]
    if k == "name":
        return ["name", op[1], args[0], op[3]]
    return list(op)


def _raw_call(f, op):
    from problog.logic import Term

    k = op[0]
    if k == "atom":
        return f.add_atom(op[1], op[2], group=_grp(op[3]))
    if k == "and":
        return f.add_and(tuple(op[1]), name=None if op[2] is None else Term(op[2]))
    if k == "or":
        nm = None if op[3] is None else Term(op[3])
        if op[2] == "ro":
            return f.add_or(tuple(op[1]), name=nm)
        if op[2] == "mut":
            return f.add_or(tuple(op[1]), readonly=False, name=nm)
        return f.add_or((), placeholder=True, name=nm)
    if k == "dis":
        f.add_disjunct(op[1], op[2])
        return op[1]  # the documented return value
    if k == "neg":
        return f.negate(op[1])
    if k == "name":
        f.add_name(Term(op[1]), op[2], op[3])
        return "none"


def symbolize(config, hist):
    """literal keys -> ("c", const) | (sign, index of the first call that returned |key|)"""
    f = mk_formula(config)
    first = {}
    sym = []
    for i, op in enumerate(hist):
        args = []
        for a in _args_of(op):
            if a is None or a == 0:
                args.append(["c", a])
            elif abs(a) in first:
                args.append([1 if a > 0 else -1, first[abs(a)]])
            else:
                return None
        sym.append((op, args))
        try:
            res = _raw_call(f, op)
        except Exception:
            res = "none"
            if i != len(hist) - 1:
                return None
        if isinstance(res, int) and not isinstance(res, bool) and res != 0 and abs(res) not in first:
            first[abs(res)] = i
    return sym


def concretize(config, sym):
    f = mk_formula(config)
    results = []
    hist = []
    for i, (op, args) in enumerate(sym):
        lits = []
        for a in args:
            if a[0] == "c":
                lits.append(a[1])
            else:
                r = results[a[1]]
                if not isinstance(r, int) or isinstance(r, bool) or r == 0:
                    return None
                lits.append(r if a[0] > 0 else -r)
        op2 = _with_args(op, lits)
        hist.append(op2)
        try:
            results.append(_raw_call(f, op2))
        except Exception:
            results.append("none")
            if i != len(sym) - 1:
                return None
    return hist


def _rank(a):
    if a == ["c", 0]:
        return 0
    if a == ["c", None]:
        return 1
    if a == [1, 0]:
        return 2
    return 3


def shrink_candidates(case):
    config, hist = case["config"], case["history"]
    # 1. fewer configuration deviations
    for k in sorted(config):
        c2 = dict(config)
        del c2[k]
        sym = symbolize(config, hist)
        if sym is None:
            continue
        h2 = concretize(c2, sym)
        if h2 is not None:
            yield {"config": c2, "history": h2}
    sym = symbolize(config, hist)
    if sym is None:
        return
    n = len(sym)
    # 2. drop one call (later references are renumbered; calls that used its result make the candidate invalid)
    for i in range(n - 1, -1, -1):
        s2 = []
        bad = False
        for j, (op, args) in enumerate(sym):
            if j == i:
                continue
            a2 = []
            for a in args:
                if a[0] != "c":
                    if a[1] == i:
                        bad = True
                        break
                    a = [a[0], a[1] - 1 if a[1] > i else a[1]]
                a2.append(a)
            if bad:
                break
            s2.append((op, a2))
        if bad:
            continue
        h2 = concretize(config, s2)
        if h2 is not None:
            yield {"config": config, "history": h2}
    # 3. simpler calls: mutable disjunction -> empty placeholder, constant arguments, fewer arguments,
    #    the first atom as argument, no name, plain atoms
    for j in range(n - 1, -1, -1):
        op, args = sym[j]
        if op[0] == "or" and op[2] == "mut":
            s2 = list(sym)
            s2[j] = (["or", [], "ph", op[3]], [])
            h2 = concretize(config, s2)
            if h2 is not None:
                yield {"config": config, "history": h2}
        for x, a in enumerate(args):
            if op[0] == "dis" and x == 0:
                continue
            # strictly simpler only (TRUE < FALSE < first atom < anything else): no ping-pong
            for repl in (["c", 0], ["c", None], [1, 0]):
                if _rank(repl) < _rank(a) and not (repl == [1, 0] and j == 0):
                    s2 = list(sym)
                    s2[j] = (op, args[:x] + [repl] + args[x + 1:])
                    h2 = concretize(config, s2)
                    if h2 is not None:
                        yield {"config": config, "history": h2}
        if op[0] in ("and", "or") and len(args) > 1:
            for x in range(len(args)):
                s2 = list(sym)
                s2[j] = (op, args[:x] + args[x + 1:])
                h2 = concretize(config, s2)
                if h2 is not None:
                    yield {"config": config, "history": h2}
        if op[0] in ("and", "or") and op[-1] is not None:
            s2 = list(sym)
            s2[j] = (op[:-1] + [None], args)
            h2 = concretize(config, s2)
            if h2 is not None:
                yield {"config": config, "history": h2}
        if op[0] == "atom" and (op[2] not in (0.5,) or op[3] is not None) and op[2] is not None and op[2] is not False:
            s2 = list(sym)
            s2[j] = (["atom", op[1], 0.5, None], args)
            h2 = concretize(config, s2)
            if h2 is not None:
                yield {"config": config, "history": h2}
    # 4. atom identifiers renumbered 1.. in order of appearance
    ids = []
    for op, _ in sym:
        if op[0] == "atom" and op[1] not in ids:
            ids.append(op[1])
    if ids != list(range(1, len(ids) + 1)):
        s2 = [((["atom", ids.index(op[1]) + 1] + op[2:]) if op[0] == "atom" else op, args) for op, args in sym]
        h2 = concretize(config, s2)
        if h2 is not None:
            yield {"config": config, "history": h2}


def symptom_of(case):
    r, err, inv = run_history(case["config"], case["history"], check_all=True)
    if inv or not err:
        return None, None
    return err[0], err


# ---------------------------------------------------------------------------------------------

class C11(Prop):
    pid = "C11"
    title = "The ground-program builder preserves Boolean meaning"
    technique = ("explicit-state BFS (E2) over histories of builder calls on the real LogicFormula; after every call "
                 "the truth table of every key ever returned, evaluated on the builder's actual node list (least "
                 "fixpoint on cycles), is compared with a symbolic model of the expression the call sequence describes")
    rule = ("histories = 3 add_atom calls (variants: plain / third atom neutral weight / atoms 2,3 in one AD group / "
            "third atom probability None) followed by <= 5 (quick) / <= 6 (thorough) calls from a per-depth menu over "
            "{add_and, add_or readonly/mutable/placeholder, add_disjunct, negate, add_atom (re-add, None, False), "
            "add_name, compound name=}; keys range over TRUE, FALSE and +-keys returned so far.  Menu levels: rich = "
            "all keys, all unordered pairs incl. constants/duplicates/complements, pattern triples; medium = atoms + "
            "the 2 newest compound keys; narrow = calls that combine the newest key (both signs) with the next atom / "
            "a mutable node, add_disjunct of those into every mutable node, <= 2 mutable nodes; names = naming slice. "
            "Plans (levels per depth) per builder configuration are listed in counters.  Symmetry reduction: "
            "interchangeable atoms are first used in index order and (outside the naming slice) first used positively "
            "- sound because the builder inspects keys only through ==, abs(), set membership and sign, never by "
            "magnitude or identity, so a history and its image under an atom permutation / polarity flip produce "
            "node lists that are images of each other and violate together.  State = digest of (node list, "
            "hash-consing tables, names, model graph and tables, atoms used): exact, merged states have equal futures. "
            "A transition is non-trivial when it reaches a new canonical state.")
    assumptions = [
        "a description with a cycle through negation has no least-fixpoint meaning: such add_disjunct calls are not executed (counted invalid_negcycle)",
        "add_disjunct is only called on keys returned by add_or(readonly=False / placeholder=True) or TRUE (its documented domain); add_or(()) without placeholder trips the documented 'assert content' and is not called",
        "a mutable disjunction that the builder folded to TRUE/FALSE cannot be extended; not called",
        "a name that was described more than once (several labels, compound name=) may resolve to any of its described meanings",
        "atoms with probability None/False kept by keep_all are read as the constants TRUE/FALSE (extract_weights gives them semiring.true()/false())",
        "keep_order / keep_duplicates / keep_all / auto_compact legitimately change the node list; only meanings are judged",
        "truth tables are computed by one evaluator (vf R2) for both graphs; it is validated against a naive per-assignment evaluator in precheck",
    ]
    # sized for ~60 s (quick) / ~15 min (thorough) on 16 idle cores (~150 us of CPU per transition); the
    # budget only caps runs on a heavily shared machine
    budget = {"quick": 900, "thorough": 5400}

    def shards(self, tier):
        res = []
        for ci, cfg in enumerate(config_list(tier)):
            for pname, variant, levels, chunks, flt in PLANS[tier]:
                if not _filter(cfg, flt):
                    continue
                for j in range(chunks):
                    res.append([cfg, variant, pname, levels, j, chunks])
        # big plans first so that the pool stays busy
        res.sort(key=lambda s: -len(s[3]))
        return res

    def run_shard(self, shard, tier, acc):
        cfg, variant, pname, levels, j, chunks = shard
        ex = Explorer(cfg, variant, levels)

        stale = collections.Counter()   # per symptom: consecutive violations whose shrunk key was known already

        def on_violation(hist, err):
            case = {"config": cfg, "history": hist}
            sym = err[0]
            if stale[sym] >= 40:
                # the same symptom class kept shrinking to known keys: count, do not shrink again
                acc.violation_count += 1
                acc.counters["violations_counted_without_shrinking"] += 1
                return

            def fails(c):
                s, _ = symptom_of(c)
                return s == sym

            small = shrink(case, shrink_candidates, fails, limit=5000)
            s, e = symptom_of(small)
            if s != sym:  # cannot happen (the unshrunk case was just observed); stay sound
                small, e = case, err
            before = len(acc.violations)
            acc.violation(sym, small, expected=e[2], observed=e[3],
                          what="%s | %s" % (e[1], "; ".join(fmt_op(o) for o in small["history"])))
            if len(acc.violations) == before:
                stale[sym] += 1
            else:
                stale[sym] = 0

        stats = ex.run((j, chunks), on_violation)
        ninv = sum(ex.invalid.values())
        acc.states += stats["states"] - (1 if ninv else 0)
        acc.nontrivial += max(0, stats["states"] - 1 - (1 if ninv else 0))
        acc.transitions += stats["transitions"]
        acc.evaluations += stats["transitions"] + 1
        acc.traces += stats["transitions"] + 1 - ninv
        for k, v in ex.invalid.items():
            acc.counters["invalid_" + k] += v
        acc.counters["plan_%s_transitions" % pname] += stats["transitions"]
        acc.counters["plan_%s_states" % pname] += stats["states"]
        acc.counters["violating_transitions"] += stats["violating_transitions"]
        acc.outcomes.update(ex.outcomes)
        acc.counters["transitions_to_new_state"] += stats["states"] - 1
        acc.counters["transitions_merged"] += stats["transitions"] - (stats["states"] - 1) - stats["violating_transitions"]
        if j == 0:
            acc.sample({"config": cfg, "variant": variant, "plan": pname, "levels": levels, "chunk": "%d/%d" % (j, chunks),
                        "states": stats["states"], "transitions": stats["transitions"]})

    def precheck(self, tier):
        return precheck()

    def replay(self, case):
        r, err, inv = run_history(case["config"], case["history"], check_all=True)
        if inv:
            return dict(ok=True, expected="-", observed="history outside the statement: %s" % inv)
        if err:
            return dict(ok=False, expected=err[2], observed="%s | %s" % (err[3], err[1]))
        return dict(ok=True, expected="every returned key keeps its described truth table",
                    observed="agrees after %d calls: %s" % (len(case["history"]),
                                                            {k: [tt(lit_table(r.mtabs, x, r.full), 1 << r.m.nvars) for x in v]
                                                             for k, v in r.m.meaning.items()}))


def _naive_tables(nodes, nvars):
    """independent reference: per assignment Kleene iteration from all-false on and/or nodes;
    only valid for graphs without cycles through negation"""
    n = len(nodes)
    out = [0] * n
    for a in range(1 << nvars):
        val = [False] * n
        for _ in range(n + 2):
            new = list(val)
            for i, nd in enumerate(nodes):
                if nd[0] == "v":
                    new[i] = bool((a >> nd[1]) & 1)
                else:
                    vs = []
                    for c in nd[1]:
                        if c is None:
                            vs.append(False)
                        elif c == 0:
                            vs.append(True)
                        else:
                            x = new[abs(c) - 1] if abs(c) - 1 < i else val[abs(c) - 1]
                            vs.append(x if c > 0 else not x)
                    new[i] = all(vs) if nd[0] == "and" else any(vs)
            if new == val:
                break
            val = new
        for i in range(n):
            if val[i]:
                out[i] |= 1 << a
    return out


def precheck():
    """(1) the bit-mask evaluator agrees with a naive per-assignment evaluator on every model graph of
    the [medium, narrow, narrow] histories of the default configuration; (2) determinism: the same
    history replayed twice gives the same canonical state."""
    ex = Explorer({}, "plain", [M, N, N])
    seen = 0
    graphs = []

    def apply(h):
        r, err, inv = run_history({}, h, check_all=True)
        if inv:
            return ("invalid", inv), None
        if err:
            return ("violating", len(graphs)), None
        graphs.append((list(r.m.nodes), r.m.nvars))
        st = r.state()
        if st not in ex.infos:
            ex.infos[st] = Info(r, ex.classes)
        return st, None

    ex.apply = apply
    ex.run(None, None)
    bad = 0
    for nodes, nv in graphs:
        full = (1 << (1 << nv)) - 1
        vm = var_masks(nv)
        g = [("v", vm[nd[1]]) if nd[0] == "v" else nd for nd in nodes]
        fast = graph_tables(g, full)
        if any(v is UNDEF for v in fast):
            continue
        if fast != _naive_tables(nodes, nv):
            bad += 1
        seen += 1
    if bad:
        raise RuntimeError("C11 reference evaluator disagrees with the naive evaluator on %d model graphs" % bad)
    h = VARIANTS["plain"][0] + [["or", [1], "mut", None], ["and", [4, 2], None], ["dis", 4, 5], ["or", [5, -3], "ro", None]]
    s1 = run_history({}, h)[0]
    s2 = run_history({}, h)[0]
    det = (s1.error is None and s2.error is None and s1.state() == s2.state()) or (s1.error == s2.error and s1.error is not None)
    if not det:
        raise RuntimeError("C11 determinism self-test failed")
    return {"reference_validated_on_model_graphs": seen, "determinism_selftest": "ok"}


PROP = C11()
