"""C33 the soft-cut library picks the lowest-indexed applicable rule.

E3: bounded-exhaustive enumeration of indexed rule sets r(I, K, v_I) on the real implementation
(`library(cut)`, problog/library/cut.pl) against the closed-form expectation

    cut(r(K,X))   has exactly the answers of the applicable rule with the smallest index
    cut(r(K,X),I) additionally returns that index
    P(rule i answers) = app_i * prod_{j<i} (1 - app_j)      for independent probabilistic conditions

where "smallest" is taken in the reference order R5 (vf/ref/stdorder.py; numeric for integers).

Families
  det   deterministic conditions, run with engine.query on a prepared database.  Every index
        subset S of {1,2,3,9,10,11,15} up to the size bound, EVERY file order of S, every
        applicability pattern (each rule applicable or not for each of the call arguments a and b)
        in two realisations:
          head style  r(I,a,v). / r(I,b,v). / r(I,_,v). / r(I,c,v).   (inapplicable = no clause matches)
          body style  r(I,X,v) :- t(I,X).  with the facts t(I,a) / t(I,b) present or not
                                                                    (inapplicable = the body fails)
        and the calls cut/1 and cut/2 for both arguments (see BOUNDS for what quick leaves out).
  struct (a stratum of det, same machinery) structured keys: the key of a rule ranges over terms with and
        without variables  f(_) f(a) f(b) g(a,_) g(_,b) [_|_] [a] _ a  and the calls use the ground compound
        keys f(a) f(b) g(a,b) [a].  Applicability is decided by the reference matcher ``matches`` (linear
        pattern against ground term) on terms parsed by ``parse_term``:
          head style  r(I,<key>,v).                      (applicable = the head key unifies with the call key)
          body style  r(I,X,v) :- t(I,X).  t(I,<key>).    (applicable = the body condition holds)
        Index subsets of {1,2,3,10} of size <= 3, every file order, cut/1 and cut/2 (see STRUCT_BOUNDS).
  prob  probabilistic conditions, run through the default inference pipeline (vf.plrun.infer):
        per rule one of N (no clause matches), D (fact), P (:- q(I)), Q (:- \\+ q(I)) with
        independent facts p_I::q(I); queries cut(r(a,X)) and cut(r(a,X),I).

To amortise the 9 ms that loading library(cut) costs, the rule sets of one shard live in ONE program
under distinct predicate names (r0, r1, ...; cut only looks at the predicate it is given).  A
mismatch is re-executed as a stand-alone program (exactly what ``replay`` runs) before it counts.
"""
import itertools
import os
from functools import cmp_to_key

from ..core import Prop, shrink
from ..ref import stdorder as R

ALPHABET = [1, 2, 3, 9, 10, 11, 15]
PROB = {1: 0.3, 2: 0.6, 3: 0.5, 9: 0.2, 10: 0.7, 11: 0.4, 15: 0.9}
HEADER = ":- use_module(library(cut)).\n"

# deterministic rule kinds: name -> (applicable for a, applicable for b); simplest first
DET_KINDS = {
    "HA": (1, 0), "HN": (0, 0), "HV": (1, 1), "HB": (0, 1),
    "BA": (1, 0), "BN": (0, 0), "BV": (1, 1), "BB": (0, 1),
}
HEAD_KINDS = ["HN", "HA", "HB", "HV"]
BODY_KINDS = ["BN", "BA", "BB", "BV"]
DET_ORDER = ["HA", "HN", "HV", "HB", "BA", "BN", "BV", "BB"]
PROB_KINDS = {"quick": ["N", "D", "P", "M"], "thorough": ["N", "D", "P", "Q", "M"]}
PROB_KINDS_SIZE4 = ["N", "D", "P"]
PROB_ORDER = ["D", "N", "P", "Q", "M"]

# what each tier enumerates; (size, styles, patterns, queries)
#   patterns "ab": 4^k (applicable or not for each of a, b); "a": 2^k (call argument a only)
#   queries: list of (variant, argument)
ALLQ = [("cut1", "a"), ("cut2", "a"), ("cut1", "b"), ("cut2", "b")]
# over the 4^k patterns every a-column meets every b-column, so cut/1 on a and cut/2 on b together
# still put every applicability vector through both variants
CROSSQ = [("cut1", "a"), ("cut2", "b")]
BOUNDS = {
    "quick": {
        "det": [
            (1, ["head", "body"], "ab", {"head": ALLQ, "body": ALLQ}),
            (2, ["head", "body"], "ab", {"head": ALLQ, "body": ALLQ}),
            (3, ["head", "body"], "a", {"head": [("cut1", "a"), ("cut2", "a")], "body": [("cut1", "a"), ("cut2", "a")]}),
            (4, ["head"], "a2", {"head": [("cut2", "a")]}),
        ],
        "prob": [(1, ["cut1", "cut2"]), (2, ["cut1", "cut2"]), (3, ["cut2"])],
    },
    "thorough": {
        "det": [
            (1, ["head", "body"], "ab", {"head": ALLQ, "body": ALLQ}),
            (2, ["head", "body", "mixed"], "ab", {"head": ALLQ, "body": ALLQ, "mixed": ALLQ}),
            (3, ["head", "body", "mixed"], "ab", {"head": ALLQ, "body": ALLQ, "mixed": CROSSQ}),
            (4, ["head"], "ab", {"head": CROSSQ}),
            (4, ["body"], "a", {"body": [("cut1", "a"), ("cut2", "a")]}),
        ],
        "prob": [(1, ["cut1", "cut2"]), (2, ["cut1", "cut2"]), (3, ["cut1", "cut2"]), (4, ["cut1", "cut2"])],
    },
}

# structured keys (stratum "struct"); simplest first (the shrinker walks towards the front)
STRUCT_INDICES = [1, 2, 3, 10]
STRUCT_PATS = ["a", "_", "f(a)", "f(b)", "f(_)", "[a]", "[_|_]", "g(a,_)", "g(_,b)"]
STRUCT_PATS7 = ["a", "_", "f(a)", "f(b)", "f(_)", "[_|_]", "g(a,_)"]
STRUCT_PATS4 = ["_", "f(_)", "[_|_]", "g(a,_)"]
STRUCT_CALLS = ["f(a)", "f(b)", "g(a,b)", "[a]"]
CALL_ORDER = ["a", "b"] + STRUCT_CALLS
STRUCT_ALLQ = [(v, c) for c in STRUCT_CALLS for v in ("cut1", "cut2")]
STRUCT_CROSSQ = [("cut1", "f(a)"), ("cut2", "f(b)"), ("cut2", "g(a,b)"), ("cut1", "[a]")]
# (size, styles, key alphabet, queries)
STRUCT_BOUNDS = {
    "quick": [
        (1, ["head", "body"], STRUCT_PATS7, STRUCT_ALLQ),
        (2, ["head", "body"], STRUCT_PATS7, STRUCT_ALLQ),
        (3, ["head", "body"], STRUCT_PATS4, STRUCT_CROSSQ),
    ],
    "thorough": [
        (1, ["head", "body"], STRUCT_PATS, STRUCT_ALLQ),
        (2, ["head", "body"], STRUCT_PATS, STRUCT_ALLQ),
        (3, ["head", "body"], STRUCT_PATS7, STRUCT_ALLQ),
    ],
}
DET_ORDER_ALL = DET_ORDER + ["H:" + p for p in STRUCT_PATS] + ["B:" + p for p in STRUCT_PATS]


def least(indices):
    """the smallest index in the standard order of terms (reference R5)"""
    return sorted(indices, key=cmp_to_key(R.compare))[0]


# ---------------------------------------------------------------------------------------------
# program text

def parse_term(text):
    """reference term reader for the key alphabet: atom -> 'a', variable -> '_' (every occurrence a
    fresh variable), compound -> [functor, arg, ...], list cell -> ['.', head, tail], '[]'"""
    pos = [0]

    def peek():
        return text[pos[0]] if pos[0] < len(text) else ""

    def eat(ch):
        if peek() != ch:
            raise ValueError("bad term %r at %d" % (text, pos[0]))
        pos[0] += 1

    def term():
        c = peek()
        if c == "[":
            eat("[")
            if peek() == "]":
                eat("]")
                return "[]"
            items = [term()]
            while peek() == ",":
                eat(",")
                items.append(term())
            tail = "[]"
            if peek() == "|":
                eat("|")
                tail = term()
            eat("]")
            for it in reversed(items):
                tail = [".", it, tail]
            return tail
        if c == "_":
            eat("_")
            return "_"
        n = pos[0]
        while peek().isalnum():
            pos[0] += 1
        name = text[n:pos[0]]
        if not name or not name[0].islower():
            raise ValueError("bad term %r at %d" % (text, n))
        if peek() != "(":
            return name
        eat("(")
        args = [term()]
        while peek() == ",":
            eat(",")
            args.append(term())
        eat(")")
        return [name] + args

    t = term()
    if pos[0] != len(text):
        raise ValueError("trailing text in %r" % text)
    return t


def matches(pattern, ground):
    """does the linear pattern (every '_' a distinct variable) unify with the ground term?"""
    if pattern == "_":
        return True
    if isinstance(pattern, str) or isinstance(ground, str):
        return pattern == ground
    return len(pattern) == len(ground) and pattern[0] == ground[0] and all(
        matches(p, g) for p, g in zip(pattern[1:], ground[1:]))


_OLD_KEYS = {"HA": ["a"], "HB": ["b"], "HV": ["_"], "HN": ["c"], "BA": ["a"], "BB": ["b"], "BV": ["a", "b"], "BN": []}


def kind_keys(kind):
    """the key terms of a rule kind: the head key (head style) or the keys of its t/2 facts (body style)"""
    if kind in _OLD_KEYS:
        return _OLD_KEYS[kind]
    if kind[:2] in ("H:", "B:"):
        return [kind[2:]]
    raise ValueError(kind)


def applicable(kind, arg):
    """reference: is a rule of this kind applicable to the call key `arg` (ground term text)"""
    g = parse_term(arg)
    return any(matches(parse_term(k), g) for k in kind_keys(kind))


def det_clauses(pred, tpred, idx, kind):
    v = "v%d" % idx
    keys = kind_keys(kind)
    if kind[0] == "H":
        return ["%s(%d,%s,%s)." % (pred, idx, keys[0], v)]
    out = ["%s(%d,X,%s) :- %s(%d,X)." % (pred, idx, v, tpred, idx)]
    for k in keys:
        out.append("%s(%d,%s)." % (tpred, idx, k))
    return out


def prob_clauses(pred, idx, kind):
    v = "v%d" % idx
    if kind == "N":
        return ["%s(%d,c,%s)." % (pred, idx, v)]
    if kind == "D":
        return ["%s(%d,a,%s)." % (pred, idx, v)]
    if kind == "P":
        return ["%s(%d,a,%s) :- q(%d)." % (pred, idx, v, idx)]
    if kind == "M":  # one rule index, two clauses: the rule has two answers with independent conditions
        return ["%s(%d,a,%s) :- q(%d)." % (pred, idx, v, idx), "%s(%d,a,w%d) :- s(%d)." % (pred, idx, idx, idx)]
    return ["%s(%d,a,%s) :- \\+ q(%d)." % (pred, idx, v, idx)]


def ruleset_text(family, indices, kinds, pred="r", tpred="t"):
    lines = []
    if family == "det":
        if any(k[0] == "B" for k in kinds):
            lines.append("%s(0,z)." % tpred)  # t/2 exists even if no rule has a true condition
        for idx, kind in zip(indices, kinds):
            lines += det_clauses(pred, tpred, idx, kind)
    else:
        for idx, kind in zip(indices, kinds):
            lines += prob_clauses(pred, idx, kind)
    return "\n".join(lines) + "\n"


def prob_facts(indices):
    return "".join("%s::q(%d).\n0.5::s(%d).\n" % (PROB[i], i, i) for i in sorted(indices))


def goal_text(variant, arg, pred="r"):
    if variant == "cut1":
        return "cut(%s(%s,X))" % (pred, arg)
    return "cut(%s(%s,X),I)" % (pred, arg)


def program_text(case):
    """the stand-alone program of a case"""
    fam = case["family"]
    txt = HEADER + ruleset_text(fam, case["indices"], case["kinds"])
    if fam == "prob":
        txt += prob_facts(case["indices"])
        for variant in case["queries"]:
            txt += "query(%s).\n" % goal_text(variant, "a")
    return txt


# ---------------------------------------------------------------------------------------------
# expectation

def expected_det(indices, kinds, variant, arg, pred="r"):
    app = [i for i, k in zip(indices, kinds) if applicable(k, arg)]
    if not app:
        return set()
    w = least(app)
    if variant == "cut1":
        return {("%s(%s,v%d)" % (pred, arg, w),)}
    return {("%s(%s,v%d)" % (pred, arg, w), str(w))}


def expected_prob(indices, kinds, queries, pred="r"):
    """{query instance text: probability} without zero entries"""
    appl = {"N": lambda p: 0.0, "D": lambda p: 1.0, "P": lambda p: p, "Q": lambda p: 1.0 - p,
            "M": lambda p: 1.0 - (1.0 - p) * 0.5}
    byidx = dict(zip(indices, kinds))
    res = {}
    rest = 1.0
    for i in sorted(indices, key=cmp_to_key(R.compare)):
        a = appl[byidx[i]](PROB[i])
        answers = [("v", rest * a)] if byidx[i] != "M" else [("v", rest * PROB[i]), ("w", rest * 0.5)]
        rest *= 1.0 - a
        for val, p in answers:
            if p > 0:
                if "cut1" in queries:
                    res["cut(%s(a,%s%d))" % (pred, val, i)] = p
                if "cut2" in queries:
                    res["cut(%s(a,%s%d),%d)" % (pred, val, i, i)] = p
    return res


def prob_mismatch(exp, obs, tol=1e-9):
    keys = set(exp) | set(k for k, v in obs.items() if abs(v) > tol)
    return sorted(k for k in keys if abs(exp.get(k, 0.0) - obs.get(k, 0.0)) > tol)


def classify(res):
    if res[0] == "error":
        return "error-must-answer:%s" % res[1]
    if res[0] == "crash":
        return "crash:%s@%s" % (res[1], res[2])
    return None  # timeout / recursion: never judged


# ---------------------------------------------------------------------------------------------
# stand-alone execution of one case (used for confirmation, shrinking and replay)

_STATE = {}


def _memo():
    pid = os.getpid()
    if _STATE.get("pid") != pid:
        _STATE.clear()
        _STATE["pid"] = pid
        _STATE["memo"] = {}
    return _STATE["memo"]


def eval_case(case):
    """-> (symptom or None, expected, observed) on a stand-alone program"""
    from ..core import canon
    from ..plrun import BuiltinHarness, infer

    memo = _memo()
    key = canon(case)
    if key in memo:
        return memo[key]
    if case["family"] == "det":
        exp = expected_det(case["indices"], case["kinds"], case["variant"], case["arg"])
        h = BuiltinHarness(program_text(case))
        res = h.query(goal_text(case["variant"], case["arg"]), timeout=20)
        if res[0] == "ok":
            obs = set(res[1])
            sym = None if obs == exp else "wrong-answers"
            out = (sym, sorted(exp), sorted(obs))
        else:
            out = (classify(res), sorted(exp), list(res))
    else:
        exp = expected_prob(case["indices"], case["kinds"], case["queries"])
        res = infer(program_text(case), timeout=60)
        if res[0] == "ok":
            bad = prob_mismatch(exp, res[1])
            out = ("wrong-probability" if bad else None, exp, res[1])
        else:
            out = (classify(res), exp, list(res))
    memo[key] = out
    return out


def eval_fast(case):
    """det cases only: same judgement as eval_case but on an extension of a per-process database
    that already has library(cut) loaded (no 9 ms reload).  Only used to steer the shrinker; what
    is reported has always been re-executed by eval_case on the stand-alone program."""
    from ..core import canon
    from ..plrun import BuiltinHarness, classify_exception
    from ..core import watchdog, WatchdogTimeout

    memo = _memo()
    key = "fast:" + canon(case)
    if key in memo:
        return memo[key]
    exp = expected_det(case["indices"], case["kinds"], case["variant"], case["arg"])
    try:
        from problog.program import PrologString

        h = _STATE.get("base")
        if h is None:
            h = _STATE["base"] = BuiltinHarness(HEADER)
        with watchdog(5):
            db = h.db.extend()
            for cl in PrologString(ruleset_text("det", case["indices"], case["kinds"])):
                db += cl
            res = h.engine.query(db, h.parse(goal_text(case["variant"], case["arg"])))
        obs = set(tuple(str(a) for a in r) for r in res)
        out = None if obs == exp else "wrong-answers"
    except WatchdogTimeout:
        _STATE.pop("base", None)
        out = None
    except Exception as exc:  # noqa
        _STATE.pop("base", None)
        out = classify(classify_exception(exc))
    memo[key] = out
    return out


def det_projections(case):
    """the deterministic rule sets behind a probabilistic case = its possible worlds: D is a fact,
    N a non-matching head, every P/Q condition either holds (fact) or not (non-matching head);
    fewest failing conditions first"""
    if case["family"] == "det":
        yield case
        return
    pos = [i for i, k in enumerate(case["kinds"]) if k in "PQM"]
    for n in range(len(pos) + 1):
        for off in itertools.combinations(pos, n):
            kinds = ["HN" if (k == "N" or i in off) else "HA" for i, k in enumerate(case["kinds"])]
            yield {"family": "det", "indices": case["indices"], "kinds": kinds, "variant": "cut1", "arg": "a"}


def shrink_case(case, symptom, fast=False):
    def cands(cs):
        idx, kinds = cs["indices"], cs["kinds"]
        if cs.get("variant") == "cut2":
            yield dict(cs, variant="cut1")
        if len(cs.get("queries", [])) > 1:
            for q in cs["queries"]:
                yield dict(cs, queries=[q])
        if cs.get("arg") in CALL_ORDER:
            for a2 in CALL_ORDER[:CALL_ORDER.index(cs["arg"])]:
                yield dict(cs, arg=a2)
        for p in range(len(idx)):
            if len(idx) > 1:
                yield dict(cs, indices=idx[:p] + idx[p + 1:], kinds=kinds[:p] + kinds[p + 1:])
        order = DET_ORDER_ALL if cs["family"] == "det" else PROB_ORDER
        for p, k in enumerate(kinds):
            for k2 in order[:order.index(k)]:
                yield dict(cs, kinds=kinds[:p] + [k2] + kinds[p + 1:])
        # file order = index order
        pairs = sorted(zip(idx, kinds))
        if [i for i, _ in pairs] != idx:
            yield dict(cs, indices=[i for i, _ in pairs], kinds=[k for _, k in pairs])
        # smaller indices
        for p, i in enumerate(idx):
            for j in ALPHABET[:ALPHABET.index(i)] if i in ALPHABET else []:
                if j not in idx:
                    yield dict(cs, indices=idx[:p] + [j] + idx[p + 1:])

    def fails(cs):
        if fast:
            return eval_fast(cs) == symptom
        return eval_case(cs)[0] == symptom

    return shrink(case, cands, fails, limit=1500)


# ---------------------------------------------------------------------------------------------

# a shard stops after this many violating executions (reported as CAP; only ever reached on a tree
# where the property is broadly violated - every one of them has been confirmed, shrunk and keyed)
MAX_VIOLATIONS_PER_SHARD = 50
TIMEOUT_CAP = "some executions hit the per-call watchdog and were not judged (counters.timeouts)"


def subsets(size):
    return [list(c) for c in itertools.combinations(ALPHABET, size)]


def det_patterns(size, style, patterns):
    if patterns == "a2":
        # 2^k patterns of argument a with at least two applicable rules (the ones where the
        # order of the indices decides)
        kinds = (HEAD_KINDS if style == "head" else BODY_KINDS)[:2]
        for ks in itertools.product(kinds, repeat=size):
            if sum(1 for k in ks if DET_KINDS[k][0]) >= 2:
                yield list(ks)
        return
    if style == "mixed":
        kinds = HEAD_KINDS + BODY_KINDS
        for ks in itertools.product(kinds, repeat=size):
            if len(set(k[0] for k in ks)) == 2:  # pure styles are enumerated on their own
                yield list(ks)
        return
    kinds = HEAD_KINDS if style == "head" else BODY_KINDS
    if patterns == "a":
        kinds = kinds[:2]  # not applicable / applicable for a
    for ks in itertools.product(kinds, repeat=size):
        yield list(ks)


class C33(Prop):
    pid = "C33"
    title = "The soft-cut library picks the lowest-indexed applicable rule"
    technique = ("bounded-exhaustive enumeration of indexed rule sets (index subset x every file order x "
                 "applicability pattern x realisation; keys atomic and structured with/without variables) on the real library(cut): deterministic conditions through "
                 "engine.query on a prepared database, probabilistic conditions through the default inference "
                 "pipeline against the closed form app_i*prod_{j<i}(1-app_j); smallest index by reference order R5")
    rule = ("index subsets of {1,2,3,9,10,11,15} of size <= 4 (98 subsets), all k! file orders; det: rule kinds "
            "head style (constant a/b/_/c in the head) and body style (r(I,X,v) :- t(I,X) with facts), applicable or "
            "not per call argument a, b; calls cut/1 and cut/2.  quick: sizes 1-2 all 4^k patterns x 2 styles x 4 "
            "calls; size 3 the 2^k patterns of argument a x 2 styles x cut/1, cut/2; size 4 the 2^k patterns of "
            "argument a with >= 2 applicable rules in head style through cut/2.  thorough: all 4^k patterns x 2 "
            "styles x 4 calls for sizes <= 3, every mixed-style pattern for sizes 2-3 (size 3: cut/1 on a, cut/2 on "
            "b); size 4: all 4^k patterns in head style (cut/1 on a, cut/2 on b) and the 2^k patterns of argument a "
            "in body style (cut/1, cut/2).  prob: kinds N/D/P "
            "(quick, sizes <= 3; size 3 through cut/2 only) and N/D/P/Q (thorough, sizes <= 3; size 4 N/D/P), all file orders, "
            "queries cut/1 and cut/2.  "
            "struct (structured keys): index subsets of {1,2,3,10} of size <= 3 (14 subsets), all k! file orders; "
            "the key of a rule ranges over a, _, f(a), f(b), f(_), [a], [_|_], g(a,_), g(_,b) as head key (head style) "
            "or as key of its t/2 fact (body style); calls with the ground keys f(a), f(b), g(a,b), [a]; applicability by "
            "the reference matcher.  quick: sizes 1-2 every assignment of the 7 keys a, _, f(a), f(b), f(_), [_|_], "
            "g(a,_) x 2 styles x 4 call keys x cut/1, cut/2; size 3 every assignment of the 4 keys _, f(_), [_|_], "
            "g(a,_) x 2 styles x (cut/1 on f(a) and [a], cut/2 on f(b) and g(a,b)).  thorough: sizes 1-2 all 9 keys, "
            "size 3 the 7 keys, x 2 styles x 4 call keys x cut/1, cut/2.  "
            "Non-trivial: at least two rules and the winner is not decided by the file order alone, i.e. the first "
            "applicable clause in file order is not the expected winner, or (prob) at least one probabilistic "
            "condition below the last applicable rule")
    assumptions = [
        "indices are unique inside a rule set (the statement speaks of 'the' applicable rule)",
        "calls with an unbound key or a bound index argument are outside the statement and not enumerated",
        "structured keys: call keys are ground and every variable of a rule key occurs once, so applicability is "
        "linear pattern matching (no bindings flow into the answer)",
        "answers are compared as sets of ground instances; probabilities with tolerance 1e-9; instances reported "
        "with probability 0 are equal to absent ones",
        "rule sets are batched under distinct predicate names in one program; a mismatch counts only if the "
        "stand-alone program reproduces it (a batch-only mismatch is reported as CAP)",
        "timeouts are counted, never judged",
    ]
    budget = {"quick": 55, "thorough": 1190}

    def precheck(self, tier):
        n = R.self_check()
        assert least([10, 9, 2]) == 2 and least([15, 11]) == 11
        e = expected_prob([10, 9, 2], ["D", "P", "P"], ["cut1"])
        # by hand: 2 with 0.6; 9 with 0.4*0.2; 10 with 0.4*0.8
        want = {"cut(r(a,v2))": 0.6, "cut(r(a,v9))": 0.08, "cut(r(a,v10))": 0.32}
        for k, v in want.items():
            if abs(e[k] - v) > 1e-12:
                raise RuntimeError("closed form broken: %s" % (e,))
        # the reference matcher: agrees with the hand-written table on the atomic keys, and by hand on structured ones
        for k, row in DET_KINDS.items():
            assert (applicable(k, "a"), applicable(k, "b")) == (bool(row[0]), bool(row[1])), k
        assert parse_term("[a]") == [".", "a", "[]"] and parse_term("[_|_]") == [".", "_", "_"]
        assert parse_term("g(a,_)") == ["g", "a", "_"]
        yes = [("f(_)", "f(a)"), ("f(_)", "f(b)"), ("g(a,_)", "g(a,b)"), ("g(_,b)", "g(a,b)"), ("[_|_]", "[a]"),
               ("[a]", "[a]"), ("_", "[a]"), ("_", "g(a,b)"), ("f(a)", "f(a)")]
        no = [("f(_)", "g(a,b)"), ("f(_)", "[a]"), ("f(a)", "f(b)"), ("a", "f(a)"), ("[_|_]", "f(a)"),
              ("g(a,_)", "f(a)"), ("[a]", "f(a)"), ("f(b)", "f(a)")]
        assert all(applicable("H:" + p, c) and applicable("B:" + p, c) for p, c in yes)
        assert not any(applicable("H:" + p, c) or applicable("B:" + p, c) for p, c in no)
        assert expected_det([2, 1], ["HV", "H:f(_)"], "cut2", "f(a)") == {("r(f(a),v1)", "1")}
        # the documented example of docs/source/prolog.rst / cut.pl
        from ..plrun import BuiltinHarness

        h = BuiltinHarness(HEADER + "r(1,a,b).\nr(2,a,c).\nr(3,b,c).\n")
        doc = {"cut(r(A,B))": [("r(a,b)",)], "cut(r(a,X))": [("r(a,b)",)], "cut(r(X,c))": [("r(a,c)",)],
               "cut(r(b,X))": [("r(b,c)",)]}
        agree = sum(1 for g, want in doc.items() if h.query(g) == ("ok", want))
        return dict(reference_validated_on_ground_truth=n, documented_examples_reproduced="%d/4" % agree)

    # -- shards -----------------------------------------------------------------------------
    def shards(self, tier):
        res = []
        b = BOUNDS[tier]
        for size, styles, patterns, queries in b["det"]:
            for s in subsets(size):
                if size >= 4 or (tier == "thorough" and size == 3):
                    # heavy: one shard per (subset, style, first index in file order)
                    for style in styles:
                        for first in s:
                            res.append(["det", s, [style], first])
                else:
                    res.append(["det", s, styles, None])
        for size, styles, pats, _ in STRUCT_BOUNDS[tier]:
            for s in itertools.combinations(STRUCT_INDICES, size):
                for style in styles:
                    if size == 3:
                        for first in s:
                            res.append(["struct", list(s), [style], first])
                    else:
                        res.append(["struct", list(s), [style], None])
        for size, _ in b["prob"]:
            for s in subsets(size):
                if size >= 4:
                    for first in s:
                        res.append(["prob", s, None, first])
                else:
                    res.append(["prob", s, None, None])
        return res

    def run_shard(self, shard, tier, acc):
        fam, subset, styles, first = shard
        orders = [list(p) for p in itertools.permutations(subset) if first is None or p[0] == first]
        if fam == "det":
            for style in styles:
                spec = [x for x in BOUNDS[tier]["det"] if x[0] == len(subset) and style in x[1]][0]
                self._det(subset, orders, style, spec[2], spec[3][style], acc)
        elif fam == "struct":
            spec = [x for x in STRUCT_BOUNDS[tier] if x[0] == len(subset)][0]
            for style in styles:
                self._det(subset, orders, style, spec[2], spec[3], acc)
        else:
            queries = [q for size, q in BOUNDS[tier]["prob"] if size == len(subset)][0]
            self._prob(subset, orders, PROB_KINDS[tier] if len(subset) < 4 else PROB_KINDS_SIZE4, queries, acc)

    # -- deterministic ----------------------------------------------------------------------
    def _det(self, subset, orders, style, patterns, queries, acc):
        from ..plrun import BuiltinHarness

        sets = []
        for order in orders:
            if isinstance(patterns, list):  # structured keys: every assignment of the key alphabet
                pre = "H:" if style == "head" else "B:"
                for ks in itertools.product(patterns, repeat=len(subset)):
                    sets.append((order, [pre + k for k in ks]))
                continue
            for kinds in det_patterns(len(subset), style, patterns):
                sets.append((order, kinds))
        CH = 400
        for lo in range(0, len(sets), CH):
            if acc.expired():
                acc.cap("wall budget reached inside shard")
                return
            if acc.violation_count >= MAX_VIOLATIONS_PER_SHARD:
                acc.cap("a shard stopped after %d violating executions" % MAX_VIOLATIONS_PER_SHARD)
                acc.counters["shards_stopped_on_violations"] += 1
                return
            chunk = sets[lo:lo + CH]
            text = HEADER + "".join(
                ruleset_text("det", order, kinds, "r%d" % n, "t%d" % n) for n, (order, kinds) in enumerate(chunk))
            h = BuiltinHarness(text)
            for n, (order, kinds) in enumerate(chunk):
                if acc.violation_count >= MAX_VIOLATIONS_PER_SHARD:
                    acc.cap("a shard stopped after %d violating executions" % MAX_VIOLATIONS_PER_SHARD)
                    acc.counters["shards_stopped_on_violations"] += 1
                    return
                acc.states += 1
                pred = "r%d" % n
                for variant, arg in queries:
                    exp = expected_det(order, kinds, variant, arg, pred)
                    res = h.query(goal_text(variant, arg, pred), timeout=20)
                    acc.evaluations += 1
                    acc.transitions += 1
                    case = {"family": "det", "indices": order, "kinds": kinds, "variant": variant, "arg": arg}
                    if res[0] in ("timeout", "recursion"):
                        acc.counters["timeouts"] += 1
                        acc.cap(TIMEOUT_CAP)
                        continue
                    acc.traces += 1
                    app = [i for i, k in zip(order, kinds) if applicable(k, arg)]
                    if isinstance(patterns, list):
                        acc.counters["struct_executions"] += 1
                        if any("_" in k and k[2:] != "_" for i, k in zip(order, kinds) if i in app):
                            acc.counters["struct_applicable_rule_with_nonground_compound_key"] += 1
                    if len(order) >= 2 and app and app[0] != least(app):
                        acc.nontrivial += 1
                    if res[0] == "ok":
                        obs = set(res[1])
                        acc.outcomes["%s -> %s" % (variant, "no answer" if not obs else
                                                   "rule %d of %d" % (sorted(order).index(least(app)) + 1, len(order))
                                                   if obs == exp else "other")] += 1
                        bad = obs != exp
                    else:
                        acc.outcomes["%s -> %s" % (variant, res[0])] += 1
                        bad = True
                    if lo == 0 and n == len(chunk) // 2 and (variant, arg) == queries[0]:
                        acc.sample({"program": ruleset_text("det", order, kinds), "goal": goal_text(variant, arg),
                                    "expected": sorted(exp)})
                    if bad:
                        self._confirm(case, acc)

    # -- probabilistic ----------------------------------------------------------------------
    def _prob(self, subset, orders, kinds_alphabet, queries, acc):
        from ..plrun import infer

        k = len(subset)
        for order in orders:
            if acc.expired():
                acc.cap("wall budget reached inside shard")
                return
            if acc.violation_count >= MAX_VIOLATIONS_PER_SHARD:
                acc.cap("a shard stopped after %d violating executions" % MAX_VIOLATIONS_PER_SHARD)
                acc.counters["shards_stopped_on_violations"] += 1
                return
            pats = [list(ks) for ks in itertools.product(kinds_alphabet, repeat=k)]
            CH = 32
            for lo in range(0, len(pats), CH):
                chunk = pats[lo:lo + CH]
                text = HEADER + prob_facts(subset)
                for n, kinds in enumerate(chunk):
                    text += ruleset_text("prob", order, kinds, "r%d" % n)
                    for variant in queries:
                        text += "query(%s).\n" % goal_text(variant, "a", "r%d" % n)
                res = infer(text, timeout=60)
                acc.evaluations += 1
                acc.transitions += len(queries) * len(chunk)
                if res[0] in ("timeout", "recursion"):
                    acc.counters["timeouts"] += len(chunk)
                    acc.cap(TIMEOUT_CAP)
                    continue
                exp = {}
                for n, kinds in enumerate(chunk):
                    exp.update(expected_prob(order, kinds, queries, "r%d" % n))
                if res[0] == "ok":
                    bad = prob_mismatch(exp, res[1])
                    badsets = set(int(key.split("(")[1][1:]) for key in bad)
                else:
                    badsets = set(range(len(chunk)))
                for n, kinds in enumerate(chunk):
                    acc.states += 1
                    acc.traces += 1
                    byidx = dict(zip(order, kinds))
                    srt = sorted(order)
                    appl = [i for i in srt if byidx[i] != "N"]
                    if len(order) >= 2 and any(byidx[i] in "PQ" for i in appl[:-1]):
                        acc.nontrivial += 1
                    e = expected_prob(order, kinds, ["cut2"])
                    acc.outcomes["prob: %d answers with positive probability" % len(e)] += 1
                    if lo == 0 and n == len(chunk) // 2 and order == sorted(order, reverse=True):
                        acc.sample({"program": program_text({"family": "prob", "indices": order, "kinds": kinds,
                                                             "queries": queries}),
                                    "expected": expected_prob(order, kinds, queries)})
                    if n in badsets:
                        self._confirm({"family": "prob", "indices": order, "kinds": kinds, "queries": queries}, acc)

    # -- violations -------------------------------------------------------------------------
    def _report(self, sym, small, acc):
        s2, e2, o2 = eval_case(small)
        acc.violation(sym, small, expected=e2, observed=o2,
                      what="%s on\n%s      expected %s, observed %s"
                           % (goal_text(small["variant"], small["arg"]) if small["family"] == "det" else "query cut/1, cut/2",
                              "".join("         " + line + "\n" for line in program_text(small).splitlines()[1:]),
                              e2, o2))

    def _confirm(self, case, acc):
        """a mismatch seen inside a batched program: reproduce stand-alone, shrink, report"""
        # cheap route first.  det: steer the shrinker on an extended database and re-execute only
        # the minimal case stand-alone.  prob: if the deterministic projection of the rule set is
        # already answered wrongly, the finding is that deterministic case (attribution: a possible
        # world of the program is a deterministic rule set).
        fsym = probe = None
        for probe in det_projections(case):
            fsym = eval_fast(probe)
            acc.evaluations += 1
            if fsym is not None:
                break
        if fsym is not None:
            small = shrink_case(probe, fsym, fast=True)
            if eval_case(small)[0] == fsym:
                if case["family"] == "prob":
                    acc.counters["prob_mismatches_attributed_to_det_projection"] += 1
                self._report(fsym, small, acc)
                return
            acc.counters["fast_shrink_not_reproduced"] += 1
        sym, exp, obs = eval_case(case)
        acc.evaluations += 1
        if sym is None:
            if isinstance(obs, list) and obs and obs[0] in ("timeout", "recursion"):
                acc.counters["timeouts"] += 1
                acc.cap(TIMEOUT_CAP)
                return
            acc.counters["batch_only_mismatch"] += 1
            acc.cap("mismatch inside a batched program that the stand-alone program does not reproduce: %r" % (case,))
            return
        small = shrink_case(case, sym)
        self._report(sym, small, acc)

    def replay(self, case):
        _memo().clear()
        sym, exp, obs = eval_case(case)
        return dict(ok=sym is None, expected="%s -> %s" % (program_text(case).replace("\n", " "), exp), observed=obs)


PROP = C33()
