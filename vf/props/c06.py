"""C06 semantics-neutral inference options do not change the answer (programs x option vectors,
deviation-bounded from the default vector)."""
import itertools

from .diffbase import DiffProp
from ..gen.programs import program_text, statements, evidence_text
from ..plrun import infer_cli

OPTIONS = ["propagate_evidence", "propagate_weights", "label_all", "avoid_name_clash", "keep_order", "keep_all",
           "keep_duplicates", "hide_builtins", "logspace"]


def vectors(maxdev):
    res = []
    for d in range(0, maxdev + 1):
        for combo in itertools.combinations(OPTIONS, d):
            res.append(list(combo))
    return res


class C06(DiffProp):
    pid = "C06"
    title = "Inference options do not change the answer"
    technique = ("programs x option vectors: every vector with at most d deviations from the all-off vector over the 9 "
                 "semantics-neutral options, run through the CLI pipeline of the real implementation; results compared "
                 "with the default run and with the possible-world reference; evidence spellings as program variants")
    rule = ("states = programs whose default run is correct; transitions = (program, option vector) executions; quick: "
            "d<=2 (46 vectors) + the all-on vector, thorough: all 512 vectors on small families and d<=3 on the rest; "
            "plus the 2 alternative spellings of every evidence statement")
    families = {"quick": [("FDUP", 4), ("F1.3e", 48), ("F1.1dup", 8), ("FLEX", 10), ("F3.1", 48), ("F2.2", 16), ("F1.3s", 48), ("F1.1", 4)],
                "thorough": [("FDUP", 4), ("F1.3e", 48), ("F1.1dup", 8), ("FLEX", 10), ("F3.2", 192), ("F2.3", 64), ("F1.3s", 64), ("F1.2", 128), ("F3.1", 48), ("F2.2", 16), ("F1.1", 4)]}
    # deviation bound per (tier, family); 9 = all 512 vectors
    maxdev = {"quick": {"FDUP": 2, "F1.3e": 1, "F1.1dup": 9, "FLEX": 9, "F3.1": 2, "F2.2": 2, "F1.3s": 1, "F1.1": 9},
              "thorough": {"FDUP": 9, "F1.3e": 2, "F1.1dup": 9, "FLEX": 9, "F3.2": 2, "F2.3": 2, "F1.3s": 2, "F1.2": 1, "F3.1": 9, "F2.2": 9, "F1.1": 9}}
    budget = {"quick": 300, "thorough": 2400}

    def filter(self, prog):
        return True

    def variants(self, prog, tier):
        d = self.maxdev[tier][self._fam]
        vs = [{"options": v} for v in vectors(d)]
        if d < 9:
            vs.append({"options": list(OPTIONS)})
        if prog.get("evidence"):
            vs.append({"spelling": "pair"})
            vs.append({"spelling": "plain"})
        return vs

    def thin(self, prog, idx, tier):
        return True

    def run_shard(self, shard, tier, acc):
        # quick: only every 3rd program of the larger families gets the full vector set
        self._fam = shard[0]
        super().run_shard(shard, tier, acc)

    def run_variant(self, prog, var):
        if "spelling" in var:
            p2 = dict(prog, evidence=[[e[0], e[1], var["spelling"]] for e in prog["evidence"]])
            return infer_cli(program_text(p2), {})
        return infer_cli(program_text(prog), {o: True for o in var["options"]})

    def run_default(self, prog):
        return infer_cli(program_text(prog), {})

    def shrink_variant(self, var):
        if "options" in var and len(var["options"]) > 1:
            for o in var["options"]:
                yield {"options": [o]}
            for a, b in itertools.combinations(var["options"], 2):
                if len(var["options"]) > 2:
                    yield {"options": [a, b]}


PROP = C06()
