"""C15 compare/3, ==, \\==, @<, @=<, @>, @>=, sort/2 follow the standard order of terms.

E3: bounded-exhaustive enumeration of builtin calls on the real implementation (prepared DB, goals
given as text so that the parser is on the path) against the reference model R5
(vf/ref/stdorder.py).  Nothing is sampled.

Families (one shard descriptor each, see ``shards``):

  pairs  every ordered pair (a, b) of the universe U through the 16 call forms of ``OPS``
         (compare/3 with the order unbound - directly and through the clause c/3 -, with the order
         given as < = > unquoted and quoted, and the six comparison operators);
  laws   reflexivity, converse (antisymmetry), totality and transitivity of the implementation's
         *own* compare/3 answers over all triples of U, plus agreement of every operator with that
         answer (also on the pairs the reference leaves unjudged);
  sort   sort/2 on every list over the 16-term sub-universe SU up to the length bound: output
         mode, check mode with the expected list (must succeed) and with a wrong list (must fail);
         thorough adds every list of length <= 3 over the whole quick universe;
  var    Var < nonvar and identity of variables against every term of U.
"""
import itertools
import os

from ..core import Prop, shrink
from ..ref import stdorder as R

# ---------------------------------------------------------------------------------------------
# alphabet (simplest first: the shrinker moves towards the front of the list)

BIG = 2 ** 53  # BIG and BIG + 1 are the same double: integers have to be compared exactly
INTS = [0, 1, -1, 2, -2, 9, 10, -10, 100, -100, BIG, BIG + 1]
FLOATS = [0.0, 1.0, -1.0, 2.0, -1.5, 2.5, 9.5, 10.0]
ATOMS = ["a", "b", "aa", "ab", "abc", "f", "g", "[]", "B", "A", "a b", "b c", "B c", "10", "9"]


def L(*xs):
    return R.mklist(list(xs))


COMPOUNDS = [
    ["f", "a"], ["f", "b"], ["g", "a"], ["a", "a"], ["aa", "a"], ["B", "a"], ["a b", "a"],
    ["f", 1], ["f", 1.0], ["f", 9], ["f", 10], ["f", -1], ["f", "[]"], ["f", "a b"],
    ["f", ["f", "a"]], ["f", ["g", "a"]],
    ["f", "a", "a"], ["f", "a", "b"], ["f", "b", "a"], ["g", "a", "a"], ["f", "a", ["f", "a"]],
    ["f", "a", "b", "a"], ["h", "a", "a", "a"],
    L("a"), L("b"), L(1), L(10), L(9), L("a", "a"), L("a", "b"), L(L("a")),
    # a difference inside an earlier nested argument must win over an opposite difference in a
    # later (shallower) argument: arguments are compared depth-first, left to right
    ["f", ["g", 1], 2], ["f", ["g", 2], 1], L(["g", 1], "b"), L(["g", 2], "a"),
]

U_QUICK = INTS + FLOATS + ATOMS + COMPOUNDS  # 70 terms


def _extra_thorough():
    """every f/1, g/1 and f/2 term over a base of 8 constants that is not in U_QUICK yet"""
    base = [0, -1, 10, 1.0, "a", "b", "B", "a b"]
    out = []
    for name in ("f", "g"):
        for x in base:
            out.append([name, x])
    for x in base:
        for y in base:
            out.append(["f", x, y])
    seen = set(R.to_text(t) for t in U_QUICK)
    res = []
    for t in out:
        k = R.to_text(t)
        if k not in seen:
            seen.add(k)
            res.append(t)
    return res


U_THOROUGH = U_QUICK + _extra_thorough()

# sub-universe for sort/2: every pair is judged by the reference
SU = [-2, 1, 1.0, 9, 10, 2.5, "a", "ab", "B", "a b", ["f", "a"], ["f", "b"], ["g", "a"], ["f", "a", "b"],
      ["f", 10], L("a")]

SORT_LEN = {"quick": 3, "thorough": 4}

# call forms.  name -> (goal template, kind); kind: "out" order unbound, ("given", order) order
# given, ("op", name) boolean operator.  Order of this list = simplest first for the shrinker.
OPS = [
    ("compare", "compare(O,%s,%s)", ("out",)),
    ("c/3", "c(O,%s,%s)", ("out",)),
    ("compare(<)", "compare(<,%s,%s)", ("given", "<")),
    ("compare(=)", "compare(=,%s,%s)", ("given", "=")),
    ("compare(>)", "compare(>,%s,%s)", ("given", ">")),
    ("compare('<')", "compare('<',%s,%s)", ("given", "<")),
    ("compare('=')", "compare('=',%s,%s)", ("given", "=")),
    ("compare('>')", "compare('>',%s,%s)", ("given", ">")),
    ("c/3(<)", "c(<,%s,%s)", ("given", "<")),
    ("c/3(>)", "c(>,%s,%s)", ("given", ">")),
    ("==", "%s == %s", ("op", "==")),
    ("\\==", "%s \\== %s", ("op", "\\==")),
    ("@<", "%s @< %s", ("op", "@<")),
    ("@=<", "%s @=< %s", ("op", "@=<")),
    ("@>", "%s @> %s", ("op", "@>")),
    ("@>=", "%s @>= %s", ("op", "@>=")),
]
OPD = {name: (tpl, kind) for name, tpl, kind in OPS}
OPNAMES = [name for name, _, _ in OPS]

PROGRAM = "c(O,A,B) :- compare(O,A,B).\n"
TIMEOUT_CAP = "some executions hit the per-call watchdog and were not judged (counters.timeouts)"

ORDER_OF_TEXT = {"<": -1, "=": 0, ">": 1, "'<'": -1, "'='": 0, "'>'": 1}


# ---------------------------------------------------------------------------------------------
# per-process state

_STATE = {}


def _state():
    pid = os.getpid()
    st = _STATE.get("st")
    if st is None or st["pid"] != pid:
        from ..plrun import BuiltinHarness

        st = dict(pid=pid, h=BuiltinHarness(PROGRAM), matrix={}, memo={})
        _STATE["st"] = st
    return st


def _unquote(name):
    name = str(name)
    if len(name) >= 2 and name[0] == "'" and name[-1] == "'":
        return name[1:-1]
    return name


def from_problog(t):
    """ProbLog term -> reference term.  The text 'a b' denotes the atom a b (quotes are syntax).
    Raises ValueError for strings / variables / anything outside the reference's term type."""
    from problog.logic import Constant, Term, Var

    if isinstance(t, Constant):
        v = t.functor
        if isinstance(v, bool) or not isinstance(v, (int, float)):
            raise ValueError("not a number: %r" % (v,))
        return v
    if t is None or isinstance(t, (int, Var)):
        raise ValueError("variable")
    if isinstance(t, Term):
        if t.arity == 0:
            return _unquote(t.functor)
        return [_unquote(t.functor)] + [from_problog(a) for a in t.args]
    raise ValueError("unknown %r" % (t,))


def goal_text(op, a, b):
    return OPD[op][0] % (R.to_text(a), R.to_text(b))


def run_call(op, a, b):
    """execute one call form; -> (outcome, detail) with outcome in
    "<" "=" ">" (order returned), "true", "false", "error:<Class>", "crash:<Class>@<site>",
    "timeout", "answers:<n>", "bad-order:<text>" """
    st = _state()
    res = st["h"].query(goal_text(op, a, b), timeout=20)
    kind = OPD[op][1]
    if res[0] == "ok":
        answers = res[1]
        if kind[0] == "out":
            if len(answers) != 1:
                return "answers:%d" % len(answers), answers
            o = answers[0][0]
            if o not in ORDER_OF_TEXT:
                return "bad-order:%s" % o, answers
            return "<=>"[ORDER_OF_TEXT[o] + 1], answers
        return ("true" if answers else "false"), answers
    if res[0] == "error":
        return "error:%s" % res[1], res
    if res[0] == "crash":
        return "crash:%s@%s" % (res[1], res[2]), res
    return res[0], res


def expected_call(op, c):
    """expected outcome of the call form given the reference order c (-1/0/1)"""
    kind = OPD[op][1]
    if kind[0] == "out":
        return R.ORDER_ATOM[c]
    if kind[0] == "given":
        return "true" if R.ORDER_ATOM[c] == kind[1] else "false"
    return "true" if R.OPERATORS[kind[1]](c) else "false"


def symptom_of(expected, observed):
    if observed.startswith("error:"):
        return "error-must-answer:" + observed[6:]
    if observed.startswith("crash:"):
        return observed
    if observed == "timeout" or observed == "recursion":
        return None  # never judged
    if observed.startswith("answers:") or observed.startswith("bad-order:"):
        return "not-one-order"
    return "wrong-value" if expected is not None and observed != expected else None


def judge_call(op, a, b):
    """-> (symptom or None, expected, observed); symptom None = agrees / unjudged.
    Where the reference does not judge the pair (expected None) the call still has to answer:
    errors, crashes and "not exactly one order" are symptoms on every pair."""
    st = _state()
    key = ("call", op, R.to_text(a), R.to_text(b))
    if key not in st["memo"]:
        c = R.compare(a, b)
        exp = expected_call(op, c) if c is not None else None
        obs, _ = run_call(op, a, b)
        st["memo"][key] = (symptom_of(exp, obs), exp, obs)
    return st["memo"][key]


def universe(tier):
    return U_THOROUGH if tier == "thorough" else U_QUICK


def uindex(univ):
    return {R.to_text(t): i for i, t in enumerate(univ)}


def shrink_call(case, symptom, univ):
    """move op towards the front of OPS and both terms towards the front of the universe while
    the same symptom reproduces"""
    idx = uindex(univ)

    def cands(cs):
        op, a, b = cs["op"], cs["a"], cs["b"]
        for name in OPNAMES[:OPNAMES.index(op)]:
            yield dict(cs, op=name)
        # same name and arity: descend into the first argument pair that still fails
        if R.is_compound(a) and R.is_compound(b) and len(a) == len(b) and a[0] == b[0]:
            for x, y in zip(a[1:], b[1:]):
                yield dict(cs, a=x, b=y)
        ia, ib = idx.get(R.to_text(a), len(univ)), idx.get(R.to_text(b), len(univ))
        # A ? B and B ? A are one finding: keep the simpler term on the left
        if ib < ia:
            yield dict(cs, a=b, b=a)
        # both sides at once first (keeps a pair of equal terms equal), then one side
        if ia == ib:
            for k in range(ia):
                yield dict(cs, a=univ[k], b=univ[k])
        for k in range(ia):
            yield dict(cs, a=univ[k])
        for k in range(ib):
            yield dict(cs, b=univ[k])

    def fails(cs):
        return judge_call(cs["op"], cs["a"], cs["b"])[0] == symptom

    return shrink(case, cands, fails, limit=2000)


# ---------------------------------------------------------------------------------------------
# sort/2

def list_text(items):
    return "[%s]" % ",".join(R.to_text(x) for x in items)


def run_sort(items, second=None):
    """sort(items, L) (second None) or sort(items, second) -> (outcome, value)
    outcome "ok" with the returned list (reference terms) / "true" / "false" / error classes"""
    st = _state()
    h = st["h"]
    if second is None:
        goal = "sort(%s,L)" % list_text(items)
    else:
        goal = "sort(%s,%s)" % (list_text(items), list_text(second))
    try:
        term = h.parse(goal)
    except Exception as exc:  # noqa
        return "parse-error:%s" % type(exc).__name__, None
    res = h.query_raw(term, timeout=20)
    if res[0] == "ok":
        answers = res[1]
        if second is not None:
            return ("true" if answers else "false"), None
        if len(answers) != 1:
            return "answers:%d" % len(answers), None
        try:
            out = from_problog(answers[0][1])
        except ValueError as exc:
            return "bad-term", str(exc)
        elems, tail = R.list_items(out)
        if tail != R.NIL:
            return "bad-term", R.to_text(out)
        return "ok", elems
    if res[0] == "error":
        return "error:%s" % res[1], None
    if res[0] == "crash":
        return "crash:%s@%s" % (res[1], res[2]), None
    return res[0], None


def same_terms(xs, ys):
    """exact agreement incl. int/float type"""
    return len(xs) == len(ys) and all(R.to_text(x) == R.to_text(y) for x, y in zip(xs, ys))


def wrong_list(items, exp):
    """a list that sort/2 must refuse as second argument: the input itself if it differs from
    the expected list, else the expected list with its first element doubled / reversed"""
    if not same_terms(items, exp):
        return items
    if len(exp) >= 2:
        return exp[::-1]
    return exp + exp if exp else ["a"]


def judge_sort(items, mode):
    """mode: "out" | "check" | "refuse" -> (symptom or None, expected, observed)"""
    exp = R.sort_unique(items)
    if exp is None:
        return None, None, None
    st = _state()
    key = ("sort", mode, list_text(items))
    if key in st["memo"]:
        return st["memo"][key]
    if mode == "out":
        outcome, val = run_sort(items)
        expected = list_text(exp)
        if outcome == "ok":
            observed = list_text(val)
            sym = None if same_terms(val, exp) else "wrong-value"
        else:
            observed = outcome if val is None else "%s %s" % (outcome, val)
            sym = symptom_of("ok", outcome)
            if sym == "not-one-order":
                sym = "wrong-value"
    else:
        second = exp if mode == "check" else wrong_list(items, exp)
        outcome, _ = run_sort(items, second)
        expected = "true" if mode == "check" else "false"
        observed = outcome
        sym = symptom_of(expected, outcome)
        if sym == "wrong-value" and mode == "refuse":
            # attribution (DESIGN 2.8): sort/2 ends with a unification of its result with the second
            # argument.  If the implementation's own =/2 unifies the two different lists, the
            # acceptance is the unifier's defect (C14: 10 = '10' succeeds), not sort/2's.
            r = st["h"].query("%s = %s" % (list_text(second), list_text(exp)))
            if r[0] == "ok" and r[1]:
                sym = None
                observed = "true (excluded: =/2 unifies the two different lists, C14)"
    res = (sym, expected, observed)
    st["memo"][key] = res
    return res


def shrink_sort(case, symptom, univ):
    idx = uindex(univ)

    def cands(cs):
        items = cs["list"]
        if cs["mode"] != "out":
            yield dict(cs, mode="out")
        for i in range(len(items)):
            yield dict(cs, list=items[:i] + items[i + 1:])
        # every permutation of a failing list is one finding: prefer universe order
        canon = sorted(items, key=lambda x: idx.get(R.to_text(x), len(univ)))
        if not same_terms(canon, items):
            yield dict(cs, list=canon)
        # all occurrences of one element at once (keeps duplicates duplicated), then one position
        seen = []
        for x in items:
            tx = R.to_text(x)
            if tx in seen:
                continue
            seen.append(tx)
            for k in range(idx.get(tx, len(univ))):
                yield dict(cs, list=[univ[k] if R.to_text(y) == tx else y for y in items])
        for i, x in enumerate(items):
            for k in range(idx.get(R.to_text(x), len(univ))):
                yield dict(cs, list=items[:i] + [univ[k]] + items[i + 1:])

    def fails(cs):
        return judge_sort(cs["list"], cs["mode"])[0] == symptom

    return shrink(case, cands, fails, limit=2000)


# ---------------------------------------------------------------------------------------------
# order laws on the implementation's own answers

def impl_matrix(tier):
    """M[i][j] in {-1,0,1,None}: the order compare(O,U[i],U[j]) returns (None: no single order)"""
    st = _state()
    if tier not in st["matrix"]:
        univ = universe(tier)
        n = len(univ)
        m = [[None] * n for _ in range(n)]
        calls = 0
        for i in range(n):
            for j in range(n):
                obs, _ = run_call("compare", univ[i], univ[j])
                calls += 1
                m[i][j] = {"<": -1, "=": 0, ">": 1}.get(obs)
        st["matrix"][tier] = m
        return m, calls
    return st["matrix"][tier], 0


def law_violations(m, i, j, k):
    """names of the laws the triple (i,j,k) breaks on the matrix m"""
    ab, bc, ac = m[i][j], m[j][k], m[i][k]
    if ab is None or bc is None or ac is None:
        return []
    bad = []
    if ab <= 0 and bc <= 0:
        if ac > 0 or ((ab < 0 or bc < 0) and ac == 0):
            bad.append("transitivity")
    if ab == 0 and ac != bc:
        bad.append("equals-are-interchangeable")
    return bad


def check_law(law, terms):
    """re-evaluates one law on fresh implementation answers -> (holds, description)"""
    def cmp(a, b):
        obs, _ = run_call("compare", a, b)
        return {"<": -1, "=": 0, ">": 1}.get(obs), obs

    sym = {-1: "<", 0: "=", 1: ">", None: "?"}
    if law == "reflexivity":
        c, obs = cmp(terms[0], terms[0])
        return c == 0, "compare(O,A,A) gives %s" % obs
    if law in ("converse", "totality"):
        ab, o1 = cmp(terms[0], terms[1])
        ba, o2 = cmp(terms[1], terms[0])
        if law == "totality":
            return ab is not None and ba is not None, "compare(O,A,B) gives %s, compare(O,B,A) gives %s" % (o1, o2)
        return ab is None or ba is None or ab == -ba, "compare(O,A,B) gives %s, compare(O,B,A) gives %s" % (o1, o2)
    if law == "identical-iff-equal":
        ab, o1 = cmp(terms[0], terms[1])
        same = R.to_text(terms[0]) == R.to_text(terms[1])
        return ab is None or (ab == 0) == same, "compare(O,A,B) gives %s for %s terms" % (
            o1, "identical" if same else "different")
    if law.startswith("operator-agrees:"):
        op = law.split(":", 1)[1]
        ab, o1 = cmp(terms[0], terms[1])
        obs, _ = run_call(op, terms[0], terms[1])
        if ab is None or obs not in ("true", "false", "<", "=", ">"):
            return True, "compare gives %s, %s gives %s" % (o1, goal_text(op, *terms), obs)
        return obs == expected_call(op, ab), "compare(O,A,B) gives %s but %s gives %s" % (o1, goal_text(op, *terms), obs)
    a, b, c = terms
    ab, bc, ac = cmp(a, b)[0], cmp(b, c)[0], cmp(a, c)[0]
    desc = "A?B %s  B?C %s  A?C %s" % (sym[ab], sym[bc], sym[ac])
    m = [[0, ab, ac], [None, 0, bc], [None, None, 0]]
    return law not in law_violations(m, 0, 1, 2), desc


def shrink_law(case, univ):
    idx = uindex(univ)
    law = case["law"]

    def cands(cs):
        ts = cs["terms"]
        for p, x in enumerate(ts):
            for k in range(idx.get(R.to_text(x), len(univ))):
                yield dict(cs, terms=ts[:p] + [univ[k]] + ts[p + 1:])
        if len(ts) == 2 and idx.get(R.to_text(ts[1]), len(univ)) < idx.get(R.to_text(ts[0]), len(univ)):
            yield dict(cs, terms=[ts[1], ts[0]])

    def fails(cs):
        st = _state()
        key = ("law", law, tuple(R.to_text(t) for t in cs["terms"]))
        if key not in st["memo"]:
            st["memo"][key] = not check_law(law, cs["terms"])[0]
        return st["memo"][key]

    return shrink(case, cands, fails, limit=3000)


# ---------------------------------------------------------------------------------------------

class C15(Prop):
    pid = "C15"
    title = "Term comparison and sort/2 follow the standard order of terms"
    technique = ("bounded-exhaustive enumeration of builtin calls (compare/3 in both modes, ==, \\==, @<, @=<, "
                 "@>, @>=, sort/2) on the real implementation through a prepared database, against the reference "
                 "order R5 (vf/ref/stdorder.py); order laws checked on the implementation's own answers")
    rule = ("universe U of ground terms (quick %d, thorough %d: ints incl. multi-digit/negative, floats tying with "
            "ints, atoms quoted and unquoted incl. [] and numeral atoms, compounds of arity 1-3 with quoted names, "
            "nested arguments, lists); every ordered pair of U through 16 call forms; every triple of U for the "
            "order laws; every list over the 16-term sub-universe up to length 3 (quick) / 4 (thorough) and, "
            "thorough, every list of length <= 3 over the quick universe, through sort/2 in output, accept and "
            "refuse mode; every term of U against a variable.  Non-trivial: a pair/triple of syntactically "
            "distinct terms; a list that is not already strictly ascending (sort/2 has to move or drop an element)"
            % (len(U_QUICK), len(U_THOROUGH)))
    assumptions = [
        "reference R5 = SWI-Prolog manual 4.6.1 / Yap order, bound to written-out ISO and manual examples (precheck)",
        "double-quoted strings excluded: the statement fixes no place for them",
        "unjudged (counted): [] against atoms whose text sorts before '[]' (SWI-7 reserved symbol), order of two "
        "distinct variables; such pairs still take part in the order laws and operator/compare agreement",
        "the order atom returned by compare/3 is read as Prolog text: '<' and < denote the same atom",
        "needlessly quoted atoms ('ab' for ab) are not in the universe: whether they are the same term is the "
        "parser's/unifier's matter (C14/C17), not the order's",
        "timeouts / recursion errors are counted, never judged",
    ]
    budget = {"quick": 55, "thorough": 1150}

    def precheck(self, tier):
        n = R.self_check()
        # the printer and the converter have to be inverse on the universe
        for t in universe("thorough") + SU:
            R.to_text(t)
        texts = [R.to_text(t) for t in universe("thorough")]
        if len(set(texts)) != len(texts):
            raise RuntimeError("universe contains a term twice")
        for a in SU:
            for b in SU:
                if R.compare(a, b) is None:
                    raise RuntimeError("sort sub-universe contains an unjudged pair")
        return dict(reference_validated_on_ground_truth=n, universe=len(universe(tier)), sort_universe=len(SU))

    # -- shards -----------------------------------------------------------------------------
    def shards(self, tier):
        n = len(universe(tier))
        res = [["var", 0]]
        for i in range(n):
            res.append(["pairs", i])
        res.append(["sort", "SU", []])
        for i in range(len(SU)):
            res.append(["sort", "SU", [i]])
            for j in range(len(SU)):
                res.append(["sort", "SU", [i, j]])
        for i in range(n):
            res.append(["laws", i])
        if tier == "thorough":
            for i in range(len(U_QUICK)):
                res.append(["sort", "U", [i]])
        return res

    def run_shard(self, shard, tier, acc):
        kind = shard[0]
        if kind == "pairs":
            self._pairs(shard[1], tier, acc)
        elif kind == "laws":
            self._laws(shard[1], tier, acc)
        elif kind == "sort":
            self._sort(shard[1], shard[2], tier, acc)
        else:
            self._var(tier, acc)

    # -- pairs ------------------------------------------------------------------------------
    def _pairs(self, i, tier, acc):
        univ = universe(tier)
        a = univ[i]
        for j, b in enumerate(univ):
            if acc.expired():
                acc.cap("wall budget reached inside shard")
                break
            c = R.compare(a, b)
            acc.states += 1
            if i != j:
                acc.nontrivial += 1
            if c is None:
                acc.counters["unjudged_pairs"] += 1
                acc.counters["unjudged: %s ? %s" % (R.to_text(a), R.to_text(b))] += 1
            for op in OPNAMES:
                sym, exp, obs = judge_call(op, a, b)
                acc.evaluations += 1
                acc.transitions += 1
                if obs in ("timeout", "recursion"):
                    acc.counters["timeouts"] += 1
                    acc.cap(TIMEOUT_CAP)
                    continue
                if c is None:
                    acc.counters["unjudged_calls"] += 1  # only "must answer" is checked
                else:
                    acc.traces += 1
                    acc.outcomes["%s -> %s" % (op if OPD[op][1][0] != "out" else "compare(O)", obs)] += 1
                if i == 3 and j in (5, 6) and op in ("compare", "@<"):
                    acc.sample({"goal": goal_text(op, a, b), "expected": exp, "observed": obs})
                if sym:
                    case = {"kind": "call", "op": op, "a": a, "b": b}
                    small = shrink_call(case, sym, univ)
                    s2, e2, o2 = judge_call(small["op"], small["a"], small["b"])
                    acc.violation(sym, small, expected=e2, observed=o2,
                                  what="%s: expected %s, observed %s" % (goal_text(small["op"], small["a"], small["b"]),
                                                                         e2, o2))

    # -- laws -------------------------------------------------------------------------------
    def _laws(self, i, tier, acc):
        univ = universe(tier)
        n = len(univ)
        m, calls = impl_matrix(tier)
        acc.evaluations += calls
        acc.transitions += calls
        acc.counters["matrix_calls"] += calls

        def report(law, terms):
            # attribution: a law broken through a pair that compare/3 orders differently from the
            # reference is that pair's finding (reported by the pairs family), not a new one
            for x in terms:
                for y in terms:
                    if judge_call("compare", x, y)[0] == "wrong-value":
                        acc.counters["law_violations_attributed_to_pairs"] += 1
                        return
            case = {"kind": "law", "law": law, "terms": terms}
            small = shrink_law(case, univ)
            ok, desc = check_law(law, small["terms"])
            if ok:  # does not reproduce on fresh answers: not a property violation, say so
                acc.counters["law_not_reproduced"] += 1
                return
            acc.violation("order-law:" + law, small, expected="%s holds" % law, observed=desc,
                          what="%s broken on %s: %s" % (law, ", ".join(R.to_text(t) for t in small["terms"]), desc))

        a = univ[i]
        # unary / binary laws of row i
        acc.states += 1
        if m[i][i] != 0:
            report("reflexivity", [a])
        for j in range(n):
            b = univ[j]
            acc.states += 1
            acc.transitions += 1
            if i != j:
                acc.nontrivial += 1
            if m[i][j] is None:
                report("totality", [a, b])
                continue
            acc.outcomes["impl order %s" % "<=>"[m[i][j] + 1]] += 1
            if m[j][i] is not None and m[i][j] != -m[j][i]:
                report("converse", [a, b])
            if i != j and m[i][j] == 0:
                report("identical-iff-equal", [a, b])
            # operators agree with the implementation's own compare answer where the reference
            # does not judge (judged pairs are compared with the reference by the pairs shards)
            if R.compare(a, b) is None:
                for op in OPNAMES[1:]:
                    obs, _ = run_call(op, a, b)
                    acc.evaluations += 1
                    acc.transitions += 1
                    acc.counters["self_consistency_calls"] += 1
                    if obs in ("true", "false", "<", "=", ">") and obs != expected_call(op, m[i][j]):
                        report("operator-agrees:" + op, [a, b])
        # triples
        for j in range(n):
            if acc.expired():
                acc.cap("wall budget reached inside shard")
                break
            for k in range(n):
                acc.states += 1
                acc.transitions += 1
                if i != j and j != k and i != k:
                    acc.nontrivial += 1
                bad = law_violations(m, i, j, k)
                if bad:
                    for law in bad:
                        report(law, [a, univ[j], univ[k]])
                else:
                    acc.counters["triples_ok"] += 1
        if i == 0:
            acc.sample({"law-triples-of": R.to_text(a), "triples": n * n})

    # -- sort -------------------------------------------------------------------------------
    def _sort(self, which, prefix, tier, acc):
        if which == "SU":
            univ, maxlen = SU, SORT_LEN[tier]
        else:
            univ, maxlen = U_QUICK, 3
        pre = [univ[i] for i in prefix]
        if which == "SU" and len(prefix) < 2:
            lengths = [len(prefix)]  # the exact list only; longer ones belong to 2-prefix shards
        else:
            lengths = range(len(prefix), maxlen + 1)
        for n in lengths:
            for rest in itertools.product(univ, repeat=n - len(pre)):
                if acc.expired():
                    acc.cap("wall budget reached inside shard")
                    return
                items = pre + list(rest)
                acc.states += 1
                exp = R.sort_unique(items)
                if exp is None:
                    acc.counters["unjudged_lists"] += 1
                    continue
                if not same_terms(items, exp):
                    acc.nontrivial += 1
                for mode in ("out", "check", "refuse"):
                    sym, e, o = judge_sort(items, mode)
                    acc.evaluations += 1
                    acc.transitions += 1
                    if o in ("timeout", "recursion"):
                        acc.counters["timeouts"] += 1
                        acc.cap(TIMEOUT_CAP)
                        continue
                    acc.traces += 1
                    if o.startswith("true (excluded"):
                        acc.counters["refuse_excluded_unifier_defect_C14"] += 1
                        acc.traces -= 1
                        continue
                    if mode == "out":
                        acc.outcomes["sort len %d -> %s" % (len(items), len(exp) if sym is None else sym)] += 1
                    else:
                        acc.outcomes["sort %s -> %s" % (mode, o)] += 1
                    if sym:
                        self._sort_violation(sym, mode, items, univ, acc)
                if prefix == [3, 4] and n == 3 and len(acc.samples) < 1:
                    acc.sample({"goal": "sort(%s,L)" % list_text(items), "expected": list_text(exp)})

    def _sort_violation(self, sym, mode, items, univ, acc):
        # attribution: if compare/3 already orders two elements of the list wrongly, the finding
        # is that pair (same key as the pairs family reports), not sort/2
        if sym == "wrong-value":
            for x, y in itertools.combinations(items, 2):
                cs, ce, co = judge_call("compare", x, y)
                if cs == "wrong-value":
                    small = shrink_call({"kind": "call", "op": "compare", "a": x, "b": y}, cs, U_QUICK)
                    s2, e2, o2 = judge_call(small["op"], small["a"], small["b"])
                    acc.counters["sort_violations_attributed_to_compare"] += 1
                    acc.violation(cs, small, expected=e2, observed=o2,
                                  what="%s: expected %s, observed %s"
                                       % (goal_text(small["op"], small["a"], small["b"]), e2, o2))
                    return
        case = {"kind": "sort", "mode": mode, "list": items}
        small = shrink_sort(case, sym, univ)
        s2, e2, o2 = judge_sort(small["list"], small["mode"])
        acc.violation(sym, small, expected=e2, observed=o2,
                      what="sort(%s,_) %s: expected %s, observed %s"
                           % (list_text(small["list"]), small["mode"], e2, o2))

    # -- variables --------------------------------------------------------------------------
    VAR_GOALS = [
        # (template with %s = term, expected outcome)
        ("compare(O,X,%s)", "<"), ("compare(O,%s,X)", ">"),
        ("X @< %s", "true"), ("X @=< %s", "true"), ("X @> %s", "false"), ("X @>= %s", "false"),
        ("%s @< X", "false"), ("%s @=< X", "false"), ("%s @> X", "true"), ("%s @>= X", "true"),
        ("X == %s", "false"), ("X \\== %s", "true"), ("%s == X", "false"), ("%s \\== X", "true"),
        ("compare(O,f(X),f(%s))", "<"), ("f(X) @< f(%s)", "true"), ("f(%s) @< f(X)", "false"),
        ("g(X,X) == g(X,%s)", "false"),
    ]
    VAR_FIXED = [
        ("X == X", "true"), ("X \\== X", "false"), ("X == Y", "false"), ("X \\== Y", "true"),
        ("compare(O,X,X)", "="), ("f(X,Y) == f(X,Y)", "true"), ("f(X,Y) == f(Y,X)", "false"),
        ("X @=< X", "true"), ("X @>= X", "true"), ("X @< X", "false"), ("X @> X", "false"),
        ("f(X) @=< f(X)", "true"), ("compare(O,f(X,a),f(X,b))", "<"),
    ]

    def _run_goal(self, goal):
        res = _state()["h"].query(goal, timeout=20)
        if res[0] == "ok":
            if goal.startswith("compare(O"):
                if len(res[1]) != 1:
                    return "answers:%d" % len(res[1])
                o = res[1][0][0]
                return "<=>"[ORDER_OF_TEXT[o] + 1] if o in ORDER_OF_TEXT else "bad-order:%s" % o
            return "true" if res[1] else "false"
        if res[0] == "error":
            return "error:%s" % res[1]
        if res[0] == "crash":
            return "crash:%s@%s" % (res[1], res[2])
        return res[0]

    def _var(self, tier, acc):
        univ = universe(tier)
        groups = [[(g, e)] for g, e in self.VAR_FIXED]
        for tpl, exp in self.VAR_GOALS:
            groups.append([(tpl % R.to_text(t), exp) for t in univ])
        for group in groups:
            first = {}  # symptom -> first (simplest) failing goal of this goal shape
            for goal, exp in group:
                obs = self._run_goal(goal)
                acc.evaluations += 1
                acc.transitions += 1
                acc.states += 1
                acc.nontrivial += 1
                if obs in ("timeout", "recursion"):
                    acc.counters["timeouts"] += 1
                    acc.cap(TIMEOUT_CAP)
                    continue
                acc.traces += 1
                acc.outcomes["var: %s" % obs] += 1
                sym = symptom_of(exp, obs)
                if sym:
                    if sym not in first:
                        first[sym] = {"kind": "goal", "goal": goal, "expected": exp}
                    case = first[sym]
                    acc.violation(sym, case, expected=case["expected"], observed=obs,
                                  what="%s: expected %s, observed %s" % (case["goal"], case["expected"], obs))
        acc.sample({"goal": "X @< %s" % R.to_text(univ[0]), "expected": "true"})

    # -- replay -----------------------------------------------------------------------------
    def replay(self, case):
        st = _state()
        st["memo"].clear()
        kind = case["kind"]
        if kind == "call":
            sym, exp, obs = judge_call(case["op"], case["a"], case["b"])
            return dict(ok=sym is None, expected="%s -> %s" % (goal_text(case["op"], case["a"], case["b"]), exp),
                        observed=obs)
        if kind == "sort":
            sym, exp, obs = judge_sort(case["list"], case["mode"])
            return dict(ok=sym is None, expected="sort(%s,_) [%s] -> %s" % (list_text(case["list"]), case["mode"], exp),
                        observed=obs)
        if kind == "law":
            ok, desc = check_law(case["law"], case["terms"])
            return dict(ok=ok, expected="%s holds on %s" % (case["law"], ", ".join(R.to_text(t) for t in case["terms"])),
                        observed=desc)
        obs = self._run_goal(case["goal"])
        return dict(ok=obs == case["expected"], expected="%s -> %s" % (case["goal"], case["expected"]), observed=obs)


PROP = C15()
