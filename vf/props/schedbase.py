"""Schedule properties (C03, C04): programs x engine schedules explored as a choice tree (E1)."""
from .diffbase import DiffProp, same_result
from ..gen import streams
from ..gen.programs import program_text
from .. import progcheck, engines
from ..explore import explore_deviations, ReplayDivergence
from .c01 import nontrivial


class SchedProp(DiffProp):
    strict_errors = True
    kinds = ["perm"]  # engine kinds with choice points
    fixed_kinds = []  # engine kinds without choice points (one execution each)
    bound = {"quick": 1, "thorough": 2}
    max_exec = {"quick": 400, "thorough": 4000}
    negcycle_families = ("F1.1", "F1.2", "F1.2q")
    # a choice tree whose default run offers at most this many combinations is explored COMPLETELY (no
    # deviation bound); the per-program execution cap still applies
    full_tree = {"quick": 32, "thorough": 256}
    _tier = "quick"
    # (symptom, engine kind) pairs identified by their raise site alone
    site_keyed = ()

    def run_default(self, prog):
        out, ch = engines.run_with_engine(program_text(prog), "counting")
        self._steps = ch.steps
        return out

    def horizon(self):
        return 50 * self._steps + 500

    def sched_symptom(self, ref, dflt, out):
        if out[0] == "livelock":
            return "livelock", "step horizon exceeded under this schedule"
        return self.diff_symptom(ref, dflt, out)

    def explore(self, prog, kind, bound, max_exec, horizon):
        src = program_text(prog)

        def run(prefix):
            out, ch = engines.run_with_engine(src, kind, prefix, horizon=horizon)
            return ch.trace, out

        trace0, _ = run([])
        size = 1
        for n, _, _ in trace0:
            size *= max(1, n)
        if size <= self.full_tree[self._tier]:
            bound = 10 ** 6
        return explore_deviations(run, bound, max_exec=max_exec)

    def run_shard(self, shard, tier, acc):
        fam, mod, rem = shard
        self._tier = tier
        selftest_done = False
        for idx, prog in streams.shard_stream(fam, tier, mod, rem):
            if acc.expired():
                acc.cap("wall budget reached in family %s" % fam)
                break
            if not self.filter(prog):
                continue
            ref = progcheck.reference(prog)
            if ref["negcycle"] and fam not in self.negcycle_families:
                # programs with a cycle through negation in their ground graph are explored in the
                # smallest families only (DESIGN C03/C04 'strata'): there the accept/reject decision
                # is known to be order dependent and every failing core has to be listed
                acc.counters["negative_cycle_stratum_skipped_in_large_family"] += 1
                continue
            dflt = self.run_default(prog)
            horizon = self.horizon()
            dsym, _ = progcheck.verdict(ref, dflt)
            if dsym is not None or dflt[0] in ("timeout", "recursion"):
                acc.counters["excluded_by_C01_C02:" + str(dsym or dflt[0]).split("@")[0]] += 1
                continue
            acc.states += 1
            acc.sample({"family": fam, "index": idx, "program": program_text(prog)}, limit=2)
            nontriv = False
            for kind in self.fixed_kinds:
                out, ch = engines.run_with_engine(program_text(prog), kind, horizon=horizon)
                self.account(acc, ref, dflt, out, prog, kind, [], ch.steps)
            for kind in self.kinds:
                n = 0
                reported = set()
                for choices, out, dev, trace in self.explore(prog, kind, self.bound[tier], self.max_exec[tier], horizon):
                    n += 1
                    if dev > 0:
                        nontriv = True
                    if not selftest_done and dev > 0:
                        # determinism self-test: the same schedule twice gives the same observation
                        out2, ch2 = engines.run_with_engine(program_text(prog), kind, choices, horizon=horizon)
                        if "timeout" in (out[0], out2[0]):
                            pass  # wall-clock watchdog fired (machine overloaded): try the next one
                        elif out2 != out or ch2.trace != trace:
                            raise ReplayDivergence("schedule %r of %s not reproducible: %r / %r; traces equal: %s"
                                                   % (choices, program_text(prog), out, out2, ch2.trace == trace))
                        else:
                            selftest_done = True
                            acc.counters["determinism_selftests"] += 1
                    sym = self.account(acc, ref, dflt, out, prog, kind, choices, len(trace), reported)
                if n >= self.max_exec[tier]:
                    acc.cap("per-program execution cap %d reached (deviation bound %d not completed for some programs)"
                            % (self.max_exec[tier], self.bound[tier]))
                acc.counters["max_choice_points"] = 0
            if nontriv and nontrivial(ref):
                acc.nontrivial += 1

    def account(self, acc, ref, dflt, out, prog, kind, choices, npoints, reported=None):
        acc.evaluations += 1
        acc.traces += 1
        acc.transitions += max(1, npoints)
        sym, detail = self.sched_symptom(ref, dflt, out)
        acc.outcomes[(ref["kind"], kind, out[0] if out[0] != "error" else out[1], sym or "ok")] += 1
        if detail in ("timeout", "recursion"):
            acc.counters[detail] += 1
        if sym and (reported is None or sym not in reported):
            if reported is not None:
                reported.add(sym)
            self.report_sched(prog, kind, choices, sym, acc)
        return sym

    # -- one (program, kind, schedule) case -----------------------------------------------------
    def check_sched(self, prog, kind, choices):
        ref = progcheck.reference(prog)
        dflt = self.run_default(prog)
        dsym, _ = progcheck.verdict(ref, dflt)
        if dsym is not None or dflt[0] in ("timeout", "recursion"):
            return None, "default run itself is wrong (C01/C02 case)", ref, dflt, None
        try:
            out, ch = engines.run_with_engine(program_text(prog), kind, choices, horizon=self.horizon())
        except ReplayDivergence:
            return None, "schedule does not apply", ref, dflt, None
        sym, detail = self.sched_symptom(ref, dflt, out)
        return sym, detail, ref, dflt, out

    def find_schedule(self, prog, kind, bound, sym, max_exec=300):
        """first schedule (DFS order) within the deviation bound that shows ``sym``"""
        ref = progcheck.reference(prog)
        dflt = self.run_default(prog)
        dsym, _ = progcheck.verdict(ref, dflt)
        if dsym is not None or dflt[0] in ("timeout", "recursion"):
            return None
        if kind in self.fixed_kinds:
            out, ch = engines.run_with_engine(program_text(prog), kind, horizon=self.horizon())
            return [] if self.sched_symptom(ref, dflt, out)[0] == sym else None
        for choices, out, dev, trace in self.explore(prog, kind, bound, max_exec, self.horizon()):
            if self.sched_symptom(ref, dflt, out)[0] == sym:
                while choices and choices[-1] == 0:
                    choices = choices[:-1]
                return choices
        return None

    def report_sched(self, prog, kind, choices, sym, acc):
        bound = max(1, sum(1 for c in choices if c))

        def fails(p):
            return self.find_schedule(p, kind, bound, sym) is not None

        small = progcheck.minimise(prog, fails, limit=120, strong=True)
        sched = self.find_schedule(small, kind, bound, sym)
        if sched is None:
            small, sched = prog, [c for c in choices]
        s, detail, ref, dflt, out = self.check_sched(small, kind, sched)
        case = {"program": program_text(small), "ast": small, "engine": kind, "schedule": sched}
        extra = None
        if sym.startswith("crash:") or (sym, kind) in self.site_keyed:
            # one raise site = one finding (the example program and schedule travel in `extra`)
            case, extra = {"site": sym, "engine": kind}, case
        acc.violation(sym, case, extra=extra,
                      expected={"kind": ref["kind"], "P(q|e)": ref["cond"], "default": dflt}, observed=out,
                      what="%s with engine %s schedule %s: %s [%s]" % (sym, kind, sched, program_text(small), detail))

    def replay(self, case):
        s, detail, ref, dflt, out = self.check_sched(case["ast"], case["engine"], case["schedule"])
        return dict(ok=s is None, expected={"kind": ref["kind"], "P(q|e)": ref["cond"], "default": dflt},
                    observed={"result": out, "symptom": s, "detail": detail})
