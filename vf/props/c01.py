"""C01 exact inference = distribution semantics (E3 over program grammars, oracle R1)."""
from ..core import Prop, shrink
from ..gen import streams
from ..gen.programs import program_text, cycle_info
from .. import progcheck

FAMILIES = {
    "quick": [("FTC3", 42), ("FTWIN", 4), ("FSQ", 2), ("FDUP", 4), ("FR", 32), ("F1.3e", 48), ("FLEX", 10), ("F1.2one", 64), ("F1.1one", 4), ("FC3m", 48), ("FT", 8), ("FC3", 48), ("F2.3", 48), ("F3.2", 96), ("F1.2", 96), ("F1.3s", 24), ("F2.2", 8), ("F3.1", 8), ("F1.1", 8),
              ("F1.1dup", 4), ("F2.1", 2)],
    "thorough": [("FTC3", 42), ("FTWIN", 4), ("FSQ", 2), ("FDUP", 4), ("FR", 32), ("F1.3e", 48), ("FLEX", 10), ("F1.2one", 64), ("F1.1one", 4), ("FC3g/8", 64), ("FC3m", 48), ("FT", 8), ("FC3", 48), ("F3.3/16", 64), ("F2.4/4", 64), ("F1.3/512", 64), ("F2.3", 48), ("F3.2", 96), ("F1.2", 128),
                 ("F1.3s", 48), ("F2.2", 8), ("F3.1", 8), ("F1.1", 8), ("F1.1dup", 4), ("F2.1", 2)],
}


def nontrivial(ref):
    return ref["nchoices"] >= 1 and ref["nworlds"] >= 2


class ProgramProp(Prop):
    """Shared shape of the program-level properties: stream of programs, judge each."""

    families = FAMILIES
    skip_negcycle = True
    strong_shrink = False

    def shards(self, tier):
        res = []
        for fam, mod in self.families[tier]:
            for r in range(mod):
                res.append([fam, mod, r])
        return res

    def judge(self, prog, acc=None):
        sym, detail, ref, out = progcheck.judge(prog)
        return sym, detail, ref, out

    def owns(self, sym, prog=None):
        return True

    def run_shard(self, shard, tier, acc):
        fam, mod, rem = shard
        for idx, prog in streams.shard_stream(fam, tier, mod, rem):
            if acc.expired():
                acc.cap("wall budget reached in family %s" % fam)
                break
            ref = progcheck.reference(prog)
            if self.skip_negcycle and ref["negcycle"]:
                acc.counters["routed_to_C02_negative_cycle"] += 1
                continue
            self.one(prog, ref, acc, fam, idx)

    def one(self, prog, ref, acc, fam, idx):
        sym, detail, ref, out = progcheck.judge(prog, ref=ref)
        acc.evaluations += 1
        acc.traces += 1
        acc.states += 1
        acc.transitions += ref["nworlds"]
        if nontrivial(ref):
            acc.nontrivial += 1
        acc.outcomes[(ref["kind"], out[0] if out[0] != "error" else out[1], sym or "ok")] += 1
        if detail in ("timeout", "recursion"):
            acc.counters[detail] += 1
        acc.sample({"family": fam, "index": idx, "program": program_text(prog)}, limit=2)
        if sym and self.owns(sym, prog):
            self.report(prog, sym, acc)
        elif sym:
            acc.counters["owned_by_other_property:" + sym.split(":")[0]] += 1

    def report(self, prog, sym, acc):
        def fails(p):
            s, _, _, _ = progcheck.judge(p)
            return s == sym

        small = progcheck.minimise(prog, fails, strong=self.strong_shrink)
        s, detail, ref, out = progcheck.judge(small)
        case = {"program": program_text(small), "ast": small}
        extra = None
        if sym.startswith("crash:"):  # exceptions are keyed by call site alone (DESIGN 2.7)
            case, extra = {"site": sym}, case
        acc.violation(sym, case, expected={"kind": ref["kind"], "P(q|e)": ref["cond"]}, observed=out,
                      what="%s: %s  [%s]" % (sym, program_text(small), detail), extra=extra)

    def replay(self, case):
        s, detail, ref, out = progcheck.judge(case["ast"])
        ok = s is None or not self.owns(s, case["ast"])
        return dict(ok=ok, expected={"kind": ref["kind"], "P(q|e)": ref["cond"]},
                    observed={"result": out, "symptom": s, "detail": detail})


class C01(ProgramProp):
    pid = "C01"
    title = "Exact inference computes the distribution semantics"
    technique = ("bounded-exhaustive enumeration of program grammars F1-F4 executed through the real default "
                 "pipeline, each compared with an independent possible-world (well-founded model) enumerator")
    rule = ("every program of families F1 (propositional, <=2 rules all bodies, 3 rules single-literal bodies; "
            "thorough adds all 3-rule programs), F2 (ADs, k statements from an 18-statement menu), F3/F4 "
            "(first-order over {c,d}, k rules from a 25-rule menu x 4 fact sets), FC3 (every positive-cycle structure over 3 derived atoms, all query orders; thorough adds guarded edges) with query/evidence decorations; "
            "states = programs, transitions = possible worlds enumerated by the reference; non-trivial = at "
            "least one probabilistic choice and two worlds of non-zero probability")
    assumptions = ["programs whose ground dependency graph has a cycle through negation are routed to C02",
                   "a stratified program raising NegativeCycle is reported by C02, not here"]
    budget = {"quick": 240, "thorough": 2400}

    def owns(self, sym, prog=None):
        if sym.startswith("spurious-negative-cycle") and prog is not None:
            cyc, hasneg, _ = cycle_info(prog)
            return not (cyc and hasneg)  # programs with negation and recursion belong to C02
        return True


PROP = C01()
