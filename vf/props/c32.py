"""C32 select_weighted/4,5 and select_uniform/4 of library(lists) define the documented distribution.

Bounded-exhaustive enumeration of calls (weight lists over {1,2,3}, value lists with every pattern of equal
elements, identifiers id1/id2; single calls and pairs of calls in one clause) executed through the real default
inference; oracle = closed form."""
import itertools
from fractions import Fraction

from ..core import Prop, shrink
from .. import plrun

TOL = 1e-9
HEADER = ":- use_module(library(lists)).\n"
NAMES = "abcdef"
NSHARDS = {"quick": 64, "thorough": 256}


# ---------------------------------------------------------------------------------------------
# programs


def plist(items):
    return "[" + ",".join(str(x) for x in items) + "]"


def call_text(call, x, r):
    kind, ident, ws, vs = call["kind"], call["id"], call["weights"], call["values"]
    if kind == "sw5":
        return "select_weighted(%s,%s,%s,%s,%s)" % (ident, plist(ws), plist(vs), x, r)
    if kind == "sw4":
        return "select_weighted(%s,%s,%s,%s)" % (ident, plist("(%s,%s)" % (w, v) for w, v in zip(ws, vs)), x, r)
    if kind == "su":
        return "select_uniform(%s,%s,%s,%s)" % (ident, plist(vs), x, r)
    raise ValueError(kind)


def program_text(case):
    form = case["form"]
    c = case["calls"]
    if form == "single":          # element and rest list
        return HEADER + "q(X,R) :- %s.\nquery(q(X,R)).\n" % call_text(c[0], "X", "R")
    if form == "marginal":        # element only: equal values add up
        return HEADER + "q(X) :- %s.\nquery(q(X)).\n" % call_text(c[0], "X", "_")
    if form == "joint":           # two calls in one clause, elements only
        return HEADER + "q(X,Y) :- %s, %s.\nquery(q(X,Y)).\n" % (call_text(c[0], "X", "_"), call_text(c[1], "Y", "_"))
    if form == "joint-rest":      # two calls in one clause, elements and rests
        return HEADER + "q(X,R,Y,S) :- %s, %s.\nquery(q(X,R,Y,S)).\n" % (call_text(c[0], "X", "R"), call_text(c[1], "Y", "S"))
    if form == "joint-aux":       # the two calls live in different clauses
        return HEADER + "q1(X) :- %s.\nq2(Y) :- %s.\nq(X,Y) :- q1(X), q2(Y).\nquery(q(X,Y)).\n" % (
            call_text(c[0], "X", "_"), call_text(c[1], "Y", "_"))
    raise ValueError(form)


# ---------------------------------------------------------------------------------------------
# oracle (closed form)


def weights_of(call):
    if call["kind"] == "su":
        return [Fraction(1)] * len(call["values"])
    return [Fraction(w) for w in call["weights"]]


def choice_key(call):
    """two calls make the *same* choice iff same identifier and the same (weights, values) after
    normalising select_uniform/select_weighted-4 to select_weighted/5; None = relationship not specified"""
    return (call["id"], tuple(call["values"]), tuple(call["weights"]) if call["kind"] != "su" else None)


def related(c1, c2):
    """'same' | 'independent' | None (not covered by the statement)"""
    if c1["id"] != c2["id"]:
        return "independent"
    if (c1["kind"] == "su") != (c2["kind"] == "su"):
        return None
    if choice_key(c1) == choice_key(c2):
        return "same"
    return None


def outcomes(call):
    """[(probability, element, rest list)] per position"""
    ws = weights_of(call)
    tot = sum(ws)
    vs = call["values"]
    return [(w / tot, vs[i], vs[:i] + vs[i + 1:]) for i, w in enumerate(ws)]


def expected(case):
    """{answer text without blanks: Fraction} or None when the statement does not determine the answer"""
    form = case["form"]
    c = case["calls"]
    dist = {}

    def add(k, p):
        dist[k] = dist.get(k, Fraction(0)) + p

    if any(len(x["values"]) == 0 for x in c):
        return None
    if form == "single":
        for p, v, rest in outcomes(c[0]):
            add("q(%s,%s)" % (v, plist(rest)), p)
    elif form == "marginal":
        for p, v, rest in outcomes(c[0]):
            add("q(%s)" % v, p)
    else:
        rel = related(c[0], c[1])
        if rel is None:
            return None
        o1, o2 = outcomes(c[0]), outcomes(c[1])
        if rel == "same":
            pairs = [(a[0], a, b) for a, b in zip(o1, o2)]
        else:
            pairs = [(a[0] * b[0], a, b) for a in o1 for b in o2]
        for p, a, b in pairs:
            if form == "joint-rest":
                add("q(%s,%s,%s,%s)" % (a[1], plist(a[2]), b[1], plist(b[2])), p)
            else:
                add("q(%s,%s)" % (a[1], b[1]), p)
    return dist


# ---------------------------------------------------------------------------------------------
# judgement


def picks_agree(answer):
    """q(x,y) / q(x,r,y,s) of two calls over the same lists: both calls report the same pick (and rest)"""
    inner = answer[answer.index("(") + 1:-1]
    n = len(inner)
    return n % 2 == 1 and inner[n // 2] == "," and inner[:n // 2] == inner[n // 2 + 1:]


def judge(case):
    """-> dict(sym, detail, expected, observed, outclass)"""
    exp = expected(case)
    src = program_text(case)
    res = dict(sym=None, detail="", src=src, expected=None, observed=None)
    if exp is None:
        res["detail"] = "unjudged:not-covered"
        res["outclass"] = "not-run"
        return res
    res["expected"] = {k: float(v) for k, v in sorted(exp.items())}
    out = plrun.infer(src, timeout=60)
    res["outclass"] = out[0] if out[0] != "error" else "error:" + out[1]
    if out[0] in ("timeout", "recursion"):
        res["detail"] = "unjudged:" + out[0]
        return res
    if out[0] == "crash":
        res["sym"] = "crash:%s@%s" % (out[1], out[2])
        res["observed"] = list(out)
        return res
    if out[0] == "error":
        res["sym"] = "error-must-answer:%s" % out[1]
        res["observed"] = list(out)
        return res
    obs = {k.replace(" ", ""): v for k, v in out[1].items()}
    res["observed"] = obs
    keys = sorted(set(exp) | set(obs))
    bad = [k for k in keys if abs(float(exp.get(k, 0)) - obs.get(k, 0.0)) > TOL]
    if not bad:
        res["detail"] = "ok"
        return res
    support_e = set(k for k, v in exp.items() if v > 0)
    support_o = set(k for k, v in obs.items() if v > TOL)
    k = bad[0]
    disagree = sorted(a for a in support_o - support_e if not picks_agree(a))
    if len(case["calls"]) == 2 and related(*case["calls"]) == "same" and disagree:
        res["sym"] = "same-id-disagree"
        k = disagree[0]
    elif support_e != support_o:
        res["sym"] = "wrong-answers"
        k = sorted(support_e ^ support_o)[0]
    else:
        res["sym"] = "wrong-probability"
    total = sum(obs.values())
    res["detail"] = "%s: closed form %.10g, reported %s; reported probabilities sum to %.10g" % (
        k, float(exp.get(k, 0)), ("%.10g" % obs[k]) if k in obs else "not reported", total)
    return res


# ---------------------------------------------------------------------------------------------
# enumeration


def partitions(n):
    """restricted growth strings of length n = every pattern of equal / distinct elements"""
    def rec(prefix, mx):
        if len(prefix) == n:
            yield list(prefix)
            return
        for v in range(mx + 2):
            for r in rec(prefix + [v], max(mx, v)):
                yield r

    return list(rec([0], 0)) if n else [[]]


def values_of(pattern):
    return [NAMES[i] for i in pattern]


SOME4 = [[0, 1, 2, 3], [0, 1, 2, 0], [0, 0, 1, 1], [0, 0, 0, 0]]
SOME5 = [[0, 1, 2, 3, 4], [0, 1, 2, 3, 0], [0, 1, 0, 1, 0]]
SOME6 = [[0, 1, 2, 3, 4, 5], [0, 1, 2, 3, 4, 0], [0, 0, 0, 0, 0, 0]]


def weight_lists(n):
    return [list(w) for w in itertools.product((1, 2, 3), repeat=n)]


def mk(kind, ident, ws, vs):
    return {"kind": kind, "id": ident, "weights": list(ws) if kind != "su" else [], "values": list(vs)}


def cases(tier):
    full = tier == "thorough"
    ids = ("id1", "id2")
    out = []
    n_alt = [0]

    def alt():
        n_alt[0] += 1
        return ids[n_alt[0] % 2]

    def other(i):
        return "id2" if i == "id1" else "id1"

    # single calls: select_weighted/5
    for n in range(1, 7 if full else 5):
        if n <= 3 or (full and n <= 5):
            pats = partitions(n)
        else:
            pats = {4: SOME4, 5: SOME5, 6: SOME6}[n]
        for pat in pats:
            for ws in weight_lists(n):
                both = n <= 4
                for ident in (ids if both else (alt(),)):
                    out.append({"form": "single", "calls": [mk("sw5", ident, ws, values_of(pat))]})
    # single calls: select_weighted/4 (list of (Weight,Value) pairs)
    for n in range(1, 6 if full else 5):
        for pat in ([list(range(n)), [0] + list(range(n - 1))] if n > 1 else [[0]]):
            for ws in weight_lists(n):
                out.append({"form": "single", "calls": [mk("sw4", alt(), ws, values_of(pat))]})
    # single calls: select_uniform/4
    for n in range(1, 7 if full else 5):
        pats = partitions(n) if n <= 4 or full and n <= 5 else {5: SOME5, 6: SOME6}[n]
        for pat in pats:
            for ident in ids:
                out.append({"form": "single", "calls": [mk("su", ident, [], values_of(pat))]})
    # marginal over the element: equal values add up
    for n in range(2, 5 if full else 4):
        for pat in partitions(n):
            if len(set(pat)) == n:
                continue
            for ws in weight_lists(n):
                out.append({"form": "marginal", "calls": [mk("sw5", alt(), ws, values_of(pat))]})
            out.append({"form": "marginal", "calls": [mk("su", alt(), [], values_of(pat))]})
    # two calls, same identifier, same lists: the same choice
    for n in range(1, 6 if full else 5):
        if n <= 3 or (full and n == 4):
            pats = partitions(n)
        else:
            pats = [list(range(n))] + ([[0, 1, 2, 3, 0][:n - 1] + [0]] if full else [])
        for pat in pats:
            for ws in weight_lists(n):
                i = alt()
                vs = values_of(pat)
                out.append({"form": "joint", "calls": [mk("sw5", i, ws, vs), mk("sw5", i, ws, vs)]})
                if n <= 3:
                    out.append({"form": "joint-rest", "calls": [mk("sw5", i, ws, vs), mk("sw5", i, ws, vs)]})
                if n <= 2 or (full and n == 3):
                    out.append({"form": "joint", "calls": [mk("sw5", i, ws, vs), mk("sw4", i, ws, vs)]})
                    out.append({"form": "joint-aux", "calls": [mk("sw5", i, ws, vs), mk("sw5", i, ws, vs)]})
                    out.append({"form": "joint-aux", "calls": [mk("sw5", i, ws, vs), mk("sw5", other(i), ws, vs)]})
    # two calls, different identifiers: independent choices (second call: same lists, or reversed weights)
    for n in range(1, 5 if full else 4):
        for pat in partitions(n):
            for ws in weight_lists(n):
                i = alt()
                vs = values_of(pat)
                out.append({"form": "joint", "calls": [mk("sw5", i, ws, vs), mk("sw5", other(i), ws, vs)]})
                if ws != ws[::-1]:
                    out.append({"form": "joint", "calls": [mk("sw5", i, ws, vs), mk("sw5", other(i), ws[::-1], vs)]})
                if n <= 2:
                    out.append({"form": "joint-rest", "calls": [mk("sw5", i, ws, vs), mk("sw5", other(i), ws, vs)]})
    # select_uniform pairs
    for n in range(1, 6 if full else 5):
        for pat in partitions(n):
            vs = values_of(pat)
            i = alt()
            out.append({"form": "joint", "calls": [mk("su", i, [], vs), mk("su", i, [], vs)]})
            out.append({"form": "joint", "calls": [mk("su", i, [], vs), mk("su", other(i), [], vs)]})
            if n <= 3:
                out.append({"form": "joint-rest", "calls": [mk("su", i, [], vs), mk("su", i, [], vs)]})
    return out


# ---------------------------------------------------------------------------------------------
# shrinking


def candidates(case):
    calls = case["calls"]
    n = len(calls[0]["values"])
    same_len = all(len(c["values"]) == n for c in calls)
    # simpler forms
    if len(calls) == 2:
        yield dict(case, form="marginal", calls=calls[:1])
        yield dict(case, form="single", calls=calls[:1])
    if case["form"] == "single":
        yield dict(case, form="marginal")
    if case["form"] == "joint-rest":
        yield dict(case, form="joint")
    if case["form"] == "joint-aux":
        yield dict(case, form="joint")
    # select_uniform -> select_weighted/5 with unit weights
    if any(c["kind"] == "su" for c in calls):
        yield dict(case, calls=[dict(c, kind="sw5", weights=[1] * len(c["values"])) if c["kind"] == "su" else c
                                for c in calls])
    # drop one position in every call
    if same_len and n > 1:
        for i in range(n):
            cs = []
            for c in calls:
                cs.append(dict(c, values=c["values"][:i] + c["values"][i + 1:],
                               weights=(c["weights"][:i] + c["weights"][i + 1:]) if c["kind"] != "su" else []))
            yield dict(case, calls=cs)
    # kinds towards select_weighted/5
    for j, c in enumerate(calls):
        if c["kind"] == "sw4":
            yield dict(case, calls=calls[:j] + [dict(c, kind="sw5")] + calls[j + 1:])
    # weights towards 1 (same position in all calls that carry equal weight lists)
    for i in range(n):
        for target in (1, None):
            cs = []
            changed = False
            for c in calls:
                if c["kind"] != "su" and i < len(c["weights"]) and c["weights"][i] > 1:
                    w = list(c["weights"])
                    w[i] = 1 if target == 1 else w[i] - 1
                    changed = True
                    cs.append(dict(c, weights=w))
                else:
                    cs.append(c)
            if changed:
                yield dict(case, calls=cs)
    # values: canonical names (all distinct), then first name everywhere
    for vs in ([NAMES[i] for i in range(n)], ):
        if same_len and any(c["values"] != vs for c in calls):
            yield dict(case, calls=[dict(c, values=list(vs)) for c in calls])
    # identifiers towards id1
    if any(c["id"] != "id1" for c in calls):
        if len(set(c["id"] for c in calls)) == 1:
            yield dict(case, calls=[dict(c, id="id1") for c in calls])
        elif calls[0]["id"] != "id1":
            yield dict(case, calls=[dict(c, id=("id1" if k == 0 else "id2")) for k, c in enumerate(calls)])


_SYM = {}


def sym_of(case):
    key = program_text(case)
    if key not in _SYM:
        _SYM[key] = judge(case)["sym"]
    return _SYM[key]


def describe(case):
    return program_text(case)[len(HEADER):].replace("\n", " ").strip()


def nontrivial(case):
    """at least two positions and (for the closed form to matter) not all weights equal or a pair of calls"""
    c = case["calls"]
    return len(c[0]["values"]) >= 2 and (len(c) == 2 or c[0]["kind"] == "su" or len(set(c[0]["weights"])) > 1
                                         or len(set(c[0]["values"])) < len(c[0]["values"]))


class C32(Prop):
    pid = "C32"
    title = "Weighted selection library predicates define the documented distribution"
    technique = ("bounded-exhaustive enumeration of select_weighted/5, select_weighted/4 and select_uniform/4 calls "
                 "(single calls and pairs of calls in one clause / two clauses) run through the real default inference, "
                 "compared with the closed form")
    rule = ("all weight lists over {1,2,3} of length 1-4 (quick) / 1-6 (thorough) x value lists for every pattern of equal "
            "and distinct elements (all set partitions up to length 3 (quick) / 5 (thorough), selected patterns above) x "
            "identifiers id1/id2; forms: q(X,R) single call, q(X) marginal (equal values add up), q(X,Y) / q(X,R,Y,S) two "
            "calls with the same identifier and lists (same choice: no answer with different picks) or different "
            "identifiers (independent), select_weighted/5 paired with select_weighted/4, calls in different clauses; "
            "states = programs; transitions = answers compared; non-trivial = list of >= 2 elements and unequal weights, "
            "equal values, select_uniform or two calls")
    assumptions = [
        "probabilities compared with tolerance 1e-9; an answer reported with probability 0 is the same as not reported",
        "two calls with the same identifier but different weights/values are not covered by the statement and not enumerated",
        "select_weighted/4 takes a list of (Weight,Value) pairs as unzip/3 of library(lists) defines",
        "empty lists (no element can be chosen) are outside the statement",
    ]
    budget = {"quick": 240, "thorough": 2400}

    def precheck(self, tier):
        # anchors of the closed form
        e = expected({"form": "single", "calls": [mk("sw5", "id1", [1, 2, 3], ["a", "b", "a"])]})
        want = {"q(a,[b,a])": Fraction(1, 6), "q(b,[a,a])": Fraction(1, 3), "q(a,[a,b])": Fraction(1, 2)}
        if e != want:
            raise RuntimeError("closed form anchor failed: %r" % (e,))
        e = expected({"form": "joint", "calls": [mk("su", "id1", [], ["a", "a", "b"])] * 2})
        if e != {"q(a,a)": Fraction(2, 3), "q(b,b)": Fraction(1, 3)}:
            raise RuntimeError("closed form anchor failed: %r" % (e,))
        return {}

    def shards(self, tier):
        return [[tier, NSHARDS[tier], r] for r in range(NSHARDS[tier])]

    def run_shard(self, shard, tier, acc):
        _, mod, rem = shard
        for i, case in enumerate(cases(tier)):
            if i % mod != rem:
                continue
            if acc.expired():
                acc.cap("wall budget reached inside shard")
                return
            r = judge(case)
            if r["outclass"] == "not-run":
                acc.counters[r["detail"]] += 1
                continue
            acc.evaluations += 1
            acc.states += 1
            kinds = "+".join(c["kind"] for c in case["calls"])
            rel = related(*case["calls"]) if len(case["calls"]) == 2 else "-"
            acc.counters["form:%s:%s:%s" % (case["form"], kinds, rel)] += 1
            if r["detail"].startswith("unjudged"):
                acc.counters[r["detail"]] += 1
                acc.outcomes[("unjudged", r["outclass"])] += 1
                continue
            acc.traces += 1
            acc.transitions += len(r["expected"])
            if nontrivial(case):
                acc.nontrivial += 1
            acc.outcomes[(r["sym"] or "ok", case["form"], min(len(r["expected"]), 9))] += 1
            acc.sample({"program": r["src"]}, limit=2)
            if r["sym"]:
                self.report(case, r["sym"], acc)

    def report(self, case, sym, acc):
        small = shrink(case, candidates, lambda c: sym_of(c) == sym, limit=300)
        r2 = judge(small)
        small = dict(small, program=program_text(small))
        key_case, extra = small, None
        if sym.startswith("crash:") or sym.startswith("error-must-answer:"):
            key_case, extra = {"site": sym}, small
        acc.violation(sym, key_case, expected=r2["expected"], observed=r2["observed"], extra=extra,
                      what="%s: %s  [%s]" % (sym, describe(small), r2["detail"]))

    def replay(self, case):
        r = judge({"form": case["form"], "calls": case["calls"]})
        return dict(ok=r["sym"] is None, expected=r["expected"],
                    observed={"result": r["observed"], "symptom": r["sym"], "detail": r["detail"]})


PROP = C32()
