"""C34 utility containers behave as their abstract models (E2: BFS over operation histories)."""
from ..core import Prop, shrink
from ..explore import bfs_histories

KEYS = [1, 2, 3]
SUBS = [(1,), (2, 3), (3, 1)]
IDX = [0, 1, 31, 32, 33, 64]
BSUBS = [(0,), (32, 64), (1, 33)]
ITEMS = "abc"


def os_ops():
    ops = []
    for k in KEYS:
        ops += [["add", k], ["discard", k]]
    ops += [["pop", True], ["pop", False]]
    for sub in SUBS:
        for o in ("ior", "or", "and", "sub", "eq"):
            ops.append([o, list(sub)])
    ops += [["copy", None], ["clear", None], ["remove", 1], ["isub", [2, 3]], ["iand", [3, 1]]]
    return ops


def apply_os(hist):
    from problog.util import OrderedSet

    s = OrderedSet()
    m = []
    for op, arg in hist:
        if op == "add":
            s.add(arg)
            if arg not in m:
                m.append(arg)
        elif op == "discard":
            s.discard(arg)
            if arg in m:
                m.remove(arg)
        elif op == "remove":
            if arg in m:
                s.remove(arg)
                m.remove(arg)
        elif op == "pop":
            if m:  # popping an empty set is outside the statement: not called
                r = s.pop(arg)
                e = m.pop(-1 if arg else 0)
                if r != e:
                    return None, "pop(last=%s) returned %r, model %r" % (arg, r, e)
        elif op == "ior":
            s |= OrderedSet(arg)
            for x in arg:
                if x not in m:
                    m.append(x)
        elif op == "isub":
            s -= OrderedSet(arg)
            m = [x for x in m if x not in arg]
        elif op == "iand":
            s &= OrderedSet(arg)
            m = [x for x in m if x in arg]
        elif op == "clear":
            s.clear()
            m = []
        elif op == "copy":
            s = OrderedSet(s)
        elif op == "or":
            # binary operators are judged as sets only (see DESIGN C34)
            r = s | OrderedSet(arg)
            if set(r) != set(m) | set(arg) or len(r) != len(set(m) | set(arg)):
                return None, "| gave %r, model set %r" % (list(r), sorted(set(m) | set(arg)))
            r.add(99)
            if list(s) != m:
                return None, "| result aliases its operand: operand now %r, model %r" % (list(s), m)
        elif op == "and":
            r = s & OrderedSet(arg)
            if set(r) != set(m) & set(arg) or len(r) != len(set(m) & set(arg)):
                return None, "& gave %r, model set %r" % (list(r), sorted(set(m) & set(arg)))
        elif op == "sub":
            r = s - OrderedSet(arg)
            if set(r) != set(m) - set(arg) or len(r) != len(set(m) - set(arg)):
                return None, "- gave %r, model set %r" % (list(r), sorted(set(m) - set(arg)))
        elif op == "eq":
            r = s == OrderedSet(arg)
            e = m == list(arg)
            if bool(r) != e:
                return None, "== OrderedSet(%r) gave %r, model %r" % (arg, r, e)
            r2 = s == set(arg)
            if bool(r2) != (set(m) == set(arg)):
                return None, "== set(%r) gave %r, model %r" % (arg, r2, set(m) == set(arg))
        if (
            list(s) != m
            or len(s) != len(m)
            or list(reversed(s)) != m[::-1]
            or any((k in s) != (k in m) for k in KEYS)
        ):
            return None, "state after %s: iteration %r reversed %r len %d, model %r" % (
                op, list(s), list(reversed(s)), len(s), m)
    return ("os", tuple(m)), None


def heap_ops():
    ops = []
    for it in ITEMS:
        for k in (1, 2, 3):
            ops.append(["push", [it, k]])
    ops += [["pop", None], ["peek", None], ["popk", None]]
    return ops


def apply_heap(hist):
    from problog.util import UHeap

    keys = {}
    h = UHeap(key=lambda it: keys[it])
    m = {}
    for op, arg in hist:
        if op == "push":
            it, k = arg
            keys[it] = k
            h.push(it)
            m[it] = k
        elif op in ("pop", "popk"):
            if m:  # popping an empty heap is outside the statement: not called
                if op == "popk":
                    k, it = h.pop_with_key()
                else:
                    it = h.pop()
                    k = m.get(it)
                mk = min(m.values())
                if it not in m or k != mk or m.get(it) != k:
                    return None, "pop gave %r with key %r, model minimum key %r (%r)" % (it, k, mk, m)
                del m[it]
        elif op == "peek":
            if m:
                it = h.peek()
                if it not in m or m[it] != min(m.values()):
                    return None, "peek gave %r, model %r" % (it, m)
        if len(h) != len(m):
            return None, "len %d, model %d" % (len(h), len(m))
    # drain a copy of the state?  The real heap cannot be copied cheaply; the drain order is
    # checked by the pops the BFS itself performs.
    return ("heap", tuple(sorted(m.items())), tuple((k, it) for k, it in h._heap)), None


def bv_ops():
    ops = [["add", i] for i in IDX]
    for sub in BSUBS:
        for o in ("ior", "iand", "or", "and"):
            ops.append([o, list(sub)])
    return ops


def mkbv(sub):
    from problog.util import BitVector

    b = BitVector()
    for i in sub:
        b.add(i)
    return b


def apply_bv(hist):
    from problog.util import BitVector

    b = BitVector()
    m = set()
    for op, arg in hist:
        if op == "add":
            b.add(arg)
            m.add(arg)
        elif op == "ior":
            b |= mkbv(arg)
            m |= set(arg)
        elif op == "iand":
            b &= mkbv(arg)
            m &= set(arg)
        elif op in ("or", "and"):
            other = mkbv(arg)
            r = (b | other) if op == "or" else (b & other)
            exp = (m | set(arg)) if op == "or" else (m & set(arg))
            if sorted(r) != sorted(exp) or len(r) != len(exp):
                return None, "%s gave %r, model %r" % ("|" if op == "or" else "&", sorted(r), sorted(exp))
            # the result is a set of its own: changing it must not change an operand (and vice versa)
            r.add(200)
            if sorted(b) != sorted(m) or sorted(other) != sorted(set(arg)):
                return None, "%s result aliases an operand: after adding 200 to the result the operands are %r / %r" % (
                    "|" if op == "or" else "&", sorted(b), sorted(other))
        if (
            sorted(b) != sorted(m)
            or len(b) != len(m)
            or bool(b) != bool(m)
            or any(bool(i in b) != (i in m) for i in IDX + [2, 63, 65, 200])
        ):
            return None, "state after %s: elements %r len %d, model %r" % (op, sorted(b), len(b), sorted(m))
    return ("bv", tuple(sorted(m))), None


KINDS = {"os": (apply_os, os_ops), "heap": (apply_heap, heap_ops), "bv": (apply_bv, bv_ops)}
DEPTH = {"quick": {"os": 6, "heap": 7, "bv": 6}, "thorough": {"os": 8, "heap": 9, "bv": 8}}


def symptom_of(err):
    return err.split(":")[0].split(" gave")[0].split(" returned")[0][:60]


class C34(Prop):
    pid = "C34"
    title = "Utility containers behave as their abstract models"
    technique = ("explicit-state BFS over operation histories of the real OrderedSet/UHeap/BitVector, "
                 "step-by-step agreement with reference models (list-set, dict-min, python set)")
    rule = ("every history up to the depth bound over the operation menu (keys {1,2,3}, items a-c with keys "
            "1-3, bit indices {0,1,31,32,33,64}); states merged on (model state, heap array); a transition "
            "is non-trivial when it changes the canonical state")
    assumptions = ["binary operators | & - of OrderedSet judged as sets only (statement fixes order by insertions)"]

    def shards(self, tier):
        res = []
        for kind, (_, ops) in KINDS.items():
            for op in ops():
                res.append([kind, op])
        return res

    def run_shard(self, shard, tier, acc):
        kind, first = shard
        apply, ops = KINDS[kind]
        menu = ops()

        def on_violation(hist, err):
            sym = kind + ":" + symptom_of(err)

            def fails(h):
                st, e = apply(h)
                return e is not None and kind + ":" + symptom_of(e) == sym

            def cands(h):
                for i in range(len(h)):
                    yield h[:i] + h[i + 1:]

            small = shrink(hist, cands, fails)
            _, e = apply(small)
            acc.violation(sym, {"container": kind, "history": small}, expected="agreement with reference model",
                          observed=e, what="%s %s" % (kind, e))

        import collections

        stats = collections.Counter()
        bfs_histories(apply, menu, DEPTH[tier][kind], prefix=[first], on_violation=on_violation, stats=stats)
        acc.states += stats["states"]
        acc.transitions += stats["transitions"] + 1
        acc.evaluations += stats["transitions"] + 1
        acc.traces += stats["transitions"] + 1
        acc.nontrivial += stats["states"]
        acc.outcomes[kind] += stats["states"]
        acc.counters[kind + "_states"] += stats["states"]
        acc.counters[kind + "_transitions"] += stats["transitions"]
        acc.sample({"container": kind, "first_op": first, "depth": DEPTH[tier][kind], "states": stats["states"]})

    def replay(self, case):
        apply, _ = KINDS[case["container"]]
        st, err = apply(case["history"])
        return dict(ok=err is None, expected="agreement with reference model", observed=err or "agrees: %r" % (st,))


PROP = C34()
