"""C27 user errors surface as ProbLog errors, never as crashes (E3: bounded-exhaustive enumeration).

Three strata, every element of each is executed on the real implementation:

(a) calls   every registered builtin (``DefaultEngine().get_builtins()``) and every predicate exported by
            the bundled libraries x argument tuples over a 12-shape alphabet, executed as a goal
            (``BuiltinHarness.query`` on a prepared DB) and as the body of a clause through the default
            inference (``vf.plrun.infer``);
(b) programs  all programs of <= 2 (3) statements over a grammar of ill-formed statements, plus (b2) all
            small propositional programs with cycles through negation;
(c) tokens  all strings of <= 4 (5) tokens over a 24-token alphabet, run through the default inference.

Oracle: an execution returns, or raises a ``ProbLogError`` subclass; any other exception is a violation
keyed by the call site ``(exception class, innermost problog function)`` alone.
"""
import io
import itertools
import os
import re
import shutil
import sys
import tempfile
import time

from ..core import Prop, Acc, shrink, short_hash, watchdog, WatchdogTimeout
from ..plrun import infer, BuiltinHarness, classify_exception

# ---------------------------------------------------------------------------------------------
# stratum (a): alphabet

# (label, text); %d = argument position (variables of different arguments are distinct)
SHAPES = [
    ("var", "X%d"),
    ("atom", "a"),
    ("undef", "undefd"),      # atom naming an undefined predicate
    ("int", "1"),
    ("negint", "-2"),
    ("float", "2.5"),
    ("string", '"s"'),
    ("nil", "[]"),
    ("list", "[a,b]"),
    ("plist", "[a|T%d]"),
    ("compound", "f(a)"),
    ("goal", "p(a)"),         # callable, defined (probabilistic) goal
]
NSHAPES = len(SHAPES)
ATOM = 1
# reduced alphabet for arity 3 in the quick tier: var, atom, int, string, list, partial list, defined goal
REDUCED = [0, 1, 3, 6, 8, 9, 11]
# order in which an argument is simplified when a crash example is shrunk
SIMPLER = [1, 3, 0]

PRELUDE = "0.4::p(a). p(b)."

# Signatures whose call changes the database / the engine / module-level state: the goal-mode harness
# is rebuilt from scratch after each of their calls.  All of them receive the plain shape alphabet,
# every member of which is *inert* for them: the working directory of a shard is a fresh empty
# temporary directory, so no alphabet member names an existing file.
MUTATING = {
    "consult", ".", "_consult", "use_module", "_use_module", "unknown", "nocache", "seq", "probabilityX",
    "assertz", "retract", "retractall", "recorda", "recordz", "erase", "recorded", "current_key",
    "instance", "use_semiring", "sqlite_load", "csv_load",
}
RESTRICTED_WHY = {
    "consult/1, ./2, _consult/2, use_module/1, use_module/2, _use_module/2, _use_module/3":
        "read (and for .py: execute) the file named by the argument; run only with the shape alphabet inside "
        "an empty temporary working directory, where no alphabet member names an existing file (checked); "
        "library(...) and path arguments are never generated",
    "db:sqlite_load/1, db:csv_load/2":
        "open the named database/csv file (csv_load writes a temp sqlite file once the csv exists); run only "
        "with the shape alphabet in the empty temporary directory, so they stop at their own "
        "'file not found' test",
    "write/N, writeln/N, writenl/N, nl/0, debugprint/N, print_state/0, dbg_printdb/0":
        "print to stdout/stderr; both are replaced by a sink while a shard runs",
    "cmd_args/1": "reads engine.args only (None here); nothing from the real command line is exposed",
    "assert:assertz/1, retract/1, retractall/1, record:*, aproblog:use_semiring/N, unknown/1, nocache/2, seq/1":
        "mutate the database / engine: fresh database after every call in goal mode",
    "stdin": "sys.stdin is an empty stream while a shard runs (consult('-') reads stdin)",
}
# python libraries that are loaded by a same-named .pl library are covered through that library
PLAIN = re.compile(r"^[a-z][A-Za-z0-9_]*$")


class _Sink(object):
    def write(self, *a):
        return 0

    def flush(self):
        pass

    def isatty(self):
        return False


class quiet(object):
    """stdout/stderr to a sink, empty stdin, cwd = fresh empty temp dir (removed afterwards)."""

    def __enter__(self):
        self.saved = (sys.stdout, sys.stderr, sys.stdin, os.getcwd())
        self.tmp = tempfile.mkdtemp(prefix="vf_c27_")
        os.chdir(self.tmp)
        sys.stdout = sys.stderr = _Sink()
        sys.stdin = io.StringIO("")
        return self

    def leftovers(self):
        try:
            return sorted(os.listdir(self.tmp))
        except OSError:
            return []

    def __exit__(self, *exc):
        sys.stdout, sys.stderr, sys.stdin, cwd = self.saved
        os.chdir(cwd)
        shutil.rmtree(self.tmp, ignore_errors=True)
        return False


# ---------------------------------------------------------------------------------------------
# stratum (a): universe of signatures, read from the real implementation

_UNIVERSE = None


def library_dir():
    import problog

    return os.path.join(os.path.dirname(os.path.abspath(problog.__file__)), "library")


def libraries():
    """-> [(name, kind)], kind 'pl' | 'py'; a .py with a same-named .pl is reached through the .pl"""
    names = sorted(os.listdir(library_dir()))
    pl = sorted(n[:-3] for n in names if n.endswith(".pl"))
    py = sorted(n[:-3] for n in names if n.endswith(".py") and n[:-3] not in pl and not n.startswith("__"))
    return [(n, "pl") for n in pl] + [(n, "py") for n in py]


def _head_signatures(stmt):
    from problog.logic import Clause, AnnotatedDisjunction, Term

    if isinstance(stmt, AnnotatedDisjunction):
        heads = stmt.heads
    elif isinstance(stmt, Clause):
        heads = [stmt.head]
    elif isinstance(stmt, Term):
        heads = [stmt]
    else:
        heads = []
    return [(str(h.functor), int(h.arity)) for h in heads if isinstance(h, Term)]


def lib_exports(name, kind):
    """Predicates a user can call after ``:- use_module(library(name)).``"""
    from problog.engine import DefaultEngine
    from problog.program import PrologString, PrologFile
    from problog.logic import Term, term2list

    path = os.path.join(library_dir(), name + "." + kind)
    exports = []
    with quiet():
        if kind == "py":
            db = DefaultEngine().prepare(PrologString(""))
            _, preds = db.load_external_module(path)
            exports = [(str(t.args[0]), int(t.args[1])) for t in preds]
        else:
            module_preds = None
            for st in PrologFile(path):
                if (getattr(st, "functor", None) == ":-" and getattr(st.args[0], "functor", None) == "_directive"
                        and st.args[1].signature == "module/2"):
                    module_preds = [(str(t.args[0]), int(t.args[1])) for t in term2list(st.args[1].args[1])]
                    break
            if module_preds is not None:
                exports = module_preds
            else:
                base = set()
                for st in DefaultEngine().prepare(PrologString("")):
                    base.update(_head_signatures(st))
                db = DefaultEngine().prepare(PrologString(":- use_module(library(%s))." % name))
                seen = set()
                for st in db:
                    for sg in _head_signatures(st):
                        if sg in base or sg in seen or sg[0].startswith("_") or re.match(r"^body_\d+$", sg[0]):
                            continue
                        seen.add(sg)
                        exports.append(sg)
        # keep those that really resolve after loading the library
        db = DefaultEngine().prepare(PrologString(":- use_module(library(%s))." % name))
        res = []
        for fn, ar in exports:
            if db.find(Term(fn, *([None] * ar))) is not None and (fn, ar) not in res:
                res.append((fn, ar))
    return sorted(res, key=lambda s: (s[1], s[0]))


def call_template(name, arity):
    """Text template of a call, chosen with the real parser: the first candidate form that parses to
    a term with this signature."""
    from problog.logic import Term

    if arity == 0:
        cands = [name, "'%s'" % name]
    else:
        hole = "(" + ",".join(["%s"] * arity) + ")"
        cands = []
        if PLAIN.match(name):
            cands.append(name + hole)
        if arity == 2:
            cands.append("%s " + name + " %s")
        if arity == 1 and not PLAIN.match(name):
            cands.append(name + " %s")           # prefix operator
        if name.startswith("'"):
            cands.append(name + hole)
        cands.append("'" + name + "'" + hole)
        if name == "." and arity == 2:
            cands.append("[%s|%s]")
    want = "%s/%d" % (name.strip("'"), arity)
    for c in cands:
        try:
            t = Term.from_string(c % (("a",) * arity))
        except Exception:  # noqa
            continue
        if t.signature == want:
            return c
    return None


def universe():
    """-> list of dicts {lib, kind, name, arity, template}; lib None = registered builtin"""
    global _UNIVERSE
    if _UNIVERSE is not None:
        return _UNIVERSE
    from problog.engine import DefaultEngine

    res = []
    for sig in sorted(DefaultEngine().get_builtins()):
        name, ar = sig.rsplit("/", 1)
        res.append(dict(lib=None, kind=None, name=name, arity=int(ar)))
    for lib, kind in libraries():
        for fn, ar in lib_exports(lib, kind):
            res.append(dict(lib=lib, kind=kind, name=fn, arity=ar))
    for u in res:
        u["template"] = call_template(u["name"], u["arity"])
    # warm-up in the parent: the lazy imports of the default pipeline happen before the pool forks
    with quiet():
        warm_up()
    _UNIVERSE = res
    return res


def warm_up():
    infer("0.5::a. 0.5::b. c :- a, b. c :- \\+a. query(c).", timeout=60)
    infer("0.3::a. p :- a. p :- \\+p. query(p).", timeout=60)
    infer("a 1 . .", timeout=60)
    infer(":- use_module(library(lists)). q :- member(X,[a]). query(q).", timeout=60)
    BuiltinHarness(PRELUDE).query("call(p(X))", timeout=60)


# ---------------------------------------------------------------------------------------------
# stratum (a): enumeration and execution of calls


def arg_tuples(arity, tier, lib=None):
    """All shape-index tuples of the tier's bound for this arity (deterministic order)."""
    if lib == "nlp4plp" and tier == "quick" and arity > 2:
        return iter(())      # the 290-predicate application library: arity <= 2 in quick, all in thorough
    if arity <= 2 or (arity == 3 and tier == "thorough"):
        return itertools.product(range(NSHAPES), repeat=arity)
    if arity == 3:
        return itertools.product(REDUCED, repeat=3)
    return one_deviation(arity)


def one_deviation(arity):
    yield (ATOM,) * arity
    for pos in range(arity):
        for s in range(NSHAPES):
            if s != ATOM:
                yield (ATOM,) * pos + (s,) + (ATOM,) * (arity - pos - 1)


def arg_texts(shapes):
    res = []
    for i, s in enumerate(shapes):
        t = SHAPES[s][1]
        res.append(t % i if "%d" in t else t)
    return tuple(res)


def call_text(template, shapes):
    return template % arg_texts(shapes) if shapes else template


def lib_directive(lib):
    return ":- use_module(library(%s)).\n" % lib if lib else ""


def goal_program(lib):
    return lib_directive(lib) + PRELUDE


def clause_program(lib, call):
    return "%s%s\nq :- %s.\nquery(q)." % (lib_directive(lib), PRELUDE, call)


class Harness(BuiltinHarness):
    """BuiltinHarness whose refresh after an exception keeps the prepared database (only a new engine
    is made) unless the database or the engine state was touched."""

    def __init__(self, program):
        self.db = None
        BuiltinHarness.__init__(self, program)

    def _fresh(self, full=False):
        from problog.engine import DefaultEngine

        if full or self.db is None or self.touched():
            BuiltinHarness._fresh(self)
            self.n0 = len(self.db)
        else:
            self.engine = DefaultEngine()
            self.db.engine = self.engine

    def touched(self):
        try:
            return (len(self.db) != self.n0 or self.engine.unknown != self.engine.UNKNOWN_ERROR
                    or bool(self.db.dont_cache))
        except Exception:  # noqa
            return True


GOAL_TIMEOUT = 0.5
PROGRAM_TIMEOUT = 2


def outcome_class(out):
    if out[0] == "ok":
        return "ok"
    if out[0] == "error":
        return "error:" + out[1]
    if out[0] == "crash":
        return "crash:%s@%s" % (out[1], out[2])
    return out[0]  # timeout / recursion


TRIVIAL = ("error:UnknownClause", "error:CallModeError", "error:ParseError")


def run_program(src):
    """default inference on program text -> ("ok",) | ("error", cls) | ("crash", cls, site) | ("timeout",) ..."""
    out = infer(src, timeout=PROGRAM_TIMEOUT)
    return out[:1] if out[0] == "ok" else out


def run_text(src):
    """run_program with a short cut: the default pipeline parses the whole text before anything else, so
    a text on which the parser itself raises is classified from that exception (same class, same
    innermost frame) without building the rest of the pipeline."""
    from problog.program import PrologString

    try:
        with watchdog(PROGRAM_TIMEOUT):
            list(PrologString(src))
    except WatchdogTimeout:
        return ("timeout",)
    except RecursionError:
        return ("recursion",)
    except Exception as exc:  # noqa
        return classify_exception(exc)
    return run_program(src)


def query_program(lib, call):
    return "%s%s\nquery(%s)." % (lib_directive(lib), PRELUDE, call)


def report_crash(acc, out, program, found_in):
    """every reported example is a program text on which the default inference crashes"""
    exc, site = out[1], out[2]
    program = canonical_example(exc, site) or program
    flat = program.replace("\n", " ")
    acc.violation(
        "crash:%s@%s" % (exc, site),
        {"site": site, "exc": exc},
        expected="results or a ProbLogError subclass",
        observed={"program": program, "exception": exc, "site": site, "found_in": found_in},
        what="%s escapes from %s, e.g. %s" % (exc, site, flat),
    )


def judge(acc, out, stratum):
    """common bookkeeping of one judged execution of the default inference; True when it crashed"""
    cls = outcome_class(out)
    acc.evaluations += 1
    acc.transitions += 1
    acc.outcomes[cls] += 1
    acc.counters[stratum + "_executions"] += 1
    if out[0] in ("timeout", "recursion"):
        acc.counters["unjudged_" + out[0]] += 1
        return False
    acc.traces += 1
    return out[0] == "crash"


def clause_mode_selected(u, tier):
    """is the clause-body execution done for this signature in this tier?"""
    if u["lib"] is None:
        return True
    if u["lib"] == "nlp4plp":              # 0.15 s to load per program
        return tier == "thorough" and u["arity"] <= 1
    return tier == "thorough" or u["arity"] <= 2


def run_calls(u, tier, acc):
    lib, name, arity, template = u["lib"], u["name"], u["arity"], u["template"]
    sig = "%s%s/%d" % (lib + ":" if lib else "", name, arity)
    if template is None:
        acc.counters["signatures_without_call_syntax"] += 1
        return
    mutating = name.strip("'") in MUTATING
    clause_mode = clause_mode_selected(u, tier)
    harness = Harness(goal_program(lib))
    done_sites = set()       # call sites already reported (with a shrunk example) by this shard
    attempts = {}            # goal-mode crash site -> confirmation attempts so far
    first = True

    def program_crashes_at(src, target):
        o = run_program(src)
        return o[0] == "crash" and (o[1], o[2]) == target

    def shrunk(shapes, make, target):
        def cands(sh):
            for i in range(len(sh)):
                for s in SIMPLER:
                    if s == sh[i]:
                        break
                    yield sh[:i] + [s] + sh[i + 1:]

        return shrink(list(shapes), cands, lambda sh: program_crashes_at(make(call_text(template, sh)), target),
                      limit=40)

    for shapes in arg_tuples(arity, tier, lib):
        if acc.expired():
            acc.cap("wall budget reached inside shard (stratum a, %s)" % sig)
            break
        text = call_text(template, shapes)
        # ---- goal mode: engine.query on the prepared database
        out = harness.query(text, timeout=GOAL_TIMEOUT)
        out = out[:1] if out[0] == "ok" else out
        if mutating or out[0] == "timeout":
            harness._fresh(full=True)
        elif harness.touched():
            acc.counters["goal_db_touched_refresh"] += 1
            harness._fresh(full=True)
        cls = outcome_class(out)
        acc.states += 1
        acc.evaluations += 1
        acc.transitions += 1
        acc.counters["a_goal_executions"] += 1
        acc.outcomes[("goal-" + cls) if out[0] == "crash" else cls] += 1
        if cls not in TRIVIAL:
            acc.nontrivial += 1
        if cls == "error:ParseError":
            acc.counters["a_call_text_unparsable"] += 1
        if first:
            acc.sample({"stratum": "a", "sig": sig, "first_call": text, "goal_outcome": cls,
                        "clause_mode": clause_mode})
            first = False
        if out[0] in ("timeout", "recursion"):
            acc.counters["unjudged_" + out[0]] += 1
        elif out[0] == "crash":
            # A goal-mode crash is judged only through a *program text* that crashes at the same site
            # under the default inference: `query(<call>).`, else `q :- <call>. query(q).`
            target = (out[1], out[2])
            if target in done_sites:
                acc.traces += 1
                report_crash(acc, out, query_program(lib, text), "goal")     # same key: only counted
            elif attempts.get(target, 0) < 4:
                attempts[target] = attempts.get(target, 0) + 1
                for make, tag in ((lambda c: query_program(lib, c), "goal+query-program"),
                                  (lambda c: clause_program(lib, c), "goal+clause-program")):
                    acc.evaluations += 1
                    if program_crashes_at(make(text), target):
                        acc.traces += 1
                        done_sites.add(target)
                        small = shrunk(shapes, make, target)
                        report_crash(acc, out, make(call_text(template, small)), tag)
                        break
                else:
                    acc.counters["goal_crash_not_confirmed_by_a_program"] += 1
                    acc.outcomes["unconfirmed-" + cls] += 1
            else:
                acc.counters["goal_crash_not_confirmed_by_a_program"] += 1
        else:
            acc.traces += 1
        # ---- clause mode: q :- <call>. query(q). through the default inference
        if clause_mode and out[0] != "timeout":
            src = clause_program(lib, text)
            out2 = run_program(src)
            if outcome_class(out2) not in TRIVIAL:
                acc.counters["a_clause_reached_body"] += 1
            if judge(acc, out2, "a_clause"):
                target = (out2[1], out2[2])
                if target in done_sites:
                    report_crash(acc, out2, src, "clause")
                else:
                    done_sites.add(target)
                    small = shrunk(shapes, lambda c: clause_program(lib, c), target)
                    report_crash(acc, out2, clause_program(lib, call_text(template, small)), "clause")
        elif clause_mode:
            acc.counters["a_clause_skipped_after_goal_timeout"] += 1


# ---------------------------------------------------------------------------------------------
# stratum (a2): every registered arithmetic function x all argument tuples, evaluated by is/2

ARITH_VALUES = ["1", "-2", "2.5", "0", "1000", '"s"', "a"]


def arithmetic_functions():
    """(name, arity, template) for every entry of problog.logic._arithmetic_functions that has a
    call syntax (found with the real parser)"""
    from problog import logic

    res = []
    for name, arity in sorted(logic._arithmetic_functions):
        res.append((name, arity, call_template(name, arity)))
    return res


def run_arithmetic(k, acc):
    name, arity, template = arithmetic_functions()[k]
    if template is None:
        acc.counters["arithmetic_functions_without_call_syntax"] += 1
        return
    seen_sites = set()
    first = True
    for vals in itertools.product(ARITH_VALUES, repeat=arity):
        if acc.expired():
            acc.cap("wall budget reached inside shard (stratum a2)")
            break

        def make(vs):
            return "q :- Y is %s. query(q)." % (template % tuple(vs) if arity else template)

        src = make(vals)
        out = run_program(src)
        cls = outcome_class(out)
        acc.states += 1
        if cls not in ("error:ParseError", "error:UnknownClause"):
            acc.nontrivial += 1
        if first:
            acc.sample({"stratum": "a2", "function": "%s/%d" % (name, arity), "first_program": src, "outcome": cls})
            first = False
        if judge(acc, out, "a2"):
            target = (out[1], out[2])
            if target in seen_sites:
                report_crash(acc, out, src, "a2")
                continue
            seen_sites.add(target)

            def fails(vs):
                o = run_program(make(vs))
                return o[0] == "crash" and (o[1], o[2]) == target

            def cands(vs):
                for i in range(len(vs)):
                    if vs[i] != "1":
                        yield vs[:i] + ["1"] + vs[i + 1:]

            small = shrink(list(vals), cands, fails, limit=20)
            report_crash(acc, out, make(small), "a2")


# ---------------------------------------------------------------------------------------------
# stratum (b): ill-formed programs

STATEMENTS = [
    # well-formed context
    "a.", "0.5::a.", "q(1).", "p(X) :- q(X).", "a :- u.", "a :- \\+ u.", "b :- a.", "0.5::a :- b.", "b :- \\+ a.",
    # non-ground probabilistic facts / clauses
    "0.5::p(X).", "0.5::p(X) :- q(X).", "0.5::p(X) :- u.", "0.5::p(X,Y) :- q(X).", "P::p(P).", "P::a.",
    "P::a :- P is 0.5.", "0.5::p(_).",
    # invalid probabilities
    "2::a.", "-0.1::a.", "a::b.", "X::a.", '"s"::a.', "(1/0)::a.", "foo(1)::a.", "[]::a.", "0.5::0.5::a.",
    "2::a :- b.", "a::b :- a.", "1.0e400::a.",
    # annotated disjunction edge cases
    "0.5::a; 0.6::b.", "0.5::a; 0.5::a.", "0.5::a; b.", "a; b.", "a; b :- u.", "0.5::a; 0.5::b :- u.",
    "0.5::a; 0.5::b :- a.", "0.5::p(X); 0.5::q(X).", "0.5::p(X); 0.5::r(X) :- q(X).", "1.5::a; 0.5::b.",
    "X::a; 0.5::b.", "0.5::a; X.", "0.5::a; 1.", "0.5::a; 0.5::\\+b.", "a::b; c::d.", "0.5::a; 0.5::b; 0.5::c.",
    "0.5::(a;b).", "0.0::a; 0.0::b.",
    # queries of the wrong type
    "query(a).", "query(u).", "query(1).", "query(X).", "query(p(X)).", "query(\\+a).", 'query("s").',
    "query([a]).", "query((a,b)).", "query((a;b)).", "query(a,b).", "query(2.5).", "query(0.5::a).",
    "query(a) :- b.", "query(X) :- q(X).", "0.5::query(a).", "query(q(_)).", "query(true).", "query(X = 1).",
    "query(call(a)).", "query(a:-b).",
    # evidence of the wrong type
    "evidence(a).", "evidence(X).", "evidence(a,maybe).", "evidence(a,true).", "evidence(a,false).",
    "evidence(\\+a).", "evidence(1).", "evidence(u).", "evidence(a,X).", "evidence(a,1).", "evidence(p(X)).",
    "evidence(a) :- b.", "evidence((a,b)).", "evidence(\\+X).", "evidence(a,b,c).", "evidence(\\+u).",
    "evidence(q(1),false).", "evidence(true).", "evidence(fail).", "query(\\+X).", "evidence(\\+X,true).",
    "evidence(not X).",
    # directives
    ":- foo.", ":- a.", ":- X.", ":- 1.", ":- fail.", ":- query(a).", ":- a, foo.", ":- \\+ foo.",
    ":- use_module(library(nosuchlib_c27)).", ":- consult(nosuchfile_c27).", ":- [nosuchfile_c27].",
    ":- initialization(a).", ":- X is foo + 1.", ":- 0.5::a.", ":- set_state(a).",
    # heads that are builtins / numbers / variables / control constructs
    "true :- a.", "true.", "fail.", "X :- a.", "X.", "1 :- a.", "1.", "2.5.", '"s".', "[a].", "[].", "(a,b).",
    "a,b :- c.", "(a:-b) :- c.", "\\+a.", "\\+a :- b.", "call(a) :- b.", "call(a).", "X is 1 :- a.",
    "atom(a).", "a = b.", "X = Y.", "findall(X,Y,Z).", "0.5::true.", "0.5::(a,b).", "0.5::X.", "0.5::1.",
    "0.5::atom(a).", "0.5::\\+a.", "write(a) :- b.", "a :- b :- c.", "(a;b) :- c.", "f(X) :- X.",
    # ill-typed bodies
    "a :- 1.", "a :- X.", 'a :- "s".', "a :- [b].", "a :- (b :- c).", "a :- 0.5::b.", "a :- query(b).",
    "p(X) :- X.", "a :- call(X).", "a :- \\+ X.", "a :- X = 1, X.", "a :- a.", "a :- \\+ a.", "a :- X is Y.",
    "a :- 1 < b.", "a :- u(X), X.", "a :- call(1).", "a :- (b, 1).", "a :- (1 ; b).", "a :- \\+ 1.",
    "a :- \\+ \\+ u.", "a :- findall(X, u, L).", "a :- findall(X, Y, L).", "a :- p(X), \\+ X.",
    "a :- not(u).", "a :- not u.", "a :- (b -> c ; d).", "a :- !.", "a :- b, !.",
]
# statements used for the programs of 3 statements in the quick tier
CORE_STATEMENTS = [
    "0.5::a.", "a :- u.", "b :- a.", "0.5::p(X).", "0.5::p(X) :- q(X).", "q(1).", "P::a.", "2::a.", "a::b.",
    "X::a.", "0.5::a; 0.6::b.", "0.5::a; 0.5::b :- a.", "0.5::p(X); 0.5::r(X) :- q(X).", "query(a).",
    "query(X).", "query(1).", "query(p(X)).", "query(\\+a).", "evidence(a).", "evidence(X).",
    "evidence(a,maybe).", "evidence(a,false).", "evidence(\\+a).", "evidence(p(X)).", ":- foo.", "X :- a.",
    "1 :- a.", "true :- a.", "a :- X.", "a :- \\+ a.", "a :- a.", "\\+a :- b.",
]


# statements added to the core for the programs of 3 statements in the thorough tier
EXTRA_STATEMENTS = [
    "a.", "p(X) :- q(X).", "a :- \\+ u.", "0.5::p(X) :- u.", "P::p(P).", "-0.1::a.", '"s"::a.', "(1/0)::a.",
    "0.5::a; 0.5::a.", "0.5::a; b.", "a; b.", "0.5::p(X); 0.5::q(X).", "1.5::a; 0.5::b.", "X::a; 0.5::b.",
    "0.5::a; 0.5::\\+b.", "query(u).", "query((a,b)).", "query(q(_)).", "query(a) :- b.", "evidence(a,true).",
    "evidence(u).", "evidence(a,X).", "evidence(\\+X).", "evidence(q(1),false).", ":- a.", ":- X.",
    ":- set_state(a).", "X.", "1.", "\\+a.", "call(a) :- b.", "0.5::true.", "a :- 1.", "a :- call(X).",
    "a :- \\+ X.", "a :- findall(X, u, L).", "p(X) :- X.", "a :- (b -> c ; d).", "0.5::a :- b.", "b :- \\+ a.",
]


def b_shards(tier):
    n = len(STATEMENTS)
    res = [["b", 1, None, None]]
    for i in range(n):
        res.append(["b", 2, i, None])
    n3 = len(CORE_STATEMENTS) + (len(EXTRA_STATEMENTS) if tier == "thorough" else 0)
    for i in range(n3):
        res.append(["bcore", 3, i, tier])
    return res


def b_programs(shard):
    kind, size, i, j0 = shard
    if kind == "bcore":
        s = CORE_STATEMENTS + (EXTRA_STATEMENTS if j0 == "thorough" else [])
        for j in range(len(s)):
            for k in range(len(s)):
                yield [s[i], s[j], s[k]]
    elif size == 1:
        for st in STATEMENTS:
            yield [st]
    elif size == 2:
        for st in STATEMENTS:
            yield [STATEMENTS[i], st]


# (b2) propositional programs with loops and negation: probabilistic fact a, derived atoms p, r
B2_BODY_LITS = ["a", "p", "r", "\\+a", "\\+p", "\\+r"]


def b2_rules():
    bodies = [[x] for x in B2_BODY_LITS] + [[x, y] for x in B2_BODY_LITS for y in B2_BODY_LITS if x != y]
    return ["%s :- %s." % (h, ", ".join(b)) for h in ("p", "r") for b in bodies]


def b2_shards(tier):
    rules = b2_rules()
    res = [["b2", 1, None]]
    for i in range(len(rules)):
        res.append(["b2", 2, i])
    for i in range(len(rules)):
        res.append(["b2", 3, i])
    return res


def b2_programs(shard, tier):
    _, size, i = shard
    rules = b2_rules()
    single = [r for r in rules if "," not in r]
    head = "0.3::a."
    tail = "query(p)."
    if size == 1:
        for r in rules:
            yield [head, r, tail]
    elif size == 2:
        for r in rules:
            yield [head, rules[i], r, tail]
    else:
        # three rules: thorough = all ordered triples with the first rule fixed by the shard;
        # quick = second and third rule restricted so that at most one rule has a two-literal body
        if tier == "thorough":
            for r2 in rules:
                for r3 in rules:
                    yield [head, rules[i], r2, r3, tail]
        else:
            two = "," in rules[i]
            for r2 in (single if two else rules):
                for r3 in (single if (two or "," in r2) else rules):
                    yield [head, rules[i], r2, r3, tail]


def run_programs(programs, stratum, acc, sample_tag):
    stratum_tag = stratum
    seen_sites = set()
    first = True
    for stmts in programs:
        if acc.expired():
            acc.cap("wall budget reached inside shard (stratum %s)" % stratum)
            break
        src = " ".join(stmts)
        out = run_program(src)
        cls = outcome_class(out)
        acc.states += 1
        if cls != "error:ParseError":
            acc.nontrivial += 1
        if first:
            acc.sample({"stratum": stratum, "shard": sample_tag, "first_program": src, "outcome": cls})
            first = False
        if judge(acc, out, stratum):
            if (out[1], out[2]) in seen_sites:
                report_crash(acc, out, src, stratum_tag)      # same key: only counted
                continue
            seen_sites.add((out[1], out[2]))
            target = (out[1], out[2])

            def fails(ss):
                o = run_program(" ".join(ss))
                return o[0] == "crash" and (o[1], o[2]) == target

            def cands(ss):
                for k in range(len(ss)):
                    if len(ss) > 1:
                        yield ss[:k] + ss[k + 1:]

            small = shrink(list(stmts), cands, fails, limit=40)
            report_crash(acc, out, " ".join(small), stratum_tag)


# ---------------------------------------------------------------------------------------------
# stratum (c): token strings

TOKENS = ["a", "X", "_", "1", "0.5", "'q r'", '"s"', "(", ")", "[", "]", "|", ",", ".", ":-", "::", ";", "\\+",
          "-", "=", "is", "not", "query(", "evidence("]
C_LEN = {"quick": 4, "thorough": 5}


def c_shards(tier):
    n = len(TOKENS)
    res = [["c", []]]
    for i in range(n):
        res.append(["c", [i]])          # the strings of length 2 starting with token i
    for i in range(n):
        for j in range(n):
            res.append(["c", [i, j]])   # the strings of length >= 3 starting with tokens i j
    return res


def c_strings(shard, tier):
    prefix = shard[1]
    n = len(TOKENS)
    if not prefix:
        for i in range(n):
            yield [i]
    elif len(prefix) == 1:
        for j in range(n):
            yield prefix + [j]
    else:
        for ln in range(1, C_LEN[tier] - 1):
            for rest in itertools.product(range(n), repeat=ln):
                yield prefix + list(rest)


def run_tokens(shard, tier, acc):
    stratum_tag = "c"
    seen_sites = set()
    first = True
    for idx in c_strings(shard, tier):
        if acc.expired():
            acc.cap("wall budget reached inside shard (stratum c)")
            break
        src = " ".join(TOKENS[i] for i in idx)
        out = run_text(src)
        cls = outcome_class(out)
        acc.states += 1
        if cls != "error:ParseError":
            acc.nontrivial += 1          # the token string parses: grounding / evaluation was reached
            acc.counters["c_strings_parsed"] += 1
        if first:
            acc.sample({"stratum": "c", "first_string": src, "outcome": cls})
            first = False
        if judge(acc, out, "c"):
            if (out[1], out[2]) in seen_sites:
                report_crash(acc, out, src, stratum_tag)      # same key: only counted
                continue
            seen_sites.add((out[1], out[2]))
            target = (out[1], out[2])

            def fails(ix):
                o = run_text(" ".join(TOKENS[i] for i in ix))
                return o[0] == "crash" and (o[1], o[2]) == target

            def cands(ix):
                for k in range(len(ix)):
                    if len(ix) > 1:
                        yield ix[:k] + ix[k + 1:]

            small = shrink(list(idx), cands, fails, limit=40)
            report_crash(acc, out, " ".join(TOKENS[i] for i in small), stratum_tag)


# ---------------------------------------------------------------------------------------------
# canonical examples of the known call sites: used as the reported example when they (still) crash at
# that site, and tried first by replay (which otherwise falls back to re-running the quick space)

HINTS = {
    "ModuleNotFoundError@engine_builtin.py:_builtin_set_state": "q :- set_state(a). query(q).",
    "ModuleNotFoundError@engine_builtin.py:_builtin_reset_state": "q :- reset_state. query(q).",
    "ModuleNotFoundError@engine_builtin.py:_builtin_check_state": "q :- check_state(a). query(q).",
    "ModuleNotFoundError@engine_builtin.py:_builtin_condition": "q :- condition(a). query(q).",
    "TypeError@engine_builtin.py:_builtin_lt": 'q :- 1 < "s". query(q).',
    "TypeError@engine_builtin.py:_builtin_le": 'q :- 1 =< "s". query(q).',
    "TypeError@engine_builtin.py:_builtin_gt": 'q :- 1 > "s". query(q).',
    "TypeError@engine_builtin.py:_builtin_ge": 'q :- 1 >= "s". query(q).',
    "TypeError@engine_builtin.py:_builtin_try_calln": "q :- try_call(a,a). query(q).",
    "TypeError@engine_builtin.py:_builtin_find_scope": "q :- find_scope(a,X). query(q).",
    "AttributeError@engine_builtin.py:_builtin_numbervars": "q :- numbervars(X,1,a). query(q).",
    "AttributeError@engine_builtin.py:_build_scope": "q :- call_in_scope(X,a). query(q).",
    "ValueError@logic.py:term2list": "q :- call_in_scope([a|T],a). query(q).",
    "AttributeError@clausedb.py:_get_head": "q :- possible(X). query(q).",
    "UnifyError@engine_unify.py:unify_value": "query(numbervars(a,1,1)).",
    "UnifyError@engine_unify.py:unify_value_dc": "query(subsumes_term(a,1)).",
    "UnifyError@engine_builtin.py:_builtin_length": "query(length([a|T],-2)).",
    "TypeError@engine_builtin.py:_builtin_error": "query(error(a)).",
    "AttributeError@engine_builtin.py:_builtin_probability": "query(probabilityX(a)).",
    "TypeError@clausedb.py:get_node": ":- use_module(library(assert)). q :- retract(a). query(q).",
    "AttributeError@program.py:add_statement": ":- use_module(library(assert)). q :- assertz(X). query(q).",
    "AttributeError@record.py:erase": ":- use_module(library(record)). q :- erase(a). query(q).",
    "AttributeError@record.py:instance": ":- use_module(library(record)). q :- instance(a,X). query(q).",
    "ValueError@string.py:str2int": ":- use_module(library(string)). q :- str2int(a,X). query(q).",
    "IndexError@lists.py:enum_groups": ":- use_module(library(lists)). q :- enum_groups([a],X,Y). query(q).",
    "TypeError@logic.py:<lambda>": 'q :- Y is "s" - 1. query(q).',
    "TypeError@logic.py:compute_function": 'q :- Y is abs("s"). query(q).',
    "OverflowError@logic.py:<lambda>": "q :- Y is 2.5 ** 1000. query(q).",
    "OverflowError@logic.py:compute_function": "q :- Y is cosh(1000). query(q).",
    "AttributeError@engine.py:ground": "evidence(\\+X).",
    "ValueError@logic.py:__float__": '"s"::a. query(a).',
    "AssertionError@eval_nodes.py:__setitem__": "0.3::a. p :- a, \\+a. p :- p. p :- a. query(p).",
    "AttributeError@clausedb.py:add_all": ":- ( ) .",
    "AttributeError@program.py:build_unop": "- ( ) .",
    "Exception@program.py:_update_functors": "( ) .",
    "IndexError@clausedb.py:add_all": "a :: :- .",
    "IndexError@logic.py:to_list": "a ; ; .",
    "IndexError@parser.py:_build_clause": "; :- a .",
    "AttributeError@parser.py:_build_clause": "( ) :- a .",
    "AttributeError@program.py:build_probabilistic": "a :: ( ) .",
    "ValueError@clausedb.py:_compile": "a :- ( ) .",
    "TypeError@program.py:neg_head_literal_to_pos_literal": "a :: \\+ 1 .",
}
_CANON = {}


def canonical_example(exc, site):
    """the fixed example of a known call site, if it (still) crashes there: makes the example shown for
    a known site independent of the order in which shards finish"""
    key = "%s@%s" % (exc, site)
    if key not in _CANON:
        src = HINTS.get(key)
        ok = False
        if src is not None:
            o = run_program(src)
            ok = o[0] == "crash" and (o[1], o[2]) == (exc, site)
        _CANON[key] = src if ok else None
    return _CANON[key]


class C27(Prop):
    pid = "C27"
    title = "User errors surface as ProbLog errors, never as crashes"
    technique = ("bounded-exhaustive enumeration (E3) on the real implementation: every registered builtin and "
                 "bundled-library predicate x all argument-shape tuples, as a goal and as a clause body; all "
                 "programs of <=2-3 statements over a grammar of ill-formed statements; all short token strings; "
                 "oracle = the run returns or raises a ProbLogError subclass")
    rule = ("(a) signatures from DefaultEngine().get_builtins() and the exports of problog/library/*; 12 argument "
            "shapes; arity<=2 all tuples, arity 3 all tuples (thorough) or all tuples over 7 shapes (quick), "
            "arity>=4 the all-atom call and every one-argument deviation from it (the 290 predicates of the "
            "nlp4plp application library: arity<=2 only in quick); goal mode (BuiltinHarness.query on a DB with "
            "0.4::p(a). p(b).) for all, clause mode (`q :- call. query(q).` through default inference) for all "
            "builtins and library predicates of arity<=2 in quick, all in thorough (nlp4plp: arity<=1, thorough "
            "only), skipped for calls whose goal mode timed out; a call is non-trivial when it did not end in "
            "UnknownClause/CallModeError/ParseError, i.e. it got past the mode check into the builtin's body; "
            "(a2) every entry of problog.logic._arithmetic_functions x all argument tuples over "
            "{1,-2,2.5,0,1000,\"s\",a} in `q :- Y is f(..). query(q).`; "
            "(b) all 1-2 statement programs over the ill-formed-statement grammar, 3 statements over the core "
            "grammar (quick) or the core + 40 further statements (thorough); (b2) 0.3::a + 1-3 rules for p,r with 1-2 body "
            "literals over {a,p,r} and their negations + query(p); (c) all strings of <=4 (quick) / <=5 "
            "(thorough) tokens over 24 tokens; a program/string is non-trivial when it parses. "
            "states = distinct calls / programs / strings; violations keyed by (exception class, innermost "
            "problog frame)")
    assumptions = [
        "timeouts (0.5 s per goal, 2 s per program) and RecursionError are counted, not judged",
        "a crash of a goal-mode call is judged only through a program text (`query(<call>).` or "
        "`q :- <call>. query(q).`) that crashes at the same site under the default inference",
        "file/IO/consult builtins run only with the shape alphabet inside an empty temporary working directory; "
        "stdout/stderr are sinks and stdin is empty while a shard runs",
        "the call site is the innermost traceback frame inside the problog package",
        "exports of a library = its module/2 export list, else the predicates it defines after loading; "
        "lists.py / string.py are reached through lists.pl / string.pl",
    ]
    budget = {"quick": 240, "thorough": 1800}

    # -- shards
    def shards(self, tier):
        res = [["a", k] for k in range(len(universe()))]
        res += [["a2", k] for k in range(len(arithmetic_functions()))]
        res += b_shards(tier)
        res += b2_shards(tier)
        res += c_shards(tier)
        # heavy shards first: better packing of the pool
        res.sort(key=lambda s: -self._weight(s, tier))
        return res

    @staticmethod
    def _weight(shard, tier):
        if shard[0] == "a":
            u = universe()[shard[1]]
            ar = u["arity"]
            n = NSHAPES ** ar if ar <= 2 or (ar == 3 and tier == "thorough") else (
                len(REDUCED) ** 3 if ar == 3 else 1 + 11 * ar)
            if u["lib"] == "nlp4plp" and tier == "quick" and ar > 2:
                n = 0
            per = 0.3
            if clause_mode_selected(u, tier):
                per += 1.5 if u["lib"] is None else (150.0 if u["lib"] == "nlp4plp" else 20.0)
            if u["lib"] in ("lists", "nlp4plp", "apply", "aggregate", "scope"):
                per += 30.0          # calls that run into the per-call watchdog
            return n * per
        if shard[0] == "a2":
            return 50.0
        if shard[0] in ("b", "bcore"):
            n3 = len(CORE_STATEMENTS) + (len(EXTRA_STATEMENTS) if tier == "thorough" else 0)
            return 2.0 * (n3 * n3 if shard[0] == "bcore" else len(STATEMENTS))
        if shard[0] == "b2":
            return 3000.0 if shard[1] == 3 else 100.0
        return 60.0 if len(shard[1]) == 2 else 1.0

    def precheck(self, tier):
        uni = universe()
        nb = sum(1 for u in uni if u["lib"] is None)
        libs = {}
        for u in uni:
            if u["lib"]:
                libs[u["lib"]] = libs.get(u["lib"], 0) + 1
        return dict(
            builtin_signatures=nb,
            library_predicates=libs,
            signatures_without_call_syntax=[u["name"] + "/" + str(u["arity"]) for u in uni if not u["template"]],
            skipped_builtins=[],
            restricted_builtins=RESTRICTED_WHY,
            arithmetic_functions=len(arithmetic_functions()),
            statements_b=len(STATEMENTS),
            rules_b2=len(b2_rules()),
            tokens_c=len(TOKENS),
        )

    # -- execution
    _frozen = False

    def run_shard(self, shard, tier, acc):
        if not C27._frozen:
            # forked worker: keep the inherited heap out of the cyclic GC (a full collection would
            # copy every inherited page and stall the first cases long enough to trip the watchdog)
            import gc

            gc.freeze()
            C27._frozen = True
            with quiet():       # first touch of the inherited pages (copy-on-write) outside any watchdog
                warm_up()
        with quiet() as q:
            if shard[0] == "a":
                run_calls(universe()[shard[1]], tier, acc)
            elif shard[0] == "a2":
                run_arithmetic(shard[1], acc)
            elif shard[0] in ("b", "bcore"):
                run_programs(b_programs(shard), "b", acc, shard)
            elif shard[0] == "b2":
                run_programs(b2_programs(shard, tier), "b2", acc, shard)
            else:
                run_tokens(shard, tier, acc)
            left = q.leftovers()
            if left:
                acc.counters["files_left_in_temp_cwd"] += len(left)

    # -- replay
    def replay(self, case):
        site, exc = case["site"], case["exc"]
        expected = "results or a ProbLogError subclass"
        with quiet():
            programs = [HINTS[k] for k in ("%s@%s" % (exc, site),) if k in HINTS]
            if isinstance(case.get("example"), str):
                programs.insert(0, case["example"])
            for src in programs:
                out = run_program(src)
                if out[0] == "crash" and out[1] == exc and out[2] == site:
                    return dict(ok=False, expected=expected,
                                observed="%s at %s for the program: %s" % (exc, site, src.replace("\n", " ")))
        # fall back: re-run the quick space serially until this site shows up (bounded)
        key = short_hash(["crash:%s@%s" % (exc, site), {"site": site, "exc": exc}])
        deadline = time.time() + 900
        shards = self.shards("quick")
        shards.sort(key=lambda s: self._weight(s, "quick"))     # cheap shards first
        for sh in shards:
            acc = Acc(self.pid, deadline)
            self.run_shard(sh, "quick", acc)
            if key in acc.violations:
                return dict(ok=False, expected=expected, observed=acc.violations[key]["what"])
            if acc.expired():
                break
        return dict(ok=True, expected=expected,
                    observed="no %s at %s in the quick space (hints + shard-by-shard rerun)" % (exc, site))


PROP = C27()
