"""C13 -- deterministic programs agree with standard Prolog, findall/3 in SLD order (E3).

Every program x query of the finite grammar FD (below) is run on the real implementation
(``DefaultEngine.prepare`` + ``engine.query`` on a fresh database per case) and compared with the
reference R3 (``vf/ref/miniprolog.py``): SLD answer *sequence* for ``findall/3`` and answer *set* for a
plain query on non-recursive programs, least Herbrand model for recursive definite programs.
"""
import collections
import glob
import itertools
import os

from ..core import Prop, watchdog, WatchdogTimeout, REPO, canon as json_canon
from ..ref import miniprolog as mp

# ---------------------------------------------------------------------------------------------
# grammar FD: families = fixed base facts + ordered clause menu + query menu.
# A program is base + a *sequence* (order matters, repetition allowed = duplicate clauses) of menu
# clauses; only closed programs (every called predicate has a clause) are run.

FAMILIES = collections.OrderedDict()

FAMILIES["idx"] = dict(
    doc="p/2 with mixed ground / variable clause heads in every clause order (first-argument and "
        "second-argument indexing), small compound f(a), integer 1, rules with =, \\=, \\+, findall",
    base=["s(a).", "s(b)."],
    menu=[
        "p(a,b).", "p(b,a).", "p(X,a).", "p(a,Y).", "p(X,Y).", "p(X,b) :- X = a.", "p(a,Y) :- s(Y).",
        # 7
        "p(a,a).", "p(X,b).", "p(X,X).", "p(X,Y) :- s(Y).", "p(f(a),b).", "p(a,1).",
        # 13
        "p(b,b).", "p(b,Y).", "p(X,a) :- s(X).", "p(X,Y) :- X = a, s(Y).", "p(X,Y) :- s(X), X \\= Y.",
        "p(f(a),Y).", "p(X,f(a)).", "p(1,a).", "p(X,Y) :- (X = a ; Y = b).", "p(X,b) :- \\+ s(X).",
        "p(X,Y) :- findall(Z, s(Z), [X,Y]).",
        # 24
    ],
    queries=[
        "findall(Y, p(a,Y), L)", "findall(X, p(X,a), L)", "findall(t(X,Y), p(X,Y), L)", "p(a,Y)",
        # 4
        "p(X,Y)", "p(X,X)", "findall(Y, (s(X), p(X,Y)), L)",
        # the same predicate called with a repeated variable and then with distinct variables (the table
        # key of a non-ground call must record variable sharing between argument positions)
        "findall(t(X,Y), (p(Z,Z), p(X,Y)), L)",
        # 8
        "findall(X, p(X,X), L)",
        "findall(Y, p(f(a),Y), L)", "p(X,a)", "findall(Y, (p(a,Y), \\+ p(b,Y)), L)",
        "findall(Y, (p(a,Y) ; p(b,Y)), L)",
        # 12
    ],
    sizes=dict(quick=dict(menu=11, maxlen=3, queries=8, menu4=6, queries4=4, len4=4),
               thorough=dict(menu=24, maxlen=3, queries=12, menu4=11, queries4=8, len4=4)),
)

FAMILIES["ctl"] = dict(
    doc="control constructs over q/1, r/1: conjunction, disjunction, \\+, =, \\=, nested findall, "
        "auxiliary predicate u/1, non-ground fact",
    base=["q(a).", "q(b).", "r(b).", "r(c)."],
    menu=[
        "t(X) :- q(X).", "t(X) :- r(X).", "t(X) :- q(X), \\+ r(X).", "t(X) :- (q(X) ; r(X)).",
        "u(X) :- r(X), X \\= b.", "t(X) :- q(X), \\+ u(X).", "t(a).",
        # 7
        "t(X) :- q(X), r(X).", "u(b).", "t(X) :- findall(Y, u(Y), L), L = [X|_].", "t(X) :- (u(X) ; q(X)).",
        "u(X) :- q(X).",
        # 12
        "t(X) :- X = c.", "t(X) :- r(X), X \\= b.", "u(L) :- findall(Y, q(Y), L).",
        "t(X) :- q(X), findall(Y, r(Y), [X|_]).", "u(X) :- (X = a ; X = b).", "t(X) :- (q(X), r(X) ; u(X)).",
        "u(X) :- t(X).", "t(X).",
        # 20
        "t(X) :- X \\= a, q(X).",
        # 21
    ],
    queries=[
        "findall(X, t(X), L)", "t(X)", "findall(X, (q(X), \\+ t(X)), L)", "findall(X, (t(X) ; u(X)), L)",
        # 4
        "findall(t(X,M), (q(X), findall(Y, t(Y), M)), L)", "t(a)", "findall(X, (t(X), u(X)), L)",
        # 7
        "findall(X, (r(X), X \\= c, \\+ t(X)), L)", "u(X)", "findall(X, u(X), L)",
        # 10
    ],
    # (quick: clause 20 -- \\= on a non-ground argument -- takes the place of clause 7)
    sizes=dict(quick=dict(menu=[0, 1, 2, 3, 4, 5, 6, 20, 8, 9, 10], maxlen=3, queries=7,
                          menu4=[0, 1, 2, 3, 4, 20], queries4=4, len4=4),
               thorough=dict(menu=21, maxlen=3, queries=10, menu4=[0, 1, 2, 3, 4, 5, 6, 7, 8, 9, 10, 20],
                             queries4=7, len4=4)),
)

FAMILIES["rec"] = dict(
    doc="edge facts and (left / right / doubly recursive, symmetric) closure rules: tabled evaluation "
        "against the least Herbrand model; the non-recursive programs of the family are judged by sequence",
    base=[],
    menu=[
        "e(a,b).", "e(b,a).", "t(X,Y) :- e(X,Y).", "t(X,Y) :- e(X,Z), t(Z,Y).", "t(X,Y) :- t(X,Z), e(Z,Y).",
        "e(b,c).", "t(X,Y) :- t(Y,X).",
        # 7
        "t(X,Y) :- t(X,Z), t(Z,Y).", "e(a,a).", "e(X,Y) :- e(Y,X).", "t(a,b).", "e(c,a).",
        # 12
        "t(X,X).", "t(X,Y) :- (e(X,Y) ; e(Y,X)).", "e(c,c).", "t(X,Y) :- e(X,Z), Z = Y.",
        # 16
    ],
    queries=[
        "t(X,Y)", "t(a,Y)", "findall(Y, t(a,Y), L)", "t(X,a)", "findall(t(X,Y), t(X,Y), L)",
        # 5
        "t(a,a)", "findall(X, (e(X,Y), t(Y,X)), L)",
        # 7
    ],
    sizes=dict(quick=dict(menu=11, maxlen=3, queries=5, menu4=6, queries4=5, len4=4),
               thorough=dict(menu=14, maxlen=4, queries=7, menu4=7, queries4=5, len4=5)),
)

WRAPPER = "c13q"           # findall queries are run through  c13q(L) :- findall(T,G,L).  query(c13q(_)).
REF_STEPS = 20000          # SLD step bound of the reference per query
REF_STEPS_REC = 1500       # ... for recursive non-definite programs (Prolog may loop: then unjudged)
REF_STEPS_CROSS = 300      # ... for recursive definite programs (the least model decides; a finite SLD
                           #     tree within this bound is only used to cross-check the reference)

# ProbLogError classes that the statement does not cover (see report): the reference has already
# excluded the situations they are meant for, a remaining one is counted, never reported.
# CallModeError: an ill-moded builtin call (findall/3 with a non-list third argument) somewhere in the search
# space; Prolog raises a type error too if it gets there, but may never get there because \\+ and the first
# solution commit early while ProbLog's tabled evaluation visits every clause.
ERRORS_OUTSIDE = ("UnknownClause", "IndirectCallCycleError", "NegativeCycle", "NonGroundQuery",
                  "NonGroundProbabilisticClause", "CallModeError")


# ---------------------------------------------------------------------------------------------
# text <-> terms (parsing is cached: menus are small)

_CLAUSE_CACHE = {}


def parse_clause(text):
    """clause text -> (head, body, canonical text, called signatures, head signature)"""
    r = _CLAUSE_CACHE.get(text)
    if r is None:
        cs = mp.read_clauses(text)
        if len(cs) != 1:
            raise mp.Unsupported("one clause expected: %r" % text)
        c = cs[0]
        if type(c) is tuple and c[0] == ":-" and len(c) == 3:
            head, body = c[1], c[2]
        else:
            head, body = c, "true"
        called = set(sig for sig, _, _ in mp.body_literals(body) if sig not in mp.BUILTINS)
        r = (head, body, mp.show_clause(head, body), called, mp.signature(head))
        if len(_CLAUSE_CACHE) > 20000:
            _CLAUSE_CACHE.clear()
        _CLAUSE_CACHE[text] = r
    return r


def canon_clause(text):
    return parse_clause(text)[2]


def is_findall_query(q):
    return type(q) is tuple and q[0] == "findall" and len(q) == 4 and type(q[3]) is mp.Var


_PROGRAM_CACHE = [None, None]


def get_program(clauses):
    key = tuple(clauses)
    if _PROGRAM_CACHE[0] != key:
        terms = []
        for c in clauses:
            head, body = parse_clause(c)[:2]
            terms.append(head if body == "true" else (":-", head, body))
        _PROGRAM_CACHE[0] = key
        _PROGRAM_CACHE[1] = (mp.Program(terms), {})
    return _PROGRAM_CACHE[1]


# ---------------------------------------------------------------------------------------------
# reference side

def reference(case):
    """-> dict(kind='seq'|'set'|'gset'|'skip', ...).  seq: expected list of canonical solutions;
    set: expected set; gset: expected set of ground instances over ``universe``; skip: reason."""
    try:
        program, memo = get_program(case["program"])
        q = mp.read_term(case["query"])
    except mp.Unsupported as err:
        return dict(kind="skip", reason="outside-fragment", steps=0, detail=str(err))
    findall = is_findall_query(q)
    if findall:
        goal, template = q[2], q[1]
    else:
        if mp.signature(q) is None or mp.signature(q) in mp.BUILTINS:
            return dict(kind="skip", reason="outside-fragment", steps=0)
        goal, template = q, ("$ans",) + (q[1:] if type(q) is tuple else ())
    info = mp.analyse(program, goal)
    if info["undefined"]:
        return dict(kind="skip", reason="open-program", steps=0)
    if info["variable_goal"]:
        return dict(kind="skip", reason="variable-goal", steps=0)
    steps = 0
    try:
        if info["recursive"]:
            if info["through_inner"]:
                return dict(kind="skip", reason="recursion-through-findall-or-negation", steps=0)
            # Prolog's answer, if its SLD tree is finite within the bound
            mach = mp.Machine(program, max_steps=REF_STEPS_CROSS if info["definite"] else REF_STEPS_REC)
            sld = None
            try:
                sld = mach.solutions(goal, template)
            except mp.StepBound:
                sld = None
            steps = mach.steps
            uni = None
            if info["definite"]:
                try:
                    uni = mp.universe_of(program, [goal, template])
                except mp.Unsupported:
                    uni = None      # function symbols in patterns: only Prolog's own answer (if finite) is used
            if uni is not None:
                mkey = tuple(map(repr, uni))
                model = memo.get(mkey)
                if model is None:
                    model = memo[mkey] = mp.least_model(program, uni)
                exp = mp.model_answers(model, program, goal, template, uni)
                if sld is not None:
                    got = set()
                    for s in sld:
                        got |= mp.ground_instances(s, uni)
                    if got != exp:
                        raise RuntimeError("reference R3 is inconsistent: SLD answers %r, least model %r on %r"
                                           % (sorted(map(repr, got)), sorted(map(repr, exp)), case))
                return dict(kind="gset", expected=exp, universe=uni, steps=steps + len(model), n=len(exp),
                            findall=findall)
            if sld is None:
                return dict(kind="skip", reason="recursive-nondefinite-sld-bound", steps=steps)
            return dict(kind="set", expected=set(mp.canon(s) for s in sld), steps=steps, n=len(sld),
                        findall=findall)
        mach = mp.Machine(program, max_steps=REF_STEPS)
        if findall:
            sols = mach.solutions(q, q[3])
            steps = mach.steps
            if len(sols) != 1:
                raise RuntimeError("reference: findall/3 must succeed exactly once")
            items = mp.list_items(sols[0])
            return dict(kind="seq", expected=[mp.canon(x) for x in items], steps=steps, n=len(items),
                        findall=True)
        sols = mach.solutions(goal, template)
        return dict(kind="set", expected=set(mp.canon(s) for s in sols), steps=mach.steps, n=len(sols),
                    findall=False)
    except mp.Flounder:
        return dict(kind="skip", reason="floundering-negation", steps=steps)
    except mp.StepBound:
        return dict(kind="skip", reason="step-bound", steps=steps)
    except mp.InstantiationError:
        return dict(kind="skip", reason="instantiation-error", steps=steps)
    except mp.UnknownProcedure:
        return dict(kind="skip", reason="open-program", steps=steps)
    except mp.Unsupported as err:
        return dict(kind="skip", reason="outside-fragment", steps=steps, detail=str(err))


# ---------------------------------------------------------------------------------------------
# implementation side

def source_of(case):
    q = mp.read_term(case["query"])
    names = {}
    if is_findall_query(q):
        qtext = mp.show(q, names, 999)
        tail = "%s(%s) :- %s.\nquery(%s(_))." % (WRAPPER, names[mp.deref(q[3])], qtext, WRAPPER)
    else:
        tail = "query(%s)." % mp.show(q, names, 999)
    return "\n".join(case["program"]) + "\n" + tail + "\n"


def from_problog(t, vm):
    """problog term -> reference term representation (variables keyed by the implementation's ids)."""
    from problog.logic import Var, Constant

    if t is None:
        return mp.Var("_")
    if isinstance(t, bool):
        raise ValueError("bool in answer")
    if isinstance(t, int):
        if t not in vm:
            vm[t] = mp.Var("_%d" % -t)
        return vm[t]
    if isinstance(t, Var):
        if t.name not in vm:
            vm[t.name] = mp.Var(t.name)
        return vm[t.name]
    if isinstance(t, Constant):
        v = t.value
        if isinstance(v, int) and not isinstance(v, bool):
            return v
        raise ValueError("constant %r in answer" % (v,))
    f = str(t.functor)
    if len(f) >= 2 and f[0] == "'" and f[-1] == "'":
        f = f[1:-1].replace("''", "'")
    if t.arity == 0:
        return f
    return (f,) + tuple(from_problog(a, vm) for a in t.args)


class cpu_watchdog(object):
    """Like core.watchdog but on the CPU time consumed by this process (ITIMER_PROF): independent of the
    load of the machine, so that a 3 ms case is never mistaken for a hang on a busy host."""

    def __init__(self, seconds):
        self.seconds = seconds

    def _handler(self, signum, frame):
        raise WatchdogTimeout()

    def __enter__(self):
        import signal

        self.old = signal.signal(signal.SIGPROF, self._handler)
        signal.setitimer(signal.ITIMER_PROF, self.seconds)
        return self

    def __exit__(self, *exc):
        import signal

        signal.setitimer(signal.ITIMER_PROF, 0)
        signal.signal(signal.SIGPROF, self.old)
        return False


CPU_LIMIT = 2.0     # seconds of CPU per case (a typical case takes 2-5 ms)
WALL_LIMIT = 120    # seconds of wall clock per case


def run_impl(case, timeout=WALL_LIMIT, cpu=CPU_LIMIT):
    """-> ("ok", [answer argument tuples in reference representation]) | ("error", cls, msg) |
    ("crash", cls, site) | ("timeout",) | ("recursion",)"""
    from problog.program import PrologString
    from problog.engine import DefaultEngine
    from problog.logic import Term
    from problog.errors import ProbLogError
    from ..plrun import innermost_problog_frame

    src = source_of(case)
    try:
        with watchdog(timeout), cpu_watchdog(cpu):
            eng = DefaultEngine()
            db = eng.prepare(PrologString(src))
            qs = eng.query(db, Term("query", None))
            if len(qs) != 1:
                return ("crash", "HarnessQueryCount", str(len(qs)))
            res = eng.query(db, qs[0][0])
            out = []
            for r in res:
                vm = {}
                out.append(tuple(from_problog(a, vm) for a in r))
            return ("ok", out)
    except WatchdogTimeout:
        return ("timeout",)
    except RecursionError:
        return ("recursion",)
    except ProbLogError as exc:
        return ("error", type(exc).__name__, str(exc)[:120])
    except Exception as exc:  # noqa
        return ("crash", type(exc).__name__, innermost_problog_frame(exc))


# ---------------------------------------------------------------------------------------------
# oracle

def _show_canon(t):
    if type(t) is tuple and t[0] == "$VAR" and len(t) == 2 and type(t[1]) is int:
        return "_G%d" % t[1]
    if type(t) is tuple and t[0] == "$ans":
        return "(" + ", ".join(_show_canon(a) for a in t[1:]) + ")" if len(t) > 1 else "yes"
    if type(t) is tuple and t[0] == ".":
        items = []
        while type(t) is tuple and t[0] == "." and len(t) == 3:
            items.append(_show_canon(t[1]))
            t = t[2]
        return "[" + ",".join(items) + ("" if t == "[]" else "|" + _show_canon(t)) + "]"
    if type(t) is tuple:
        return "%s(%s)" % (t[0], ",".join(_show_canon(a) for a in t[1:]))
    return str(t)


def _show_seq(xs):
    return "[" + ", ".join(_show_canon(x) for x in xs) + "]"


def _show_set(xs):
    return "{" + ", ".join(sorted(_show_canon(x) for x in xs)) + "}"


def _is_list(t):
    while type(t) is tuple and t[0] == "." and len(t) == 3:
        t = t[2]
    return t == "[]"


def _deep(t, as_set=False):
    """Canonical term with every proper list replaced by the sorted tuple of its (deep) items."""
    if type(t) is tuple and t[0] == "." and len(t) == 3 and _is_list(t):
        items = []
        while type(t) is tuple and t[0] == ".":
            items.append(_deep(t[1], as_set))
            t = t[2]
        if as_set:
            items = list(set(items))
        return ("$list",) + tuple(sorted(items, key=repr))
    if type(t) is tuple:
        return (t[0],) + tuple(_deep(a, as_set) for a in t[1:])
    return t


def _anon(t):
    if type(t) is tuple and t[0] == "$VAR":
        return "_"
    if type(t) is tuple:
        return (t[0],) + tuple(_anon(a) for a in t[1:])
    return t


def _has_inner_list(t, depth=0):
    if type(t) is tuple:
        if t[0] == "." and len(t) == 3 and depth > 0:
            return True
        return any(_has_inner_list(a, depth + 1) for a in t[1:])
    return False


def classify(o, e, sequence):
    """symptom of a mismatch between observed and expected canonical answers (lists if ``sequence`` else
    sets); None = the difference is only variable sharing inside an inner (findall) list: not judged."""
    lo = mp.make_list(list(o) if sequence else sorted(o, key=repr))
    le = mp.make_list(list(e) if sequence else sorted(e, key=repr))
    if _anon(lo) == _anon(le) and (_has_inner_list(lo, -1) or _has_inner_list(le, -1)):
        return None
    inner = _has_inner_list(lo, -1) or _has_inner_list(le, -1)
    if inner:
        # sharing between the solutions of an inner list is not judged: compare inner lists anonymised
        lo, le = _anon(lo), _anon(le)
    if sequence or inner:
        if _deep(lo) == _deep(le):
            return "order"
        if _deep(lo, True) == _deep(le, True):
            return "duplicates"
    return "wrong-answers"


def judge(case):
    """-> dict(verdict='ok'|'violation'|'skip'|'unjudged', symptom, expected, observed, what, ref, impl)"""
    ref = reference(case)
    res = dict(verdict="ok", symptom=None, expected=None, observed=None, what=None, ref=ref, impl=None)
    if ref["kind"] == "skip":
        res["verdict"] = "skip"
        res["symptom"] = ref["reason"]
        return res
    out = run_impl(case)
    res["impl"] = out[0] if out[0] == "ok" else ":".join(out[:2])
    kind = ref["kind"]
    if kind == "seq":
        res["expected"] = _show_seq(ref["expected"])
    elif kind == "set":
        res["expected"] = _show_set(ref["expected"])
    else:
        res["expected"] = "least model: " + _show_set(ref["expected"])
    if out[0] == "error":
        res["observed"] = "%s: %s" % (out[1], out[2])
        if out[1] in ERRORS_OUTSIDE:
            res["verdict"] = "unjudged"
            res["symptom"] = "impl-error-outside:" + out[1]
        else:
            res["verdict"] = "violation"
            res["symptom"] = "error-must-answer:" + out[1]
            res["what"] = "ProbLog raises %s where Prolog answers %s" % (out[1], res["expected"])
        return res
    if out[0] != "ok":
        # crash / timeout / recursion: C27's business (or a cap), counted by the caller
        res["verdict"] = "unjudged"
        res["symptom"] = "impl-" + ":".join(out[:2]) + (("@" + out[2]) if out[0] == "crash" else "")
        res["observed"] = res["symptom"]
        return res
    answers = out[1]
    if ref.get("findall"):
        items = None
        if len(answers) == 1 and len(answers[0]) == 1:
            items = mp.list_items(answers[0][0])
        if items is None:
            res.update(verdict="violation", symptom="wrong-answers",
                       observed="answers of the findall wrapper: " + _show_seq(
                           [mp.canon(("$ans",) + a) for a in answers]),
                       what="findall/3 must succeed exactly once with a proper list")
            return res
        obs = items
    else:
        obs = [("$ans",) + a for a in answers]
    if kind == "seq":
        o = [mp.canon(x) for x in obs]
        e = ref["expected"]
        res["observed"] = _show_seq(o)
        if o == e:
            return res
        sym = classify(o, e, True)
        if sym is None:
            res.update(verdict="unjudged", symptom="variable-sharing-in-inner-list")
            return res
        what = {"order": "findall/3 solutions not in SLD order",
                "duplicates": "findall/3 solutions have wrong multiplicities",
                "wrong-answers": "findall/3 solutions differ from Prolog's"}[sym]
        res.update(verdict="violation", symptom=sym, what="%s: expected %s, got %s" % (what, res["expected"],
                                                                                      res["observed"]))
        return res
    if kind == "set":
        o = set(mp.canon(x) for x in obs)
        res["observed"] = _show_set(o)
        if o != ref["expected"]:
            sym = classify(o, ref["expected"], False)
            if sym is None:
                res.update(verdict="unjudged", symptom="variable-sharing-in-inner-list")
                return res
            res.update(verdict="violation", symptom=sym,
                       what="answer set differs from Prolog's: expected %s, got %s" % (res["expected"],
                                                                                      res["observed"]))
        return res
    # gset
    o = set()
    try:
        for x in obs:
            o |= mp.ground_instances(x, ref["universe"])
    except mp.StepBound:
        res.update(verdict="unjudged", symptom="answer-instances-bound")
        return res
    res["observed"] = "instances of the answers: " + _show_set(o)
    if o != ref["expected"]:
        sym = "lhm-missing" if ref["expected"] - o else "lhm-extra"
        res.update(verdict="violation", symptom=sym,
                   what="answer set of a recursive program differs from the least Herbrand model: missing %s, "
                        "extra %s" % (_show_set(ref["expected"] - o), _show_set(o - ref["expected"])))
    return res


# ---------------------------------------------------------------------------------------------
# shrinking

SIMPLE = "a"


def _term_variants(t):
    """Terms obtained by simplifying exactly one data subterm: b/c/ints -> a, f(..) -> its argument / a."""
    t = mp.deref(t)
    if type(t) is mp.Var:
        return
    if type(t) is int:
        yield "a"
        yield "b"
        return
    if type(t) is tuple:
        if t[0] == "f" and mp.is_ground(t):
            for a in t[1:]:
                yield a
            yield "a"
            yield "b"
        for i in range(1, len(t)):
            for v in _term_variants(t[i]):
                yield t[:i] + (v,) + t[i + 1:]


def _conjuncts(b):
    out = []
    while type(b) is tuple and b[0] == "," and len(b) == 3:
        out.append(b[1])
        b = b[2]
    out.append(b)
    return out


def _conj(xs):
    if not xs:
        return "true"
    b = xs[-1]
    for x in reversed(xs[:-1]):
        b = (",", x, b)
    return b


def _body_variants(body):
    """Smaller bodies: drop one conjunct, replace a disjunction by one branch (also inside a findall goal)."""
    if body == "true":
        return
    cs = _conjuncts(body)
    for i in range(len(cs)):
        yield _conj(cs[:i] + cs[i + 1:])
    for i, c in enumerate(cs):
        if type(c) is tuple and c[0] == ";" and len(c) == 3:
            yield _conj(cs[:i] + [c[1]] + cs[i + 1:])
            yield _conj(cs[:i] + [c[2]] + cs[i + 1:])
        if type(c) is tuple and c[0] == "findall" and len(c) == 4:
            for g in _body_variants(c[2]):
                if g != "true":
                    yield _conj(cs[:i] + [("findall", c[1], g, c[3])] + cs[i + 1:])


def _clause_variants(text):
    head, body = parse_clause(text)[:2]
    seen = set()
    for b in _body_variants(body):
        s = mp.show_clause(head, b)
        if s not in seen:
            seen.add(s)
            yield s
    whole = (":-", head, body)
    for v in _term_variants(whole):
        s = mp.show_clause(v[1], v[2])
        if s not in seen:
            seen.add(s)
            yield s


def _query_variants(text):
    q = mp.read_term(text)
    seen = set()
    cands = []
    if is_findall_query(q):
        t = mp.deref(q[1])
        if type(t) is tuple:
            for a in t[1:]:
                cands.append(("findall", a, q[2], q[3]))
        g0 = mp.deref(q[2])
        if type(g0) is tuple and g0[0] == "findall" and len(g0) == 4:
            cands.append(("findall", g0[1], g0[2], q[3]))     # the inner findall alone
        for g in _body_variants(q[2]):
            if g != "true":
                cands.append(("findall", q[1], g, q[3]))
        for v in _term_variants(q[2]):
            cands.append(("findall", q[1], v, q[3]))
    else:
        for v in _term_variants(q):
            cands.append(v)
    for c in cands:
        s = mp.show(c)
        if s not in seen:
            seen.add(s)
            yield s


def _goal_renamings(b, sigs):
    """Bodies with exactly one user atom renamed to another defined predicate of the same arity."""
    b = mp.deref(b)
    if type(b) is mp.Var:
        return
    if type(b) is tuple and b[0] in (",", ";") and len(b) == 3:
        for v in _goal_renamings(b[1], sigs):
            yield (b[0], v, b[2])
        for v in _goal_renamings(b[2], sigs):
            yield (b[0], b[1], v)
    elif type(b) is tuple and b[0] == "\\+" and len(b) == 2:
        for v in _goal_renamings(b[1], sigs):
            yield (b[0], v)
    elif type(b) is tuple and b[0] == "findall" and len(b) == 4:
        for v in _goal_renamings(b[2], sigs):
            yield (b[0], b[1], v, b[3])
    else:
        sig = mp.signature(b)
        if sig in sigs:
            for other in sigs:
                if other[1] == sig[1] and other[0] < sig[0]:
                    yield (other[0],) + b[1:] if type(b) is tuple else other[0]


def shrink_candidates(case):
    prog = case["program"]
    q = case["query"]
    for i in range(len(prog)):
        yield dict(program=prog[:i] + prog[i + 1:], query=q)
    for i, c in enumerate(prog):
        for v in _clause_variants(c):
            yield dict(program=prog[:i] + [v] + prog[i + 1:], query=q)
    for v in _query_variants(q):
        yield dict(program=prog, query=v)
    # call another (alphabetically smaller) predicate of the same arity instead
    sigs = sorted(set(parse_clause(c)[4] for c in prog))
    for i, c in enumerate(prog):
        head, body = parse_clause(c)[:2]
        for b in _goal_renamings(body, sigs):
            yield dict(program=prog[:i] + [mp.show_clause(head, b)] + prog[i + 1:], query=q)
    qt = mp.read_term(q)
    if is_findall_query(qt):
        for g in _goal_renamings(qt[2], sigs):
            yield dict(program=prog, query=mp.show(("findall", qt[1], g, qt[3])))
    else:
        for g in _goal_renamings(qt, sigs):
            yield dict(program=prog, query=mp.show(g))
    # bind a variable of a clause / of the query to a constant
    for i, c in enumerate(prog):
        head, body = parse_clause(c)[:2]
        for v in _var_bindings((":-", head, body), ()):
            yield dict(program=prog[:i] + [mp.show_clause(v[1], v[2])] + prog[i + 1:], query=q)
    keep = (mp.deref(qt[3]),) if is_findall_query(qt) else ()
    for v in _var_bindings(qt, keep):
        yield dict(program=prog, query=mp.show(v))
    # drop one argument position of a predicate everywhere
    for sig in sigs:
        if sig[1] == 0 or (sig[0], sig[1] - 1) in sigs or (sig[0], sig[1] - 1) in mp.BUILTINS:
            continue
        for pos in range(1, sig[1] + 1):
            def cut(atom, sig=sig, pos=pos):
                if mp.signature(atom) != sig:
                    return atom
                rest = atom[:pos] + atom[pos + 1:]
                return rest if len(rest) > 1 else rest[0]
            newprog = []
            for c in prog:
                head, body = parse_clause(c)[:2]
                newprog.append(mp.show_clause(cut(head), _map_goals(body, cut)))
            if is_findall_query(qt):
                newq = ("findall", qt[1], _map_goals(qt[2], cut), qt[3])
            else:
                newq = cut(qt)
            yield dict(program=newprog, query=mp.show(newq))
    # swap the two arguments of a binary predicate everywhere (normalisation: accepted only if smaller)
    for sig in sigs:
        if sig[1] != 2:
            continue

        def swap(atom, sig=sig):
            if mp.signature(atom) != sig:
                return atom
            return (atom[0], atom[2], atom[1])
        newprog = []
        for c in prog:
            head, body = parse_clause(c)[:2]
            newprog.append(mp.show_clause(swap(head), _map_goals(body, swap)))
        if is_findall_query(qt):
            newq = ("findall", qt[1], _map_goals(qt[2], swap), qt[3])
        else:
            newq = swap(qt)
        yield dict(program=newprog, query=mp.show(newq))
    # merge two constants: every c2 becomes c1
    present = [c for c in CONSTS if _RE_CONST[c].search(" ".join(prog) + " " + q)]
    for c1 in present:
        for c2 in present:
            if c1 < c2:
                sub = lambda mo, c1=c1: c1
                yield dict(program=[_RE_CONST[c2].sub(sub, c) for c in prog], query=_RE_CONST[c2].sub(sub, q))
    # normal form under renaming of predicates, renaming of the constants a/b/c and grouping of the clauses
    # by predicate (stable: the order inside a predicate is what Prolog sees): smallest text of the orbit
    yield dict(canonical_variant(case), normal_form=True)


CONSTS = ("a", "b", "c")
import re as _re
_RE_CONST = dict((c, _re.compile(r"(?<![A-Za-z0-9_'])%s(?![A-Za-z0-9_'(])" % c)) for c in CONSTS)


def _var_bindings(t, keep):
    """Copies of ``t`` with one of its variables (not in ``keep``) replaced everywhere by a / b."""
    for v in mp.term_vars(t):
        if any(v is k for k in keep):
            continue
        for c in ("a", "b"):
            v.ref = c
            try:
                r = mp.resolve(t)
            finally:
                v.ref = None
            yield r


def _map_goals(b, fn):
    """Apply ``fn`` to every atom of a body (through , ; \\+ findall/3 call/1)."""
    b = mp.deref(b)
    if type(b) is mp.Var:
        return b
    if type(b) is tuple and b[0] in (",", ";") and len(b) == 3:
        return (b[0], _map_goals(b[1], fn), _map_goals(b[2], fn))
    if type(b) is tuple and b[0] in ("\\+", "call") and len(b) == 2:
        return (b[0], _map_goals(b[1], fn))
    if type(b) is tuple and b[0] == "findall" and len(b) == 4:
        return (b[0], b[1], _map_goals(b[2], fn), b[3])
    return fn(b)


def _consts_in(t, acc):
    t = mp.deref(t)
    if type(t) is tuple:
        for a in t[1:]:
            _consts_in(a, acc)
    elif type(t) is str and t in CONSTS and t not in acc:
        acc.append(t)


def _rename_consts(t, m):
    t = mp.deref(t)
    if type(t) is tuple:
        return (t[0],) + tuple(_rename_consts(a, m) for a in t[1:])
    if type(t) is str and t in m:
        return m[t]
    return t


PRED_NAMES = ("p", "q", "r", "s", "t", "u", "v", "w")
_RE_TOKEN = None
_RE_HEAD = None


def canonical_variant(case):
    """The lexicographically smallest text among all consistent renamings of the program's predicate names
    (to p, q, r, ...; data functors with the same name are renamed along, harmlessly) and of the constants
    a, b, c, with the clauses stably grouped by predicate name.  Works on the text: every predicate /
    constant of the grammar is a one-letter token."""
    import re

    global _RE_TOKEN, _RE_HEAD
    if _RE_TOKEN is None:
        _RE_TOKEN = re.compile(r"(?<![A-Za-z0-9_'])[a-z](?![A-Za-z0-9_'])")
        _RE_HEAD = re.compile(r"^[a-z]")
    prog = case["program"]
    preds = sorted(set(parse_clause(c)[4][0] for c in prog))
    if any(len(n) != 1 for n in preds) or len(preds) > 4 or len(set(preds)) != len(preds):
        return case
    text = " ".join(prog) + " " + case["query"]
    consts = sorted(set(m for m in _RE_TOKEN.findall(text) if m in CONSTS))
    best = None
    for pperm in itertools.permutations(PRED_NAMES[:len(preds)]):
        for cperm in itertools.permutations(CONSTS[:len(consts)]):
            m = dict(zip(preds, pperm))
            m.update(zip(consts, cperm))
            sub = lambda mo: m.get(mo.group(0), mo.group(0))
            newprog = sorted((_RE_TOKEN.sub(sub, c) for c in prog), key=lambda c: _RE_HEAD.match(c).group(0))
            cand = dict(program=newprog, query=_RE_TOKEN.sub(sub, case["query"]))
            key = (" ".join(cand["program"]), cand["query"])
            if best is None or key < best[0]:
                best = (key, cand)
    cand = best[1]
    try:    # through the reader/writer: canonical spacing and variable names
        cand = dict(program=[canon_clause(c) for c in cand["program"]], query=mp.show(mp.read_term(cand["query"])))
    except mp.Unsupported:
        return case
    return cand


def _predicate_renaming(case):
    sigs = set(parse_clause(c)[4] for c in case["program"])
    order = []

    def note(atom):
        sg = mp.signature(atom)
        if sg in sigs and sg not in order:
            order.append(sg)
        return atom

    q = mp.read_term(case["query"])
    fq = is_findall_query(q)
    _map_goals(q[2] if fq else q, note)
    terms = []
    for c in case["program"]:
        head, body = parse_clause(c)[:2]
        terms.append((head, body))
        note(head)
        _map_goals(body, note)
    if len(order) > len(PRED_NAMES) or len(set(sg[0] for sg in order)) != len(order):
        return None
    m = dict((sg, PRED_NAMES[i]) for i, sg in enumerate(order))
    if all(sg[0] == n for sg, n in m.items()):
        return None

    def ren(atom):
        sg = mp.signature(atom)
        if sg in m:
            return (m[sg],) + atom[1:] if type(atom) is tuple else m[sg]
        return atom

    prog = [mp.show_clause(ren(h), _map_goals(b, ren)) for h, b in terms]
    newq = ("findall", q[1], _map_goals(q[2], ren), q[3]) if fq else ren(q)
    return dict(program=prog, query=mp.show(newq))


def _constant_renaming(case):
    seen = []
    terms = []
    for c in case["program"]:
        head, body = parse_clause(c)[:2]
        terms.append((head, body))
    q = mp.read_term(case["query"])
    # the query first: it fixes which constant is "a"
    _consts_in(q, seen)
    for head, body in terms:
        _consts_in(head, seen)
        _consts_in(body, seen)
    m = dict(zip(seen, CONSTS))
    if all(k == v for k, v in m.items()):
        return None
    prog = [mp.show_clause(_rename_consts(h, m), _rename_consts(b, m)) for h, b in terms]
    return dict(program=prog, query=mp.show(_rename_consts(q, m)))


_SHRINK_MEMO = {}


def symptom_of(case):
    key = json_canon(case)
    if key not in _SHRINK_MEMO:
        if len(_SHRINK_MEMO) > 200000:
            _SHRINK_MEMO.clear()
        try:
            j = judge(case)
            _SHRINK_MEMO[key] = j["symptom"] if j["verdict"] == "violation" else None
        except mp.Unsupported:
            _SHRINK_MEMO[key] = None
    return _SHRINK_MEMO[key]


_MIN_MEMO = {}
SHRINK_STEPS = 500
_RE_VAR = None


def measure(case):
    """Well-founded size of a case; a shrink step is accepted only if it strictly decreases it, so the
    greedy shrink terminates and its result is a function of the starting case alone."""
    import re

    global _RE_VAR
    if _RE_VAR is None:
        _RE_VAR = (re.compile(r"\b[A-Z_][A-Za-z0-9_]*\b"), re.compile(r"[0-9]"), re.compile(r"(?<![A-Za-z0-9_'])[abc](?![A-Za-z0-9_'(])"))
    text = " ".join(case["program"]) + " ?- " + case["query"]
    dense = text.replace(" ", "")
    distinct = len(set(_RE_VAR[2].findall(text)))
    return (len(case["program"]), len(dense), len(_RE_VAR[0].findall(text)), len(_RE_VAR[1].findall(text)),
            distinct, text)


def minimise(case, symptom):
    """Deterministic greedy shrink (first candidate, in the fixed order of ``shrink_candidates``, that still
    shows the same symptom; repeated to a fixpoint) -- the loop of ``core.shrink`` with every intermediate
    case memoised, so that the thousands of violating cases of one root cause share their shrink paths."""
    chain = []
    result = None
    for _ in range(SHRINK_STEPS):
        key = json_canon([symptom, case])
        if key in _MIN_MEMO:
            result = _MIN_MEMO[key]
            break
        chain.append(key)
        nxt = None
        m0 = measure(case)
        for cand in shrink_candidates(case):
            if cand.get("normal_form"):
                # renaming / regrouping: same size; it is idempotent and never enlarges the text of a case
                # that already uses the canonical names, so the shrink still terminates
                cand = dict(program=cand["program"], query=cand["query"])
                ok = cand != case and measure(cand)[:5] == m0[:5]
            else:
                ok = measure(cand) < m0
            if ok and symptom_of(cand) == symptom:
                nxt = cand
                break
        if nxt is None:
            result = case
            break
        case = nxt
    if result is None:
        result = case
    if len(_MIN_MEMO) > 300000:
        _MIN_MEMO.clear()
    for key in chain:
        _MIN_MEMO[key] = result
    return result


# ---------------------------------------------------------------------------------------------
# enumeration

def family_setup(name, tier):
    fam = FAMILIES[name]
    sz = fam["sizes"][tier]
    base = [canon_clause(c) for c in fam["base"]]
    menu = [canon_clause(c) for c in fam["menu"]]
    queries = [mp.show(mp.read_term(q)) for q in fam["queries"]]
    return fam, sz, base, menu, queries


def layers(name, tier):
    """-> list of (layer id, length, menu size, number of queries)."""
    fam = FAMILIES[name]
    sz = fam["sizes"][tier]
    res = []
    for n in range(1, sz["maxlen"] + 1):
        res.append(("L%d" % n, n, _indices(sz["menu"]), sz["queries"]))
    res.append(("R%d" % sz["len4"], sz["len4"], _indices(sz["menu4"]), sz["queries4"]))
    return res


def _indices(m):
    """a menu is given as a prefix length or as an explicit list of clause indices"""
    return list(range(m)) if isinstance(m, int) else list(m)


def query_sigs(qtext):
    q = mp.read_term(qtext)
    goal = q[2] if is_findall_query(q) else q
    return set(sig for sig, _, _ in mp.body_literals(goal) if sig not in mp.BUILTINS)


class C13(Prop):
    pid = "C13"
    title = "Deterministic programs agree with standard Prolog, including findall order"
    technique = ("bounded-exhaustive enumeration (E3) of every program x query of the deterministic-Prolog grammar "
                 "FD on the real implementation (fresh DefaultEngine database per case, engine.query) against the "
                 "reference R3: own mini-Prolog (SLD, leftmost, depth-first, clause order) for answer sequences / "
                 "sets and an own naive bottom-up least-Herbrand-model evaluator for recursive programs")
    rule = ("case = (clause sequence, query): every sequence (order and repetition significant) of <= maxlen "
            "clauses of the family's clause menu, plus every sequence of one more clause over a restricted menu, "
            "appended to the family's base facts; closed programs only; every applicable query of the family's "
            "query menu (findall/3 wrappers and plain queries, ground and non-ground arguments). No symmetry "
            "reduction is applied. A case is non-trivial when the reference answer has >= 2 solutions (order or "
            "multiplicity can be wrong) or, for a recursive program, a non-empty model restriction.")
    assumptions = [
        "R3 (own mini-Prolog / bottom-up evaluator) stands in for SWI-Prolog; validated before every run against "
        "the %Expected outcome headers of the deterministic files of /repo/test and against textbook cases",
        "solutions with unbound variables are compared element by element up to renaming; variable sharing "
        "between two solutions of one list is not judged",
        "plain queries are judged as answer sets (variants), findall/3 lists as sequences; recursive programs "
        "(predicate-level cycle reachable from the query) as answer sets only: least model for definite programs, "
        "Prolog's answers when the SLD tree is finite within the step bound, otherwise unjudged",
        "\\+ on a goal that is not ground at call time, recursion through findall/3 or \\+, undefined predicates "
        "and reference step-bound hits are outside the statement: skipped and counted",
        "ProbLogError classes UnknownClause / IndirectCallCycleError / NegativeCycle / NonGround* / CallModeError on a judged "
        "program are counted as unjudged; crashes and timeouts are counted (C27), not reported here",
    ]
    budget = {"quick": 600, "thorough": 2400}

    # -- shards
    def shards(self, tier):
        res = []
        for name in FAMILIES:
            for lid, n, m, nq in layers(name, tier):
                if n == 1:
                    res.append([name, lid, []])
                elif n == 2:
                    res.extend([name, lid, [i]] for i in m)
                else:
                    res.extend([name, lid, [i, j]] for i in m for j in m)
        # simplest first: by program length, then family
        res.sort(key=lambda s: (int(s[1][1:]), s[1][0] == "R"))
        return res

    def cases_of(self, shard, tier):
        name, lid, prefix = shard
        fam, sz, base, menu, queries = family_setup(name, tier)
        lay = [l for l in layers(name, tier) if l[0] == lid][0]
        _, n, m, nq = lay
        full = [l for l in layers(name, tier) if l[0][0] == "L"]
        base_sigs = set(parse_clause(c)[4] for c in base)
        qsigs = [query_sigs(q) for q in queries[:nq]]
        if lid[0] == "R" and any(fl[1] == n and set(fl[2]) >= set(m) and fl[3] >= nq for fl in full):
            return  # already contained in a full layer
        for rest in itertools.product(m, repeat=n - len(prefix)):
            idx = list(prefix) + list(rest)
            clauses = [menu[i] for i in idx]
            defined = set(base_sigs)
            called = set()
            for c in clauses:
                pc = parse_clause(c)
                defined.add(pc[4])
                called |= pc[3]
            if not called <= defined:
                yield None, "open-program"
                continue
            program = base + clauses
            for qi in range(nq):
                if not qsigs[qi] <= defined:
                    continue
                yield dict(program=program, query=queries[qi]), None

    def run_shard(self, shard, tier, acc):
        slow = None     # program on which a findall query already exhausted the CPU limit
        for case, skip in self.cases_of(shard, tier):
            if acc.expired():
                acc.cap("wall budget reached inside shard")
                break
            if case is None:
                acc.counters["programs_" + skip] += 1
                continue
            if slow is not None and slow == case["program"] and case["query"].startswith("findall("):
                acc.states += 1
                acc.counters["unjudged:impl-timeout-same-program-not-run"] += 1
                acc.outcomes["unjudged:impl-timeout"] += 1
                continue
            j = self.run_case(case, acc, shard[0])
            if j["verdict"] == "unjudged" and j["symptom"] == "impl-timeout" and case["query"].startswith("findall("):
                slow = case["program"]

    def run_case(self, case, acc, fam="-"):
        acc.states += 1
        j = judge(case)
        ref = j["ref"]
        acc.transitions += ref.get("steps", 0)
        acc.counters["cases_" + fam] += 1
        if j["verdict"] == "skip":
            acc.counters["skipped:" + j["symptom"]] += 1
            acc.outcomes["skip:" + j["symptom"]] += 1
            return j
        acc.evaluations += 1
        n = ref.get("n", 0)
        if j["verdict"] == "unjudged":
            acc.counters["unjudged:" + j["symptom"]] += 1
            acc.outcomes["unjudged:" + j["symptom"].split("@")[0]] += 1
            return j
        acc.traces += 1
        acc.counters["judged_" + ref["kind"]] += 1
        if n >= 2 or (ref["kind"] == "gset" and n >= 1):
            acc.nontrivial += 1
        acc.outcomes["%s:n=%s%s" % (ref["kind"], n if n < 6 else "6+",
                                    "" if j["verdict"] == "ok" else ":" + j["symptom"])] += 1
        acc.sample(case)
        if j["verdict"] == "violation":
            small = minimise(case, j["symptom"])
            js = judge(small)
            if js["verdict"] != "violation" or js["symptom"] != j["symptom"]:
                small, js = case, j
            acc.violation(j["symptom"], small, expected=js["expected"], observed=js["observed"], what=js["what"])
        return j

    # -- replay
    def replay(self, case):
        j = judge(case)
        if j["verdict"] in ("skip", "unjudged"):
            return dict(ok=True, expected=j["expected"], observed="not judged: %s" % j["symptom"])
        return dict(ok=j["verdict"] == "ok", expected=j["expected"], observed=j["observed"])

    # -- validation of the reference
    def precheck(self, tier):
        return validate_reference()


# ---------------------------------------------------------------------------------------------
# reference validation: maintainers' corpus expectations + textbook Prolog cases

TEXTBOOK = [
    ("p(X,1) :- X = a. p(a,2). p(a,3).", "findall(N, p(a,N), L)", "[1,2,3]"),
    ("p(X,a). p(a,b).", "findall(Y, p(a,Y), L)", "[a,b]"),
    ("app([],L,L). app([H|T],L,[H|R]) :- app(T,L,R).", "findall(t(X,Y), app(X,Y,[a,b]), L)",
     "[t([],[a,b]),t([a],[b]),t([a,b],[])]"),
    ("mem(X,[X|_]). mem(X,[_|T]) :- mem(X,T).", "findall(X, mem(X,[a,b,a]), L)", "[a,b,a]"),
    ("q(a).", "findall(X, (X = a ; X = b), L)", "[a,b]"),
    ("q(a). q(b). r(b).", "findall(X, (q(X), \\+ r(X)), L)", "[a]"),
    ("q(a). q(b).", "findall(X, (q(X), X \\= a), L)", "[b]"),
    ("q(a). q(b).", "findall(X, (X \\= a, q(X)), L)", "[]"),
    ("q(a). q(b). r(c). r(d).", "findall(t(X,M), (q(X), findall(Y, r(Y), M)), L)", "[t(a,[c,d]),t(b,[c,d])]"),
    ("p(a). p(a).", "findall(X, p(X), L)", "[a,a]"),
    ("q(a). r(a). p(X) :- q(X). p(X) :- r(X).", "findall(X, p(X), L)", "[a,a]"),
    ("q(a). q(b). r(c). r(d).", "findall(X, (q(X), r(Y)), L)", "[a,a,b,b]"),
    ("q(a). q(b). r(b). r(a).", "findall(t(X,Y), (q(X), r(Y)), L)", "[t(a,b),t(a,a),t(b,b),t(b,a)]"),
    ("q(a). q(X).", "findall(X, q(X), L)", "[a,_]"),
    ("q(b). q(a). p(c). p(X) :- q(X).", "findall(X, p(X), L)", "[c,b,a]"),
    ("p(f(a),X). p(a,b).", "findall(X, p(X,X), L)", "[f(a)]"),
    ("q(a). q(b).", "findall(X, (q(X) ; q(X)), L)", "[a,b,a,b]"),
    ("q(a). q(b). t(X) :- findall(Y, q(Y), L), L = [X|_].", "findall(X, t(X), L)", "[a]"),
]
TEXTBOOK_MODEL = [
    ("e(a,b). e(b,c). t(X,Y) :- e(X,Y). t(X,Y) :- t(X,Z), e(Z,Y).", "t(a,Y)", ["t(a,b)", "t(a,c)"]),
    ("e(a,b). e(b,a). t(X,Y) :- e(X,Y). t(X,Y) :- e(X,Z), t(Z,Y).", "t(X,Y)",
     ["t(a,a)", "t(a,b)", "t(b,a)", "t(b,b)"]),
    ("e(a,b). t(X,Y) :- e(X,Y). t(X,Y) :- t(Y,X).", "t(X,a)", ["t(b,a)"]),
]


def validate_reference():
    test_dir = os.path.join(REPO, "test")
    if not os.path.isdir(test_dir):
        test_dir = "/repo/test"
    files = sorted(glob.glob(os.path.join(test_dir, "*.pl")))
    if not files:
        raise RuntimeError("corpus %s not found: the reference cannot be validated" % test_dir)
    validated = []
    outside = collections.Counter()
    for f in files:
        text = open(f).read()
        try:
            exp = mp.read_expected(text)
            got = mp.run_corpus_text(text)
            if not isinstance(exp, tuple):
                if any(v not in (0.0, 1.0) for v in exp.values()):
                    raise mp.Unsupported("probabilistic expectation")
                exp = dict((mp.canon(mp.read_term(k)), v) for k, v in exp.items())
        except (mp.Unsupported, mp.StepBound, mp.Flounder, mp.InstantiationError) as err:
            outside[type(err).__name__] += 1
            continue
        if exp != got:
            raise RuntimeError("reference R3 disagrees with the corpus expectation of %s: expected %r, reference %r"
                               % (f, exp, got))
        validated.append(os.path.basename(f))
    if len(validated) < 10:
        raise RuntimeError("reference R3 validated on %d corpus files only" % len(validated))
    n = 0
    for prog, q, exp in TEXTBOOK:
        qt = mp.read_term(q)
        sols = mp.Machine(mp.Program.from_text(prog)).solutions(qt, qt[3])
        got = [mp.canon(x) for x in mp.list_items(sols[0])] if len(sols) == 1 else None
        e = [mp.canon(x) for x in mp.list_items(mp.read_term(exp))]
        if got != e:
            raise RuntimeError("reference R3 fails textbook case %r ?- %s: expected %s, reference %r"
                               % (prog, q, exp, got))
        n += 1
    for prog, q, exp in TEXTBOOK_MODEL:
        case = dict(program=[mp.show_clause(*_hb(c)) for c in mp.read_clauses(prog)], query=q)
        r = reference(case)
        e = set(("$ans",) + mp.read_term(x)[1:] for x in exp)
        if r["kind"] != "gset" or r["expected"] != e:
            raise RuntimeError("reference R3 fails textbook model case %r ?- %s: expected %s, reference %r"
                               % (prog, q, exp, r))
        n += 1
    return dict(reference_validated_on_corpus=len(validated), reference_corpus_files=validated,
                reference_corpus_outside_fragment=sum(outside.values()), reference_textbook_cases=n)


def _hb(c):
    if type(c) is tuple and c[0] == ":-" and len(c) == 3:
        return c[1], c[2]
    return c, "true"


PROP = C13()
