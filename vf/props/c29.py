"""C29 extending a prepared database is equivalent to preparing the union (E2: BFS over histories
of {add clause to the newest extension, extend again} on the real ClauseDB; after every step every
database of the chain is compared with a fresh preparation of its own clause list and with R1)."""
import collections

from ..core import Prop, watchdog, WatchdogTimeout
from ..explore import bfs_histories
from ..gen.programs import clause_text, A, fact, rule, ad
from ..ref.worlds import atom_str
from .. import progcheck
from ..plrun import classify_exception, install_dsharp_cache

X, Y, Z = "X", "Y", "Z"
BASES = [
    [fact(None, A("p", "a")), rule(A("q", X), [[True, A("p", X)]])],
    [fact("0.3", A("p", "a")), rule(A("q", X), [[True, A("p", X)]]), rule(A("r"), [[True, A("q", "a")]])],
    [ad([("0.3", A("p", "a")), ("0.6", A("p", "b"))]), fact(None, A("s", "b")),
     rule(A("q", X), [[True, A("p", X)], [False, A("s", X)]])],
    [fact(None, A("p", "a")), fact(None, A("p", "b")), fact("0.5", A("e", "a", "b")),
     rule(A("t", X, Y), [[True, A("e", X, Y)]]), rule(A("t", X, Y), [[True, A("e", X, Z)], [True, A("t", Z, Y)]])],
    [fact("0.6", A("s", "a")), rule(A("q", X), [[True, A("s", X)]], p="0.5")],
    # an inherited predicate reached through a static call compiled in the parent, from inside findall/3 and
    # all/3 (which extend the queried database once more); no possible-world reference for these (differential only)
    [fact("0.5", A("p", "a")), rule(A("q", X), [[True, A("p", X)]]),
     {"heads": [[None, A("two")]], "body": [], "text": "two :- findall(X, q(X), L), L = [_,_|_]."},
     {"heads": [[None, A("cnt", X)]], "body": [], "text": "cnt(N) :- all(X, q(X), L), length(L, N)."}],
]
MENU = [
    fact(None, A("p", "c")),
    fact("0.5", A("p", "b")),
    fact(None, A("s", "a")),
    rule(A("q", X), [[True, A("s", X)]]),
    rule(A("u", X), [[True, A("q", X)]]),
    ad([("0.4", A("u", "a")), ("0.5", A("u", "b"))]),
    rule(A("p", X), [[True, A("s", X)]], p="0.2"),
    fact(None, A("e", "b", "c")),
]
DEPTH = {"quick": 3, "thorough": 4}


def ops_menu():
    return [["add", i] for i in range(len(MENU))] + [["extend"]]


def preds_of(clauses):
    res = []
    for cl in clauses:
        for _, h in cl["heads"]:
            sig = (h[0], len(h[1]))
            if sig not in res:
                res.append(sig)
    return res


def evaluate_db(engine, db, preds):
    """ground a non-ground query for every predicate into one formula and evaluate"""
    from problog.formula import LogicFormula
    from problog.logic import Term
    from problog import get_evaluatable

    try:
        target = LogicFormula()
        for name, n in preds:
            target = engine.ground(db, Term(name, *([None] * n)), target, label=target.LABEL_QUERY)
        res = get_evaluatable().create_from(target).evaluate()
        out = {str(k): v for k, v in res.items()}
        # calls with a ground first argument go through the per-argument clause index; they are
        # grounded into a formula of their own (the same atom may be named by both kinds of query)
        target = LogicFormula()
        n_ground = 0
        for name, n in preds:
            if n >= 1:
                for const in ("a", "b", "c"):
                    target = engine.ground(db, Term(name, Term(const), *([None] * (n - 1))), target,
                                           label=target.LABEL_QUERY)
                    n_ground += 1
        if n_ground:
            res = get_evaluatable().create_from(target).evaluate()
            for k, v in res.items():
                out["ground-call:" + str(k)] = v
        # every predicate once more into a formula of its own, last predicate first: a shared formula carries
        # the engine's table of earlier calls, so a direct call p(X) would hide what a later call THROUGH a
        # parent rule sees of p
        for name, n in reversed(preds):
            target = engine.ground(db, Term(name, *([None] * n)), LogicFormula(), label=LogicFormula.LABEL_QUERY)
            res = get_evaluatable().create_from(target).evaluate()
            for k, v in res.items():
                out["alone:" + str(k)] = v
        return ("ok", out)
    except Exception as exc:  # noqa
        return classify_exception(exc)


def term_of(cl):
    from problog.program import PrologString

    return list(PrologString(clause_text(cl)))[0]


def same(a, b):
    from .diffbase import same_result

    return same_result(a, b)


def check_history(bi, hist):
    """-> (state, error or None)"""
    from problog.engine import DefaultEngine
    from problog.program import PrologString

    install_dsharp_cache()
    base = BASES[bi]
    engine = DefaultEngine()
    root = engine.prepare(PrologString(" ".join(clause_text(c) for c in base)))
    chain = [(root, list(base), len(root))]  # (db, its full clause list, node count when frozen)
    cur = root.extend()
    cur_clauses = list(base)
    for op in hist:
        if op[0] == "add":
            cur += term_of(MENU[op[1]])
            cur_clauses = cur_clauses + [MENU[op[1]]]
        else:
            chain.append((cur, list(cur_clauses), len(cur)))
            cur = cur.extend()
    chain.append((cur, list(cur_clauses), None))
    for level, (db, clauses, frozen_len) in enumerate(chain):
        preds = preds_of(clauses)
        # a fresh engine per level: an engine instance that raised is not reusable (C08's business)
        got = evaluate_db(DefaultEngine(), db, preds)
        e2 = DefaultEngine()
        try:
            fresh_db = e2.prepare(PrologString(" ".join(clause_text(c) for c in clauses)))
            fresh = evaluate_db(e2, fresh_db, preds)
        except Exception as exc:  # noqa
            fresh = classify_exception(exc)
        if got[0] == "crash":
            return None, ("crash:%s@%s" % (got[1], got[2]), "level %d of the chain" % level)
        if fresh[0] in ("crash", "timeout"):
            continue
        if not same(got, fresh):
            kind = "child-differs-from-union" if level == len(chain) - 1 else "parent-changed"
            return None, (kind, "database at level %d (%s) answers %r; a fresh preparation of the same clauses answers %r"
                          % (level, " ".join(clause_text(c) for c in clauses), got, fresh))
        if frozen_len is not None and len(db) != frozen_len:
            return None, ("parent-changed", "database at level %d grew from %d to %d nodes" % (level, frozen_len, len(db)))
        if level == len(chain) - 1 and got[0] == "ok":
            prog = {"clauses": clauses, "queries": [[n, ["X", "Y", "Z"][:k]] for n, k in preds], "evidence": []}
            if any(c.get("text") for c in clauses):
                continue
            ref = progcheck.reference(prog)
            if ref["kind"] == "answer":
                plain = lambda o: (o[0], {k: v for k, v in o[1].items() if not k.startswith(("ground-call:", "alone:"))}) if o[0] == "ok" else o
                sym, detail = progcheck.verdict(ref, plain(got))
                if sym and not progcheck.verdict(ref, plain(fresh))[0]:
                    return None, ("child-differs-from-reference:" + sym, detail)
    state = (bi, tuple(tuple(op) for op in hist if op[0] == "add" or True))
    # canonical state: clause lists per level (histories that add the same clauses at the same
    # levels in the same order reach the same state)
    state = (bi, tuple(tuple(clause_text(c) for c in cl) for _, cl, _ in chain))
    return state, None


def safe_check(bi, hist):
    try:
        with watchdog(60):
            return check_history(bi, hist)
    except WatchdogTimeout:
        return ("timeout", bi, tuple(map(tuple, hist))), None
    except Exception as exc:  # noqa
        c = classify_exception(exc)
        if c[0] == "error":
            return None, ("error-in-history:" + c[1], "raised while building the chain")
        return None, ("crash:%s@%s" % (c[1], c[2]), "internal exception while building the chain")


class C29(Prop):
    pid = "C29"
    title = "Extending a prepared database is equivalent to preparing the union"
    technique = ("explicit-state BFS over histories of {add one of 8 clauses to the newest extension, extend again} on the "
                 "real ClauseDB for 6 base programs (one calling findall/3 and all/3 over an inherited predicate); after every step every database of the chain is queried (all "
                 "predicates, non-ground) through the real engine and compared with a fresh preparation of exactly its "
                 "clause list and with the possible-world reference; frozen parents must keep their node count")
    rule = ("states = (base program, clause lists per extension level); transitions = history steps executed; depth 3 "
            "(quick) / 4 (thorough) over a 9-operation menu (new and existing predicates x fact / probabilistic fact / "
            "rule / probabilistic rule / AD + extend); non-trivial = chain with >= 2 levels holding added clauses")
    budget = {"quick": 400, "thorough": 2700}

    def shards(self, tier):
        return [[bi, op] for bi in range(len(BASES)) for op in ops_menu()]

    def run_shard(self, shard, tier, acc):
        bi, first = shard
        found = {}

        def on_violation(hist, err):
            found.setdefault(err[0], (list(hist), err[1]))

        stats = collections.Counter()
        bfs_histories(lambda h: safe_check(bi, h), ops_menu(), DEPTH[tier], prefix=[first], on_violation=on_violation,
                      stats=stats)
        acc.states += stats["states"]
        acc.transitions += stats["transitions"] + 1
        acc.evaluations += stats["transitions"] + 1
        acc.traces += stats["transitions"] + 1
        acc.nontrivial += max(0, stats["states"] - 1)
        acc.outcomes["violating" if found else "ok"] += 1
        acc.sample({"base": " ".join(clause_text(c) for c in BASES[bi]), "first_op": first, "states": stats["states"]}, limit=3)
        for sym, (hist, detail) in found.items():
            h = list(hist)
            changed = True
            while changed:
                changed = False
                for i in range(len(h)):
                    h2 = h[:i] + h[i + 1:]
                    st, err = safe_check(bi, h2)
                    if err and err[0] == sym:
                        h = h2
                        changed = True
                        break
            st, err = safe_check(bi, h)
            case = {"base": " ".join(clause_text(c) for c in BASES[bi]), "base_index": bi,
                    "history": [["add", clause_text(MENU[o[1]]), o[1]] if o[0] == "add" else ["extend"] for o in h]}
            extra = None
            if sym.startswith("crash:"):
                case, extra = {"site": sym}, case
            acc.violation(sym, case, extra=extra, expected="same answers as a fresh preparation of the union",
                          observed=err[1] if err else None,
                          what="%s: base [%s] history %s [%s]" % (sym, (extra or case)["base"], (extra or case)["history"],
                                                                  (err[1] if err else "")[:300]))

    def replay(self, case):
        hist = [["add", o[2]] if o[0] == "add" else ["extend"] for o in case["history"]]
        st, err = safe_check(case["base_index"], hist)
        return dict(ok=err is None, expected="same answers as a fresh preparation of the union", observed=err)


PROP = C29()
