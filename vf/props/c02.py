"""C02 programs with a cycle through negation are rejected, never answered; stratified programs
never raise NegativeCycle (E3 over program grammars, oracle R1 classification)."""
from .c01 import ProgramProp
from ..gen import streams
from ..gen.programs import program_text, cycle_info
from .. import progcheck


def in_domain(prog):
    cyc, hasneg, negcyc = cycle_info(prog)
    return cyc and hasneg


class C02(ProgramProp):
    pid = "C02"
    title = "Programs with a cycle through negation are rejected, never answered"
    technique = ("bounded-exhaustive enumeration of programs that combine negation with (positive or negative) "
                 "recursion, executed through the real default pipeline; accept/reject decision compared with a "
                 "conservative three-way classification computed from the well-founded models of all worlds")
    rule = ("every program of families F1/F3 that has a negative literal and a predicate-level cycle; reference "
            "classes: must-reject (a query/evidence atom undefined in a world of non-zero probability), must-answer "
            "(full ground dependency graph without negative cycle), either (unjudged); non-trivial = judged class")
    assumptions = ["'either' programs (negative cycle in the ground graph but all query/evidence atoms two-valued "
                   "in every world) are counted, not judged",
                   "wrong numbers and crashes on stratified programs are reported by C01"]
    families = {
        "quick": [("F1.4s", 128), ("F3.2", 48), ("F1.3s", 24), ("F1.2", 96), ("F1.1", 4)],
        "thorough": [("F1.4s", 128), ("F3.3/4", 128), ("F1.3/64", 256), ("F3.2", 64), ("F1.3s", 48), ("F1.2", 128), ("F1.1", 4)],
    }
    skip_negcycle = False
    strong_shrink = True  # merge predicates / swap clauses: one engine defect, many program shapes
    budget = {"quick": 240, "thorough": 2400}

    def owns(self, sym, prog=None):
        return sym == "answered-must-reject" or sym.startswith("spurious-negative-cycle")

    def run_shard(self, shard, tier, acc):
        fam, mod, rem = shard
        for idx, prog in streams.shard_stream(fam, tier, mod, rem):
            if acc.expired():
                acc.cap("wall budget reached in family %s" % fam)
                break
            if not in_domain(prog):
                acc.counters["outside_domain_no_cycle_or_no_negation"] += 1
                continue
            ref = progcheck.reference(prog)
            acc.counters["class:" + ("must-answer" if ref["kind"] in ("answer", "inconsistent") else ref["kind"])] += 1
            self.one(prog, ref, acc, fam, idx)


PROP = C02()
