"""C23 k-best anytime bounds are sound and tight on completion; explanations sum to the exact
probability.

Every evidence-free program of the finite grammars is (a) evaluated with the k-best (MaxSAT)
evaluatable -- with the default options and with larger convergence thresholds, which make the
evaluator stop at each of its intermediate (anytime) bound pairs -- and (b) pushed through the steps
of problog/tasks/explain.py:main; all results are compared with the possible-world reference R1.
"""
import itertools
import os
import re
from fractions import Fraction

from ..core import Prop, watchdog, WatchdogTimeout
from ..gen import streams
from ..gen.programs import program_text
from ..plrun import infer, classify_exception
from ..ref import worlds
from .. import progcheck

TOL_VALUE = 1e-8     # single value / explain results / proof sums
TOL_BOUND = 1e-9     # interval containment, lower <= upper
CONVERGENCES = [None, 0.05, 0.2, 0.5, 1.0]   # None = default (1e-9)

_MAXSAT_CACHE = {}
_MAXSAT_STATS = {"hit": 0, "miss": 0}


def install_maxsat_cache():
    """Memoise the external `maxsatz` process per worker: it is a deterministic function of the
    WCNF file it is given (0.2-0.4 s of CPU per call, almost all of it process start-up).  Everything
    on the Python side (partial encoding, to_dimacs, output parsing, from_partial, blocking clauses)
    still runs for every call.  Also removes the temporary input file, which the implementation
    leaves behind.  Disabled with VERIF_NO_MAXSAT_CACHE=1."""
    import problog.maxsat as M

    if getattr(M, "_vf_cache_installed", False):
        return
    real = M.subprocess_check_output
    nocache = bool(os.environ.get("VERIF_NO_MAXSAT_CACHE"))

    def cached(cmd, *a, **kw):
        fn = cmd[-1]
        key = None
        try:
            if not nocache and os.path.basename(cmd[0]).startswith("maxsatz") and len(cmd) == 2:
                with open(fn) as f:
                    key = f.read()
        except OSError:
            key = None
        try:
            if key is not None and key in _MAXSAT_CACHE:
                _MAXSAT_STATS["hit"] += 1
                return _MAXSAT_CACHE[key]
            out = real(cmd, *a, **kw)
            _MAXSAT_STATS["miss"] += 1
            if key is not None:
                if len(_MAXSAT_CACHE) > 50000:
                    _MAXSAT_CACHE.clear()
                _MAXSAT_CACHE[key] = out
            return out
        finally:
            try:
                if fn.endswith(".cnf") and os.sep + "tmp" in fn:
                    os.remove(fn)
            except OSError:
                pass

    M.subprocess_check_output = cached
    M._vf_cache_installed = True


# ---------------------------------------------------------------------------------------------
# running the implementation

def run_kbest(src, convergence=None, timeout=60):
    """get_evaluatable('kbest').create_from(PrologString(src)).evaluate([convergence=c])
    -> ("ok", {query: float | [lower, upper]}) | error / crash / timeout tuples"""
    from problog.program import PrologString
    from problog import get_evaluatable

    install_maxsat_cache()
    kw = {} if convergence is None else {"convergence": convergence}
    try:
        with watchdog(timeout):
            res = get_evaluatable("kbest").create_from(PrologString(src)).evaluate(**kw)
            out = {}
            for k, v in res.items():
                if isinstance(v, tuple):
                    out[str(k)] = [float(x) for x in v]
                else:
                    out[str(k)] = v if isinstance(v, (int, float)) else repr(v)
            return ("ok", out)
    except WatchdogTimeout:
        return ("timeout",)
    except RecursionError:
        return ("recursion",)
    except Exception as exc:  # noqa
        return classify_exception(exc)


def run_explain(src, timeout=60):
    """the steps of problog/tasks/explain.py:main (PrologString instead of PrologFile, exceptions
    not swallowed) -> ("ok", {"program": [...], "proofs": [...], "results": {...}}) | ..."""
    from problog.program import PrologString
    from problog.engine import DefaultEngine
    from problog.kbest import KBestFormula

    install_maxsat_cache()
    try:
        with watchdog(timeout):
            db = DefaultEngine().prepare(PrologString(src))
            program = list(map(lambda s: "%s." % s, db.iter_raw()))
            cnf = KBestFormula.create_from(db, label_all=True)
            explanation = []
            results = cnf.evaluate(explain=explanation)
            res = {}
            for k, v in results.items():
                res[str(k)] = [float(x) for x in v] if isinstance(v, tuple) else v
            return ("ok", {"program": program, "proofs": list(explanation), "results": res})
    except WatchdogTimeout:
        return ("timeout",)
    except RecursionError:
        return ("recursion",)
    except Exception as exc:  # noqa
        return classify_exception(exc)


# ---------------------------------------------------------------------------------------------
# (a) bounds

def judge_bounds(cond, res):
    """cond {atom: exact}, res {key: number | [l, u]} -> (symptom or None, detail)"""
    seen = set()
    for k, v in res.items():
        k = progcheck.norm_key(k)
        if k not in cond:
            if progcheck.is_nonground_key(k):
                p = 0.0
            else:
                return "unexpected-instance", "%s reported (%r) but is no instance of any query" % (k, v)
        else:
            p = cond[k]
            seen.add(k)
        if isinstance(v, list):
            lo, up = v
            if lo > up + TOL_BOUND:
                return "inverted-bounds", "%s: lower %.12g > upper %.12g (exact %.12g)" % (k, lo, up, p)
            if p < lo - TOL_BOUND or p > up + TOL_BOUND:
                return "unsound-bounds", "%s: exact %.12g outside [%.12g, %.12g]" % (k, p, lo, up)
        elif isinstance(v, (int, float)) and not isinstance(v, bool):
            if abs(v - p) > TOL_VALUE:
                return "wrong-value", "%s: got %.12g, exact %.12g" % (k, v, p)
        else:
            return "wrong-value", "%s: result %r is neither a number nor a bound pair" % (k, v)
    for k, p in cond.items():
        if k not in seen and p > TOL_BOUND:
            return "missing-instance", "%s not reported, exact %.12g" % (k, p)
    return None, ""


# ---------------------------------------------------------------------------------------------
# (b) explanations

_PROOF = re.compile(r"^(.*?) :- (.*)\.  % P=(\S+)$")
_PLAIN = re.compile(r"^(.*?) :- (true|fail)\.$")


def split_top(s):
    parts, depth, cur = [], 0, ""
    for ch in s:
        if ch in "([":
            depth += 1
        elif ch in ")]":
            depth -= 1
        if ch == "," and depth == 0:
            parts.append(cur.strip())
            cur = ""
        else:
            cur += ch
    if cur.strip():
        parts.append(cur.strip())
    return parts


def parse_proofs(lines):
    """-> list of blocks (query name, [(literals [(sign, name)], P)]) or None if a line has an
    undocumented shape.  A block = the proofs listed for one evaluation of one query."""
    blocks = []
    cur = None
    for line in lines:
        if line == "":
            cur = None
            continue
        m = _PROOF.match(line)
        if m:
            name = m.group(1).replace(" ", "")
            try:
                p = float(m.group(3))
            except ValueError:
                return None
            lits = []
            for l in split_top(m.group(2)):
                if l.startswith("\\+"):
                    lits.append((False, l[2:].replace(" ", "")))
                else:
                    lits.append((True, l.replace(" ", "")))
            if cur is None or cur[0] != name:
                cur = (name, [])
                blocks.append(cur)
            cur[1].append((lits, p))
            continue
        m = _PLAIN.match(line)
        if m:
            name = m.group(1).replace(" ", "")
            if m.group(2) == "true":
                blocks.append((name, [([], 1.0)]))
                cur = None
            else:
                if cur is None or cur[0] != name:
                    blocks.append((name, []))
                cur = None
            continue
        return None
    return blocks


class WorldTable(object):
    """R1's worlds of a program with the choice made per probabilistic clause instance kept
    (head index or None), and the well-founded model of each world."""

    def __init__(self, prog):
        self.prog = prog
        self.gp = gp = worlds.GroundProgram(prog)
        qatoms = []
        for q in prog.get("queries", []):
            vs = [t for t in dict.fromkeys(q[1]) if worlds.is_var(t)]
            for vals in itertools.product(gp.consts, repeat=len(vs)):
                qatoms.append(worlds.atom_str(worlds.subst_atom(q, dict(zip(vs, vals)))))
        universe = gp.atoms() | set(qatoms)
        det = []
        self.choice_instances = []   # index into gp.instances
        opts = []
        for i, (ci, vals, heads, pos, neg) in enumerate(gp.instances):
            if all(p is None for p, _ in heads):
                for _, h in heads:
                    det.append((h, pos, neg))
            else:
                self.choice_instances.append(i)
                o = []
                tot = Fraction(0)
                for j, (p, h) in enumerate(heads):
                    pp = Fraction(1) if p is None else p
                    tot += pp
                    o.append((j, pp))
                o.append((None, 1 - tot))
                opts.append(o)
        self.worlds = []   # (prob, {instance index: head index|None}, true atoms)
        self.two_valued = True
        for combo in itertools.product(*opts):
            pw = Fraction(1)
            for _, p in combo:
                pw *= p
            if pw == 0:
                continue
            rules = list(det)
            choice = {}
            for (j, _), i in zip(combo, self.choice_instances):
                choice[i] = j
                if j is not None:
                    ci, vals, heads, pos, neg = gp.instances[i]
                    rules.append((heads[j][1], pos, neg))
            T, U = worlds.wfm(rules, universe)
            if T != U:
                self.two_valued = False
            self.worlds.append((pw, choice, T))
        # atoms defined by exactly one clause instance
        self.defs = {}
        for i, (ci, vals, heads, pos, neg) in enumerate(gp.all_instances):
            for _, h in heads:
                self.defs[h] = self.defs.get(h, 0) + 1
        # clauses that the engine rewrites with choice/N atoms, in textual order
        self.choice_clauses = [ci for ci, cl in enumerate(prog["clauses"])
                               if any(p is not None for p, _ in cl["heads"]) and (len(cl["heads"]) > 1 or cl["body"])]

    def literal_test(self, name, lranks):
        """-> function(world choice, T) -> bool, or None when the literal cannot be mapped to R1
        unambiguously"""
        gp = self.gp
        m = re.match(r"^choice\((\d+),(\d+|e),(.*)\)$", name)
        if m:
            L, I = int(m.group(1)), m.group(2)
            if L not in lranks or len(lranks) != len(self.choice_clauses):
                return None
            ci = self.choice_clauses[lranks[L]]
            rest = split_top(m.group(3))
            cands = [i for i in self.choice_instances if gp.instances[i][0] == ci]
            if I == "e":
                if rest[0] != "null" or len(self.prog["clauses"][ci]["heads"]) < 2:
                    return None
                if len(cands) != 1:
                    # bindings of the clause variables follow 'null': match them positionally
                    cands = [i for i in cands if list(gp.instances[i][1]) == rest[1:]]
                    if len(cands) != 1:
                        return None
                i = cands[0]
                return lambda choice, T: choice[i] is None
            j = int(I)
            cands = [i for i in cands if j < len(gp.instances[i][2]) and gp.instances[i][2][j][1] == rest[0]
                     and gp.instances[i][2][j][0] is not None]
            if len(cands) != 1:
                return None
            i = cands[0]
            return lambda choice, T: choice[i] == j
        if re.match(r"^choice_\d+$", name) or name.startswith("body_"):
            return None
        if self.defs.get(name, 0) != 1:
            return None   # atom with several definitions: the node meant by the name is ambiguous
        return lambda choice, T: name in T


def choice_line_ranks(program_lines):
    """{L: rank} of the clause identifiers L that occur in choice(L,...) atoms of the transformed
    program printed by explain (textual order = ascending L)"""
    ls = set()
    for line in program_lines:
        for m in re.finditer(r"choice\((\d+),", line):
            ls.add(int(m.group(1)))
    return {L: r for r, L in enumerate(sorted(ls))}


def judge_explain(prog, cond, out, st):
    """-> (symptom or None, detail)"""
    res = out["results"]
    for k, v in res.items():
        if isinstance(v, list):
            st["explain_result_is_interval"] = st.get("explain_result_is_interval", 0) + 1   # allowed by the statement
    sym, detail = judge_bounds(cond, res)
    if sym:
        return "explain-result:" + sym, detail
    blocks = parse_proofs(out["proofs"])
    if blocks is None:
        st["explain_unparsed"] = 1
        return None, "unjudged:proof-lines-not-understood"
    seen = set()
    for name, proofs in blocks:
        if name not in cond:
            if progcheck.is_nonground_key(name):
                p = 0.0
            else:
                return "explain-unexpected-query", "proofs listed for %s, which is no instance of any query" % name
        else:
            p = cond[name]
            seen.add(name)
        total = sum(pp for _, pp in proofs)
        st["proofs"] += len(proofs)
        # P is printed with 8 significant digits: relative rounding error <= 5e-8 per proof
        if abs(total - p) > TOL_VALUE + 5e-8 * total:
            return "explain-sum", "%s: %d proofs sum to %.10g, exact probability %.10g" % (name, len(proofs), total, p)
    for k, p in cond.items():
        if k not in seen and p > TOL_BOUND:
            return "explain-missing-query", "no proofs listed for %s (exact %.10g)" % (k, p)
    # every proof entails its query
    wt = WorldTable(prog)
    if not wt.two_valued:
        return None, "unjudged:not-two-valued"
    st["worlds"] = len(wt.worlds)
    lranks = choice_line_ranks(out["program"])
    for name, proofs in blocks:
        if name not in cond:
            continue
        for lits, pp in proofs:
            tests = []
            for sign, lname in lits:
                t = wt.literal_test(lname, lranks)
                if t is None:
                    tests = None
                    break
                tests.append((sign, t))
            if tests is None:
                st["proofs_unmapped"] += 1
                continue
            st["proofs_entailment_checked"] += 1
            for pw, choice, T in wt.worlds:
                if all(t(choice, T) == sign for sign, t in tests) and name not in T:
                    return ("explain-not-a-proof",
                            "%s :- %s holds in a world (probability %s) where %s is false"
                            % (name, ", ".join(("" if s else "\\+") + l for s, l in lits), float(pw), name))
    return None, ""


# ---------------------------------------------------------------------------------------------

def new_stats():
    return {"proofs": 0, "proofs_unmapped": 0, "proofs_entailment_checked": 0, "worlds": 0, "explain_unparsed": 0,
            "runs": 0, "intervals": 0, "values": 0}


def outcome_symptom(out):
    if out[0] == "error":
        return "error-must-answer:%s" % out[1]
    if out[0] == "crash":
        return "crash:%s@%s" % (out[1], out[2])
    return None


def check_program(prog, part=None, convergence=None):
    """part None: everything -> list of (symptom, detail, variant) (empty = all fine), skip reason,
    stats.  part 'kbest'/'explain': only that run (used for shrinking and replay)."""
    st = new_stats()
    if prog.get("evidence"):
        return [], "skip:evidence", st
    ref = progcheck.reference(prog)
    st["ref_worlds"] = ref["nworlds"]
    st["nchoices"] = ref["nchoices"]
    if ref["negcycle"]:
        return [], "skip:negative-cycle", st
    if ref["kind"] != "answer":
        return [], "skip:" + ref["kind"], st
    src = program_text(prog)
    dflt = infer(src, timeout=30)
    dsym, _ = progcheck.verdict(ref, dflt)
    if dsym is not None or dflt[0] != "ok":
        return [], "excluded:default-run-wrong:" + str(dsym or dflt[0]).split("@")[0], st
    cond = ref["cond"]
    found = []
    if part in (None, "kbest"):
        convs = CONVERGENCES if part is None else [convergence]
        for c in convs:
            out = run_kbest(src, c)
            st["runs"] += 1
            var = {"part": "kbest", "convergence": c}
            if out[0] in ("timeout", "recursion"):
                st[out[0]] = st.get(out[0], 0) + 1
                continue
            sym = outcome_symptom(out)
            if sym:
                found.append((sym, "k-best evaluation raised", var))
                continue
            for v in out[1].values():
                st["intervals" if isinstance(v, list) else "values"] += 1
            sym, detail = judge_bounds(cond, out[1])
            if sym:
                found.append((sym, detail, var))
    if part in (None, "explain"):
        out = run_explain(src)
        st["runs"] += 1
        var = {"part": "explain", "convergence": None}
        if out[0] in ("timeout", "recursion"):
            st[out[0]] = st.get(out[0], 0) + 1
        else:
            sym = outcome_symptom(out)
            if sym:
                found.append((sym, "explain raised", var))
            else:
                sym, detail = judge_explain(prog, cond, out[1], st)
                if sym:
                    found.append((sym, detail, var))
                elif detail.startswith("unjudged:"):
                    st[detail] = 1
    return found, "", st


class C23(Prop):
    pid = "C23"
    title = "k-best anytime bounds are sound and tight on completion; explanations sum to the exact probability"
    technique = ("bounded-exhaustive enumeration of evidence-free programs of the grammars F1/F2/F3 executed through the real "
                 "k-best evaluatable (default options and every larger convergence threshold of a fixed ladder, i.e. the "
                 "intermediate anytime bound pairs) and through the steps of the explain task; results compared with the "
                 "possible-world reference R1, proofs checked for entailment world by world")
    rule = ("states = judged programs (evidence-free, no cycle through negation, default inference correct); transitions = "
            "possible worlds enumerated by R1 per program (reference + entailment table); executions = k-best / explain "
            "runs (each several maxsatz calls; the maxsatz process is memoised per worker on its input file); "
            "non-trivial = at least one probabilistic choice, two worlds and at least one listed proof with a body")
    assumptions = ["a proof literal named choice(L,I,Head,...) is mapped to R1's clause instance through the rank of L among the "
                   "rewritten clauses and the head atom; literals that cannot be mapped unambiguously (choice_N fallback names, "
                   "atoms with several definitions, clause instances that differ only in body variables) leave the proof's "
                   "entailment unjudged (counted); its probability still enters the sum check",
                   "P=... of a proof is printed with 8 significant digits: the sum check allows 1e-8 + 5e-8 * sum",
                   "tightness of a returned interval is not part of the statement: widths are only counted",
                   "evidence is documented as unsupported by kbest/explain: programs with evidence are not enumerated"]
    families = {"quick": [("F2.3", 192), ("F3.1", 16), ("F2.2", 12), ("F1.1", 10), ("F1.1one", 8), ("F1.1dup", 6), ("F2.1", 2)],
                "thorough": [("F1.1one", 8), ("F2.4/16", 48), ("F1.2q/4", 64), ("F3.2/4", 64), ("F1.3s/4", 64), ("F2.3", 192), ("F3.1", 16),
                             ("F2.2", 12), ("F1.1", 10), ("F1.1dup", 6), ("F2.1", 2)]}
    budget = {"quick": 600, "thorough": 3600}

    def shards(self, tier):
        return [[fam, mod, r] for fam, mod in self.families[tier] for r in range(mod)]

    def run_shard(self, shard, tier, acc):
        fam, mod, rem = shard
        for idx, prog in streams.shard_stream(fam, tier, mod, rem):
            if acc.expired():
                acc.cap("wall budget reached in family %s" % fam)
                break
            if prog.get("evidence"):
                continue
            found, skip, st = check_program(prog)
            if skip:
                acc.counters[":".join(skip.split(":")[:3])] += 1
                continue
            acc.states += 1
            acc.evaluations += st["runs"]
            acc.traces += st["runs"]
            acc.transitions += st.get("ref_worlds", 0) + st["worlds"]
            if st.get("nchoices", 0) >= 1 and st.get("ref_worlds", 0) >= 2 and (st["proofs_entailment_checked"] + st["proofs_unmapped"]) >= 1:
                acc.nontrivial += 1
            for k in ("proofs", "proofs_unmapped", "proofs_entailment_checked", "intervals", "values", "timeout", "recursion",
                      "explain_unparsed", "explain_result_is_interval", "unjudged:not-two-valued", "unjudged:proof-lines-not-understood"):
                if st.get(k):
                    acc.counters[k] += st[k]
            acc.sample({"family": fam, "index": idx, "program": program_text(prog)}, limit=2)
            if not found:
                acc.outcomes["ok"] += 1
            done = set()
            for sym, detail, var in found:
                acc.outcomes["%s/%s" % (var["part"], sym.split("@")[0])] += 1
                if (sym, var["part"]) in done:
                    continue   # the same symptom under several convergence thresholds: report the first
                done.add((sym, var["part"]))
                self.report(prog, sym, var, acc)
        acc.counters["maxsatz_calls"] += _MAXSAT_STATS["miss"]
        acc.counters["maxsatz_memo_hits"] += _MAXSAT_STATS["hit"]
        _MAXSAT_STATS["miss"] = _MAXSAT_STATS["hit"] = 0

    @staticmethod
    def symptoms_of(prog, var):
        found, skip, st = check_program(prog, part=var["part"], convergence=var.get("convergence"))
        return found

    def report(self, prog, sym, var, acc):
        def fails(p):
            return any(s == sym for s, _, _ in self.symptoms_of(p, var))

        small = progcheck.minimise(prog, fails, limit=100, strong=True)
        # prefer the default options when the shrunk program also fails there
        if var["part"] == "kbest" and var.get("convergence") is not None:
            v0 = dict(var, convergence=None)
            if any(s == sym for s, _, _ in self.symptoms_of(small, v0)):
                var = v0
        detail = next((d for s, d, _ in self.symptoms_of(small, var) if s == sym), "")
        case = {"program": program_text(small), "ast": small, "variant": var}
        extra = None
        if sym.startswith("crash:"):
            case, extra = {"site": sym}, case
        acc.violation(sym, case, extra=extra, expected="value = exact probability / interval containing it / proofs summing to it",
                      observed=detail, what="%s [%s]: %s [%s]" % (sym, var, program_text(small), detail))

    def replay(self, case):
        found = self.symptoms_of(case["ast"], case["variant"])
        return dict(ok=not found, expected="value = exact probability / interval containing it / proofs summing to it",
                    observed=[{"symptom": s, "detail": d} for s, d, _ in found])


PROP = C23()
