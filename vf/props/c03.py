"""C03 grounding result is independent of the order sibling goals are explored (E1 choice tree
over permutations of every batch of sibling 'e' messages of the buffered engine)."""
from .schedbase import SchedProp


class C03(SchedProp):
    pid = "C03"
    title = "Grounding result is independent of the order sibling goals are explored"
    technique = ("stateless deviation-bounded choice-tree exploration of the real buffered engine: every batch of >=2 "
                 "sibling 'e' messages pushed on the MessageFIFO is a choice point over its permutations (identity = "
                 "default); all executions with <= d non-identity batches are run to completion and compared with the "
                 "default run and the possible-world reference")
    rule = ("programs of families F1-F4 whose default run is correct x all schedules with <= d deviations (quick d=1, "
            "thorough d=2; a choice tree with at most 32 / 256 combinations is explored completely); a deviation permutes one batch (all k! orders for k<=4); states = programs, transitions = "
            "choice points executed; non-trivial = program with >=1 choice point and >=1 probabilistic choice")
    assumptions = ["permutation happens in a MessageFIFO subclass installed through the documented init_message_stack "
                   "extension point, which reorders exactly the batches the anchor's env-guarded shuffle would",
                   "per-execution step horizon = 50x the default run's pops + 500; exceeding it is reported as livelock"]
    kinds = ["perm"]
    families = {"quick": [("FTC3", 42), ("FR", 32), ("FC3m", 48), ("F3.2", 96), ("F2.3", 192), ("F1.3s", 48), ("F1.2q", 96), ("F3.1", 8), ("F2.2", 8), ("F1.1", 4)],
                "thorough": [("FTC3", 42), ("F1.2q", 96), ("FR", 32), ("FC3m", 48), ("FC3g/64", 32), ("F3.3/64", 32), ("F2.4/32", 32), ("F3.2", 96), ("F2.3", 192), ("F1.3s", 48), ("F1.2/8", 64),
                             ("F3.1", 8), ("F2.2", 8), ("F1.1", 4)]}
    budget = {"quick": 300, "thorough": 2700}


PROP = C03()
