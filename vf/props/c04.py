"""C04 the documented arbitrary-order (unbuffered) evaluation modes agree with the default engine."""
from .schedbase import SchedProp


class C04(SchedProp):
    pid = "C04"
    title = "Documented arbitrary-order (unbuffered) evaluation agrees with default"
    technique = ("unbuffered depth-first and rc-first engines run once per program; the random choice-point order of "
                 "docs/source/engine.rst explored as a deviation-bounded choice tree (random.randint replaced by a "
                 "choice provider: which pending 'e' message is popped); every execution compared with the default "
                 "engine and the possible-world reference")
    rule = ("programs of families F1-F4 whose default run is correct x {unbuffered, rc_first} + all pop orders with <= d "
            "deviations from 'newest first' (quick d=1, thorough d=2; a choice tree with at most 32 / 256 combinations is explored completely; at most 400 / 4000 executions per program); states = programs, transitions = choice points")
    assumptions = ["per-execution step horizon = 50x the default run's pops + 500; exceeding it is reported as livelock"]
    kinds = ["choice"]
    fixed_kinds = ["unbuffered", "rc_first"]
    families = {"quick": [("FTC3", 42), ("FR", 32), ("FC3m", 48), ("F3.2", 96), ("F2.3", 192), ("F1.3s", 48), ("F1.2q", 96), ("F3.1", 8), ("F2.2", 8), ("F1.1", 4)],
                "thorough": [("FTC3", 42), ("FR", 32), ("FC3m", 48), ("F1.2q", 96), ("F3.3/64", 32), ("F2.4/32", 32), ("F3.2", 96), ("F2.3", 192), ("F1.3s", 48), ("F1.2/8", 64),
                             ("F3.1", 8), ("F2.2", 8), ("F1.1", 4)]}
    budget = {"quick": 300, "thorough": 2700}


PROP = C04()
