"""C28 Python <-> Prolog value conversion (E3: bounded-exhaustive enumeration of nested values).

(a) ``pl2py(py2pl(v)) == v`` with equal types, for every nested list / tuple value of the bounded space;
(b) a generated Python module exports functions with ``problog_export`` returning each value under every declared
    output type that can carry it; a generated program loads the module with ``:- use_module('<path>')`` and the
    functions are called through the engine (and, for a slice, through the full inference pipeline); the result
    term seen by ProbLog is converted back with ``pl2py`` and compared with the Python value.

Values are JSON-encoded in cases:  ["i", n] ["f", x] ["s", text] ["l", [items]] ["t", [items]]
"""
import os
import shutil
import signal
import tempfile

from ..core import Prop, watchdog, WatchdogTimeout

# the leaves of DESIGN C28 plus a whole float (7.0 == 7 in Python: an int/float confusion must show)
LEAVES = [0, -3, 7, 2.5, 7.0, 0.1 + 0.2, "", "a", "it's", 'say "hi"']
LEAVES_REP = [0, 7.0, 0.1 + 0.2, "a", "it's"]  # one per leaf class (int, whole float, 17-digit float, string, quoted string)
MAX_DEPTH = 3
CASE_WATCHDOG = 5


class cpu_watchdog(object):
    """like core.watchdog but counts CPU time of this process (ITIMER_PROF), so that it does not fire on a worker that
    is merely starved on a loaded machine"""

    def __init__(self, seconds):
        self.seconds = seconds

    def _handler(self, signum, frame):
        raise WatchdogTimeout()

    def __enter__(self):
        self.old = signal.signal(signal.SIGPROF, self._handler)
        signal.setitimer(signal.ITIMER_PROF, self.seconds)
        return self

    def __exit__(self, *exc):
        signal.setitimer(signal.ITIMER_PROF, 0)
        signal.signal(signal.SIGPROF, self.old)
        return False


# ------------------------------------------------------------------------------------------------
# value space: depth <= 3, <= 5 slots (a slot is a leaf or an empty container), containers of length != 1


def compositions(n, k):
    if k == 1:
        yield (n,)
        return
    for f in range(1, n - k + 2):
        for r in compositions(n - f, k - 1):
            yield (f,) + r


_VAL_CACHE = {}


def values(depth, slots, leaves):
    """list of all values of depth <= `depth` with exactly `slots` slots (memoised; only used for children)"""
    key = (depth, slots, len(leaves))
    if key not in _VAL_CACHE:
        _VAL_CACHE[key] = list(gen_values(depth, slots, leaves))
    return _VAL_CACHE[key]


def gen_values(depth, slots, leaves):
    if slots == 1:
        for x in leaves:
            yield x
        if depth >= 1:
            yield []
            yield ()
    if depth >= 1 and slots >= 2:
        for shape in shapes(slots):
            for v in gen_shape(depth, shape, leaves):
                yield v


def shapes(slots):
    """top-level shapes [kind, composition] of container values with `slots` >= 2 slots"""
    res = []
    for k in range(2, slots + 1):
        for comp in compositions(slots, k):
            for kind in ("l", "t"):
                res.append([kind, list(comp)])
    return res


def gen_shape(depth, shape, leaves, first_mod=None):
    """all values with the given top-level shape; first_mod = (m, r) keeps only those whose first child has
    index = r mod m in the child enumeration (for sharding)"""
    import itertools

    kind, comp = shape
    pools = [values(depth - 1, n, leaves) for n in comp]
    if first_mod is not None:
        m, r = first_mod
        pools[0] = pools[0][r::m]
    mk = list if kind == "l" else tuple
    for combo in itertools.product(*pools):
        yield mk(combo)


def shape_count(depth, shape, leaves):
    n = 1
    for c in shape[1]:
        n *= len(values(depth - 1, c, leaves))
    return n


def enc(v):
    if type(v) is int:
        return ["i", v]
    if type(v) is float:
        return ["f", v]
    if type(v) is str:
        return ["s", v]
    if type(v) is list:
        return ["l", [enc(x) for x in v]]
    if type(v) is tuple:
        return ["t", [enc(x) for x in v]]
    raise ValueError(v)


def dec(e):
    k, x = e
    if k == "i":
        return int(x)
    if k == "f":
        return float(x)
    if k == "s":
        return str(x)
    if k == "l":
        return [dec(y) for y in x]
    if k == "t":
        return tuple(dec(y) for y in x)
    raise ValueError(e)


def same(a, b):
    """equal value and equal types, recursively"""
    if type(a) is not type(b):
        return False
    if type(a) in (list, tuple):
        return len(a) == len(b) and all(same(x, y) for x, y in zip(a, b))
    return a == b


def in_statement(v, top=True):
    """the statement quantifies over nested lists and tuples of length != 1 of ints, floats, strings"""
    if type(v) in (int, float, str):
        return True
    if type(v) in (list, tuple):
        return len(v) != 1 and all(in_statement(x, False) for x in v)
    return False


# ------------------------------------------------------------------------------------------------
# (a) plain round trip


def diffs(v, back, out=None):
    """the kinds of difference between a value and what came back, over all positions that can be aligned:
    str-value / float-value / int-value (same leaf type, other value), number-type (int <-> float), leaf-type,
    container-type (list <-> tuple), structure (lengths / nesting differ; not descended)"""
    out = set() if out is None else out
    cv, cb = type(v) in (list, tuple), type(back) in (list, tuple)
    if cv and cb:
        if type(v) is not type(back):
            out.add("container-type")
        if len(v) != len(back):
            out.add("structure")
        else:
            for x, y in zip(v, back):
                diffs(x, y, out)
    elif cv or cb:
        out.add("structure")
    elif type(v) is type(back):
        if v != back:
            out.add(type(v).__name__ + "-value")
    elif type(v) in (int, float) and type(back) in (int, float):
        out.add("number-type")
        if v != back:
            out.add(type(v).__name__ + "-value")
    else:
        out.add("leaf-type")
    return out


def roundtrip(v):
    """-> ("ok",) | ("diff", sorted kinds, back) | ("crash", cls, site) | ("error", cls)"""
    from problog.pypl import py2pl, pl2py
    from ..plrun import classify_exception

    try:
        back = pl2py(py2pl(v))
    except Exception as exc:  # noqa
        return classify_exception(exc)
    if same(back, v):
        return ("ok",)
    return ("diff", sorted(diffs(v, back)) or ["other"], back)


def rt_symptoms(r):
    if r[0] == "ok":
        return []
    if r[0] == "diff":
        return ["roundtrip-" + k for k in r[1]]
    if r[0] == "crash":
        return ["roundtrip-crash:%s@%s" % (r[1], r[2])]
    return ["roundtrip-error:%s" % r[1]]


def value_candidates(v):
    """strictly simpler values inside the statement's space, fixed order"""
    if type(v) in (list, tuple):
        mk = type(v)
        for x in v:  # a child instead of the container
            yield x
        if len(v) > 2:  # drop one element (length stays != 1)
            for i in range(len(v)):
                yield mk(v[:i] + v[i + 1:])
        if len(v) == 2:
            yield mk()
        if type(v) is tuple:
            yield list(v)
        yield LEAVES[0]
        for i, x in enumerate(v):
            for x2 in value_candidates(x):
                yield mk(v[:i] + mk([x2]) + v[i + 1:])
    else:
        for leaf in LEAVES:
            if leaf == v and type(leaf) is type(v):
                break
            yield leaf


def shrink_value(v, fails, memo):
    path = []
    while True:
        k = repr(v)
        if k in memo:
            res = memo[k]
            break
        path.append(k)
        nxt = None
        for c in value_candidates(v):
            if fails(c):
                nxt = c
                break
        if nxt is None:
            res = v
            break
        v = nxt
    for k in path:
        memo[k] = res
    return res


# ------------------------------------------------------------------------------------------------
# (b) exported functions

MODULE_TEMPLATE = '''# generated by /verif/vf/props/c28.py - values returned by exported functions
from problog.extern import problog_export
from problog.pypl import py2pl

VALUES = %s


@problog_export("+int", "-int")
def ret_int(i):
    return VALUES[i]


@problog_export("+int", "-float")
def ret_float(i):
    return VALUES[i]


@problog_export("+int", "-str")
def ret_str(i):
    return VALUES[i]


@problog_export("+int", "-list")
def ret_list(i):
    return VALUES[i]


@problog_export("+int", "-list")
def ret_wrapped(i):
    return [VALUES[i]]


@problog_export("+int", "-term")
def ret_term(i):
    return py2pl(VALUES[i])


@problog_export("+int", "-term", "-list")
def ret_two(i):
    return py2pl(VALUES[i]), [VALUES[i], VALUES[i]]
'''

PROGRAM_TEMPLATE = """:- use_module('%s').
via(int, I, X) :- ret_int(I, X).
via(float, I, X) :- ret_float(I, X).
via(str, I, X) :- ret_str(I, X).
via(list, I, X) :- ret_list(I, X).
via(wrapped, I, X) :- ret_wrapped(I, X).
via(term, I, X) :- ret_term(I, X).
"""

# signature -> (function, which Python values it can carry, how the Python result relates to the value)
SIGS = ["int", "float", "str", "list", "wrapped", "term", "two"]


def carries(sig, v):
    if sig == "int":
        return type(v) is int
    if sig == "float":
        return type(v) is float
    if sig == "str":
        return type(v) is str
    if sig == "list":
        return type(v) is list
    return True  # wrapped / term / two carry every value


def expected_results(sig, v):
    """the Python result(s) of the exported function, one per output argument"""
    if sig == "wrapped":
        return [[v]]
    if sig == "two":
        return [v, [v, v]]
    return [v]


class ExportHarness(object):
    """one generated module + program; a fresh engine / database after any exception"""

    def __init__(self, vals):
        self.vals = vals
        self.dir = tempfile.mkdtemp(prefix="vf_c28_")
        self.path = os.path.join(self.dir, "c28mod.py")
        with open(self.path, "w") as f:
            f.write(MODULE_TEMPLATE % (repr(vals),))
        self.program = PROGRAM_TEMPLATE % (self.path,)
        self.modules = 1
        self._fresh()

    def _fresh(self):
        from problog.engine import DefaultEngine
        from problog.program import PrologString

        self.engine = DefaultEngine()
        self.db = self.engine.prepare(PrologString(self.program))

    def close(self):
        shutil.rmtree(self.dir, ignore_errors=True)

    def call(self, sig, i, bound=None, via=False):
        """-> ("ok", [tuple of output terms per answer]) | ("error", cls) | ("crash", cls, site) | ("timeout",)"""
        from problog.logic import Term, Constant
        from ..plrun import classify_exception

        nout = 2 if sig == "two" else 1
        outs = list(bound) if bound is not None else [None] * nout
        if via:
            goal = Term("via", Term(sig), Constant(i), *outs)
            skip = 2
        else:
            goal = Term("ret_" + sig, Constant(i), *outs)
            skip = 1
        try:
            with cpu_watchdog(CASE_WATCHDOG):
                res = self.engine.query(self.db, goal)
            return ("ok", [tuple(r[skip:]) for r in res])
        except WatchdogTimeout:
            self._fresh()
            return ("timeout",)
        except RecursionError:
            self._fresh()
            return ("crash", "RecursionError", "?")
        except Exception as exc:  # noqa
            out = classify_exception(exc)
            self._fresh()
            return out

    def pipeline(self, sig, idxs):
        """full inference: query(ret_<sig>(i, X)) for all i at once -> {i: [output terms]} or an error tuple"""
        from problog.program import PrologString
        from problog import get_evaluatable
        from ..plrun import classify_exception

        src = self.program + "".join("query(ret_%s(%d,%s)).\n" % (sig, i, "X,Y" if sig == "two" else "X") for i in idxs)
        try:
            with watchdog(600):  # wall clock: the compiler may run as a subprocess
                res = get_evaluatable().create_from(PrologString(src)).evaluate()
        except WatchdogTimeout:
            return ("timeout",)
        except Exception as exc:  # noqa
            return classify_exception(exc)
        out = {}
        for q, p in res.items():
            out.setdefault(int(q.args[0]), []).append((tuple(q.args[1:]), p))
        return ("ok", out)


def judge_output(sig, pos, term, pyval):
    """-> None if the term ProbLog sees stands for exactly `pyval`, else (kind, observed)"""
    from problog.logic import Term, Constant, Var
    from problog.pypl import pl2py
    from ..plrun import classify_exception

    if sig == "str" and pos == 0:
        # a Python str returned through '-str' is an atom (test/extern_lib.py: concat_str(a,b,ab)); accepted: an
        # atom or a string constant spelling exactly the Python string
        if isinstance(term, Constant):
            ok = type(term.functor) is str and term.functor in ('"%s"' % pyval, "'%s'" % pyval)
        elif isinstance(term, Term) and not isinstance(term, Var) and term.arity == 0:
            ok = type(term.functor) is str and term.functor in (pyval, "'%s'" % pyval)
        else:
            ok = False
        return None if ok else ("wrong-value", repr(term))
    try:
        back = pl2py(term)
    except Exception as exc:  # noqa
        c = classify_exception(exc)
        return ("crash:%s" % (c[1],), "pl2py raised %s" % (c[1],))
    if same(back, pyval):
        return None
    if type(back) not in (int, float, str, list, tuple):
        return ("not-a-value", "%r (%s)" % (back, type(back).__name__))
    return ("+".join(sorted(diffs(pyval, back))) or "other", "%r (%s)" % (back, type(back).__name__))


def export_check(h, sig, i, v):
    """all observations of one (signature, value): direct call, call through a clause, call with the outputs bound to
    the returned terms.  -> list of (symptom, observed)"""
    exp = expected_results(sig, v)
    problems = []
    direct = h.call(sig, i)
    if direct[0] == "timeout":
        return [("unjudged-watchdog", "no answer within %d s" % CASE_WATCHDOG)]
    if direct[0] != "ok":
        return [("export-%s:%s" % (":".join(str(x) for x in direct[:2]), sig), repr(direct))]
    if len(direct[1]) != 1:
        return [("export-answers:%s" % sig, "%d answers" % len(direct[1]))]
    outs = direct[1][0]
    for pos, (t, pv) in enumerate(zip(outs, exp)):
        bad = judge_output(sig, pos, t, pv)
        if bad:
            problems.append(("export-%s:%s" % (bad[0], sig), "output %d seen as %s, i.e. %s" % (pos, t, bad[1])))
    if problems:
        return problems
    if sig != "two":
        viar = h.call(sig, i, via=True)
        if viar[0] == "timeout":
            return [("unjudged-watchdog", "no answer within %d s" % CASE_WATCHDOG)]
        if viar[0] != "ok" or len(viar[1]) != 1 or repr(viar[1][0]) != repr(outs):
            problems.append(("export-via-clause:%s" % sig, "direct %r, through a clause %r" % (outs, viar)))
    boundr = h.call(sig, i, bound=outs)
    if boundr[0] == "timeout":
        return [("unjudged-watchdog", "no answer within %d s" % CASE_WATCHDOG)]
    if boundr[0] != "ok" or len(boundr[1]) != 1:
        problems.append(("export-bound-output:%s" % sig,
                         "calling with the output bound to the returned term %s gives %r" % (list(outs), boundr)))
    other = other_outputs(sig, v, outs)
    otherr = h.call(sig, i, bound=other)
    if otherr[0] == "ok" and otherr[1]:
        problems.append(("export-bound-other:%s" % sig,
                         "calling with the output bound to another value %s succeeds: %r" % (list(other), otherr[1])))
    return problems


def other_outputs(sig, v, outs):
    """output terms of the right type that differ from what the function returns (the call must not succeed)"""
    from problog.logic import Term, Constant, list2term

    if sig == "int":
        return [Constant(v + 1)]
    if sig == "float":
        return [Constant(v + 1.5)]
    if sig == "list":
        return [list2term(list(v) + [0])]
    if sig == "wrapped":
        return [list2term([v, 0])]
    if sig == "two":
        return [Term("zz_other"), outs[1]]
    return [Term("zz_other")]  # str, term


# ------------------------------------------------------------------------------------------------


def export_values(tier):
    """values returned by exported functions: all of <= 3 slots (quick) / <= 4 slots over the representative leaves
    plus all of <= 3 slots over all leaves (thorough), depth <= 3"""
    vals = []
    seen = set()

    def add(v):
        k = repr(v)
        if k not in seen:
            seen.add(k)
            vals.append(v)

    for n in (1, 2, 3):
        for v in gen_values(MAX_DEPTH, n, LEAVES):
            add(v)
    if tier == "thorough":
        for v in gen_values(MAX_DEPTH, 4, LEAVES_REP):
            add(v)
    else:
        for v in gen_values(2, 4, [0, 0.1 + 0.2, "it's"]):
            add(v)
    return vals


EXPORT_SHARDS = {"quick": 32, "thorough": 64}
SPLIT = 60000  # largest number of values of one round-trip shard


class C28(Prop):
    pid = "C28"
    title = "Python and Prolog values convert losslessly"
    technique = ("bounded-exhaustive enumeration of nested Python values on the real py2pl / pl2py and on functions "
                 "exported with problog_export from generated modules, loaded by generated programs and called "
                 "through the engine and the inference pipeline; reference = the Python value itself (typed equality)")
    rule = ("every list / tuple nesting of depth <= 3 with <= 5 slots (leaf or empty container), container length "
            "!= 1, leaves {0,-3,7,2.5,7.0,0.1+0.2,'','a',\"it's\",'say \"hi\"'} (quick: <= 4 slots over all leaves, 5 "
            "slots over one leaf per class {0,7.0,0.1+0.2,'a',\"it's\"}); exported functions: every value of <= 3 slots "
            "(+ 4 slots over representative leaves) x every output signature that can carry it (-int,-float,-str,"
            "-list,-list wrapping,-term,-term with -list) x {direct call, through a clause, output bound to the "
            "result, output bound to another value}, and a slice of 40 values per signature and module through the "
            "full inference pipeline; a value is non-trivial when it is a container, a float or a quoted string")
    assumptions = [
        "tuples of length 1 are outside the statement and never generated",
        "'-str' results are judged as atoms spelling the string (maintainers' corpus expectation test/extern_test.pl), "
        "not through pl2py",
        "'-term' functions return py2pl(value) (a Term is what the signature documents)",
        "export of a value whose plain pl2py(py2pl(v)) already differs is counted as excluded_by_roundtrip "
        "(same conversion code; reported once under the round trip)",
        "a structure difference hides differences below it (positions can not be aligned)",
    ]
    budget = {"quick": 240, "thorough": 2400}

    def _leafsets(self, tier):
        if tier == "thorough":
            return [(n, LEAVES) for n in range(1, 6)]
        return [(n, LEAVES) for n in range(1, 5)] + [(5, LEAVES_REP)]

    def shards(self, tier):
        res = []
        for i in range(EXPORT_SHARDS[tier]):
            res.append(["export", i, EXPORT_SHARDS[tier]])
        for n, leaves in self._leafsets(tier):
            tag = "all" if leaves is LEAVES else "rep"
            if n == 1:
                res.append(["rt1", tag])
                continue
            for shape in shapes(n):
                cnt = shape_count(MAX_DEPTH, shape, leaves)
                m = 1
                first = len(values(MAX_DEPTH - 1, shape[1][0], leaves))
                while cnt / m > SPLIT and m < first:
                    m += 1
                for r in range(m):
                    res.append(["rt", tag, shape, m, r])
        return res

    # -- (a) ---------------------------------------------------------------------------------------
    def _run_rt(self, vals, acc, label):
        memo = {}
        first = True
        for v in vals:
            acc.evaluations += 1
            acc.states += 1
            acc.transitions += 2
            if first:
                acc.sample({"roundtrip": label, "first": enc(v)})
                first = False
            if (acc.evaluations & 4095) == 0 and acc.expired():
                acc.cap("wall budget reached inside shard")
                break
            if not in_statement(v):
                acc.counters["unjudged:outside-statement"] += 1
                continue
            r = roundtrip(v)
            acc.traces += 1
            if type(v) in (list, tuple, float) or (type(v) is str and ("'" in v or '"' in v)):
                acc.nontrivial += 1
            if r[0] == "ok":
                acc.outcomes["rt:ok:" + type(v).__name__] += 1
                continue
            for sym in rt_symptoms(r):
                acc.outcomes["rt:" + sym] += 1
                small = shrink_value(v, lambda c: in_statement(c) and sym in rt_symptoms(roundtrip(c)),
                                     memo.setdefault(sym, {}))
                r2 = roundtrip(small)
                acc.violation(sym, {"kind": "roundtrip", "value": enc(small)},
                              expected="pl2py(py2pl(v)) == %r" % (small,), observed=self._obs(r2),
                              what="pl2py(py2pl(%r)) gives %s" % (small, self._obs(r2)))

    @staticmethod
    def _obs(r):
        if r[0] == "diff":
            return "%r (%s)" % (r[2], type(r[2]).__name__)
        return repr(r)

    # -- (b) ---------------------------------------------------------------------------------------
    def _run_export(self, i, n, tier, acc):
        allv = export_values(tier)
        vals = allv[i::n]
        if not vals:
            return
        h = ExportHarness(vals)
        acc.counters["modules_generated"] += 1
        try:
            acc.sample({"export_shard": i, "values": len(vals), "first": enc(vals[0]), "module": "c28mod.py"})
            memo = {}
            for j, v in enumerate(vals):
                if acc.expired():
                    acc.cap("wall budget reached inside shard")
                    break
                acc.states += 1
                if roundtrip(v)[0] != "ok":
                    acc.counters["excluded_by_roundtrip"] += 1
                    continue
                for sig in SIGS:
                    if not carries(sig, v):
                        continue
                    acc.evaluations += 1
                    acc.traces += 1
                    acc.transitions += 4  # direct call, through a clause, output bound to the result / another value
                    acc.nontrivial += 1
                    probs = export_check(h, sig, j, v)
                    if probs and probs[0][0] == "unjudged-watchdog":
                        acc.counters["unjudged:watchdog"] += 1
                        acc.cap("per-case watchdog (%d s CPU) fired: those calls are not judged (unjudged:watchdog)"
                                % CASE_WATCHDOG)
                        continue
                    if not probs:
                        acc.outcomes["export:ok:" + sig] += 1
                        continue
                    for sym, obs in probs:
                        acc.outcomes[sym] += 1
                        small = self._shrink_export(v, sig, sym, memo)
                        if small is not v:
                            obs = self._observe_export(small, sig, sym) or obs
                        acc.violation(sym, {"kind": "export", "sig": sig, "value": enc(small)},
                                      expected="ret_%s seen from ProbLog as %r" % (sig, expected_results(sig, small)),
                                      observed=obs, what="exported function (%s) returning %r: %s" % (sig, small, obs))
            # a slice through the full pipeline (parse, ground, compile, evaluate), all queries at once
            self._pipeline(h, vals, acc, memo)
        finally:
            h.close()

    def _pipeline(self, h, vals, acc, memo=None):
        memo = {} if memo is None else memo
        for sig in SIGS:
            idxs = [j for j, v in enumerate(vals) if carries(sig, v) and roundtrip(v)[0] == "ok"][:40]
            if not idxs:
                continue
            res = h.pipeline(sig, idxs)
            acc.evaluations += 1
            acc.transitions += len(idxs)
            if res[0] == "timeout":
                acc.counters["unjudged:pipeline-watchdog"] += 1
                acc.cap("pipeline watchdog (600 s) fired: that batch of queries is not judged")
                continue
            if res[0] != "ok":
                acc.outcomes["pipeline-" + ":".join(str(x) for x in res[:2])] += 1
                acc.violation("export-pipeline-%s:%s" % (":".join(str(x) for x in res[:2]), sig),
                              {"kind": "pipeline", "sig": sig, "values": [enc(vals[j]) for j in idxs[:3]]},
                              expected="queries answered", observed=repr(res),
                              what="inference over exported function %s fails: %r" % (sig, res))
                continue
            for j in idxs:
                acc.traces += 1
                ans = res[1].get(j, [])
                exp = expected_results(sig, vals[j])
                bad = None
                if len(ans) != 1 or abs(ans[0][1] - 1.0) > 1e-9:
                    bad = ("export-pipeline-answers:%s" % sig, "answers %r" % (ans,))
                else:
                    for pos, (t, pv) in enumerate(zip(ans[0][0], exp)):
                        b = judge_output(sig, pos, t, pv)
                        if b:
                            bad = ("export-pipeline-%s:%s" % (b[0], sig), "output %d seen as %s, i.e. %s" % (pos, t, b[1]))
                            break
                if bad is None:
                    acc.outcomes["pipeline:ok:" + sig] += 1
                else:
                    acc.outcomes[bad[0]] += 1
                    small = self._shrink_pipeline(vals[j], sig, bad[0], memo)
                    p2 = self._pipeline_problem(small, sig)
                    obs = p2[1] if p2 and p2[0] == bad[0] else bad[1]
                    if not (p2 and p2[0] == bad[0]):
                        small = vals[j]  # only reproduces inside the batch of queries: keep the original value
                    acc.violation(bad[0], {"kind": "pipeline", "sig": sig, "values": [enc(small)]},
                                  expected="query(ret_%s(0,X)) answered with %r" % (sig, expected_results(sig, small)),
                                  observed=obs,
                                  what="inference over exported function (%s) returning %r: %s" % (sig, small, obs))

    @staticmethod
    def _observe_export(v, sig, sym):
        h = ExportHarness([v])
        try:
            for s, obs in export_check(h, sig, 0, v):
                if s == sym:
                    return obs
        finally:
            h.close()
        return None

    @staticmethod
    def _pipeline_problem(v, sig):
        """-> (symptom, observed) of the full-pipeline query on one value, or None"""
        h = ExportHarness([v])
        try:
            res = h.pipeline(sig, [0])
        finally:
            h.close()
        if res[0] == "timeout":
            return None
        if res[0] != "ok":
            return ("export-pipeline-%s:%s" % (":".join(str(x) for x in res[:2]), sig), repr(res))
        ans = res[1].get(0, [])
        exp = expected_results(sig, v)
        if len(ans) != 1 or abs(ans[0][1] - 1.0) > 1e-9:
            return ("export-pipeline-answers:%s" % sig, "answers %r" % (ans,))
        for pos, (t, pv) in enumerate(zip(ans[0][0], exp)):
            b = judge_output(sig, pos, t, pv)
            if b:
                return ("export-pipeline-%s:%s" % (b[0], sig), "output %d seen as %s, i.e. %s" % (pos, t, b[1]))
        return None

    def _shrink_pipeline(self, v, sig, sym, memo):
        def fails(c):
            if not in_statement(c) or not carries(sig, c) or roundtrip(c)[0] != "ok":
                return False
            p = self._pipeline_problem(c, sig)
            return p is not None and p[0] == sym

        return shrink_value(v, fails, memo.setdefault(("pipeline", sig, sym), {}))

    def _shrink_export(self, v, sig, sym, memo):
        def fails(c):
            if not in_statement(c) or not carries(sig, c) or roundtrip(c)[0] != "ok":
                return False
            h = ExportHarness([c])
            try:
                return any(s == sym for s, _ in export_check(h, sig, 0, c))
            finally:
                h.close()

        key = (sig, sym)
        return shrink_value(v, fails, memo.setdefault(key, {}))

    # -- driver ------------------------------------------------------------------------------------
    def run_shard(self, shard, tier, acc):
        kind = shard[0]
        if kind == "export":
            self._run_export(shard[1], shard[2], tier, acc)
        elif kind == "rt1":
            leaves = LEAVES if shard[1] == "all" else LEAVES_REP
            self._run_rt(gen_values(MAX_DEPTH, 1, leaves), acc, shard)
        elif kind == "rt":
            _, tag, shape, m, r = shard
            leaves = LEAVES if tag == "all" else LEAVES_REP
            self._run_rt(gen_shape(MAX_DEPTH, shape, leaves, (m, r) if m > 1 else None), acc, shard)
        else:
            raise ValueError(shard)

    def replay(self, case):
        kind = case.get("kind")
        if kind == "roundtrip":
            v = dec(case["value"])
            r = roundtrip(v)
            return dict(ok=r[0] == "ok", expected="pl2py(py2pl(v)) == %r (equal types)" % (v,),
                        observed="equal" if r[0] == "ok" else self._obs(r))
        if kind in ("export", "pipeline"):
            vals = [dec(e) for e in (case["values"] if kind == "pipeline" else [case["value"]])]
            sig = case["sig"]
            h = ExportHarness(vals)
            try:
                if kind == "export":
                    probs = export_check(h, sig, 0, vals[0])
                    return dict(ok=not probs, expected="ret_%s seen from ProbLog as %r" % (sig, expected_results(sig, vals[0])),
                                observed="as expected" if not probs else "; ".join("%s: %s" % p for p in probs))
                res = h.pipeline(sig, list(range(len(vals))))
                bad = []
                if res[0] != "ok":
                    bad.append(repr(res))
                else:
                    for j, v in enumerate(vals):
                        ans = res[1].get(j, [])
                        exp = expected_results(sig, v)
                        if len(ans) != 1 or abs(ans[0][1] - 1.0) > 1e-9:
                            bad.append("answers %r" % (ans,))
                            continue
                        for pos, (t, pv) in enumerate(zip(ans[0][0], exp)):
                            b = judge_output(sig, pos, t, pv)
                            if b:
                                bad.append("output %d seen as %s, i.e. %s" % (pos, t, b[1]))
                return dict(ok=not bad, expected="queries on ret_%s answered with the Python values %r" % (sig, vals),
                            observed="as expected" if not bad else "; ".join(bad))
            finally:
                h.close()
        raise ValueError("unknown case kind %r" % (kind,))


PROP = C28()
