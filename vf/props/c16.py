"""C16 — arithmetic (is/2, comparisons) and term-inspection builtins agree with Yap/SWI-Prolog.

E3: bounded-exhaustive enumeration of builtin calls, executed on the real implementation through
``vf.plrun.BuiltinHarness`` and judged by the reference model R6 (``vf/ref/arith.py``).

Case formats (JSON, self-contained):
    {"k": "is",   "e": <expr tree>, "lhs": null | number}         X is E   /   N is E
    {"k": "cmp",  "op": "<", "a": <expr>, "b": <expr>}            A < B
    {"k": "call", "p": "succ", "args": [<term>, ...]}             succ(A, B)
    {"k": "type", "p": "atom", "arg": <term>}                     atom(T)
"""
import itertools
import math
import os
import re

from ..core import Prop, shrink, REPO, canon
from ..ref import arith as R

# ---------------------------------------------------------------------------------------------
# alphabets

Q_INTS = [-7, -2, -1, 0, 1, 2, 3, 7]
Q_FLOATS = [-2.5, -0.5, 0.0, 0.5, 1.5, 2.0, 2.5]
# operands for the error clauses of the statement: overflow, unbound, non-numbers, inf/nan
EXTREME = [1000, -1000, 2 ** 70, 1.0e308, -1.0e308]
SPECIAL = [{"v": "Y"}, {"a": "foo"}, ["inf"], ["nan"]]

T_INTS = sorted(set(list(range(-12, 13)) + [s * v for s in (1, -1) for v in
                                              (16, 31, 32, 63, 64, 100, 255, 1000, 2 ** 31, 2 ** 62, 2 ** 63,
                                               2 ** 64, 2 ** 70, 10 ** 20)]))
T_FLOATS = sorted(set([x / 4.0 for x in range(-16, 17)] + [s * v for s in (1, -1) for v in
                                                             (0.1, 0.3, 1.0e-3, 7.5, 10.5, 123.456, 1.0e10, 1.0e22,
                                                              1.0e308)]))

Q_TREE_BIN = ["+", "-", "*", "//", "mod", "min"]
Q_TREE_UN = ["abs"]
Q_TREE_LEAVES = [-2, 3, 0.5]
T_TREE_BIN = ["+", "-", "*", "//", "mod", "min", "max", "/", "div", "rem"]
T_TREE_UN = ["abs", "sign", "truncate", "-"]
T_TREE_LEAVES = [-2, 3, 0.5, 0, -0.5, 7]


def operands(tier):
    if tier == "quick":
        return Q_INTS + Q_FLOATS + EXTREME + SPECIAL
    return T_INTS + T_FLOATS + SPECIAL


def grid_numbers(tier):
    return Q_INTS + Q_FLOATS if tier == "quick" else T_INTS + T_FLOATS


def tree_params(tier):
    if tier == "quick":
        return Q_TREE_BIN, Q_TREE_UN, Q_TREE_LEAVES, 4
    return T_TREE_BIN, T_TREE_UN, T_TREE_LEAVES, 24


def depth1_terms(tier):
    bins, uns, leaves, _ = tree_params(tier)
    d1 = []
    for op in bins:
        for a in leaves:
            for b in leaves:
                d1.append([op, a, b])
    for op in uns:
        for a in leaves:
            d1.append([op, a])
    return list(leaves), d1


# --- terms ------------------------------------------------------------------------------------

def V(n):
    return {"v": n}


def A(n):
    return {"a": n}


def F(f, *x):
    return {"f": f, "x": list(x)}


def L(*e):
    return {"l": list(e)}


def PL(tail, *e):
    return {"l": list(e), "t": tail}


OWN = {"v": "_OWN"}  # replaced by a variable private to the argument position

# shape alphabet: unbound var (shared / private), atom, int, negative int, float, list,
# partial list, improper list, compound
Q_TERMS = [
    V("X"), OWN, A("a"), A("foo"), A("[]"), 0, 1, 2, 3, -1, -2, 1.5, 2.0,
    L(A("a")), L(A("a"), A("b")), L(A("f"), V("X")), L(1, 2),
    PL(V("T"), A("a")), PL(V("T"), A("a"), A("b")), PL(A("b"), A("a")),
    F("f", A("a")), F("f", A("a"), A("b")), F("f", V("X"), A("b")), F("g", F("f", A("a"))), F("-", 1),
]
T_TERMS = Q_TERMS + [
    A("b"), A("hello world"), 4, 7, -7, -2.5, 0.0,
    L(A("a"), A("b"), A("c")), L(V("X"), V("X")), L(L(A("a"))), L(A("f"), A("a"), A("b")),
    PL(V("T"), V("X")), PL(V("T"), 1), PL(V("X"), A("a")),
    F("g", A("a"), A("b"), A("c")), F("f", F("f", V("X"))), F("f", V("X"), V("X")), F("h", 1.5), F("p", -1),
    F("-", 1.5), F("f", V("U"), V("W")),
]
EXTRA = {
    # second argument of =..  (lists whose head is an atom / number / compound / variable)
    ("=..", 1): [L(A("f"), A("a"), A("b")), L(A("a")), L(1), L(1.5), L(F("f", A("a"))), L(V("X")),
                 L(V("X"), A("a")), L(A("g"), V("X")), PL(V("T"), A("f")), L(A("f"), OWN, OWN)],
    ("atom_number", 0): [A("12"), A("0"), A("1.5"), A("-3"), A("12.0"), A("2.0"), A("-2.5"), A("007"), A("12abc"),
                         A("a1"), A("pi"), A("inf"), A("nan"), A("1e3"), A("0x1A"), A("+3"), A(" 12"), A("1."),
                         A(".5"), A("1_0"), A("1.0e10"), A("e")],
    ("atom_number", 1): [12, -3, 12.0, 1.0e10, 7],
    ("functor", 1): [A("."), A("-")],
    ("arg", 1): [F("f", V("X"), V("X")), F("f", F("g", V("X")))],
    ("arg", 2): [F("g", A("a"))],
    ("length", 0): [L(), L(V("X"), OWN)],
    ("between", 2): [4, 5],
}
PREDS = [("between", 3), ("succ", 2), ("plus", 3), ("length", 2), ("functor", 3), ("arg", 3), ("=..", 2),
         ("atom_number", 2)]


def terms_for(pred, pos, tier):
    base = Q_TERMS if tier == "quick" else T_TERMS
    out = list(base) + EXTRA.get((pred, pos), [])
    return [_own(t, pos) for t in out]


def _own(t, pos):
    """rename the private-variable placeholder to P<pos> (inside nested structures as well)"""
    if isinstance(t, dict):
        if t.get("v") == "_OWN":
            return {"v": "P%d" % (pos + 1)}
        if "f" in t:
            return {"f": t["f"], "x": [_own(a, pos) for a in t["x"]]}
        if "l" in t:
            r = {"l": [_own(a, pos) for a in t["l"]]}
            if "t" in t:
                r["t"] = _own(t["t"], pos)
            return r
    return t


# ---------------------------------------------------------------------------------------------
# executing and judging one case

_H = [None]
WRAP = {"=..": "c16w_univ"}


def wrapper_program():
    """one clause per builtin: c16w_succ(A,B) :- succ(A,B).  A call through such a clause shows the
    answer substitution a program sees (the engine unifies the builtin's result with the call)."""
    lines = []
    for pred, ar in PREDS + [(t, 1) for t in R.TYPE_TESTS]:
        vs = ",".join("ABC"[:ar])
        body = "A =.. B" if pred == "=.." else "%s(%s)" % (pred, vs)
        lines.append("%s(%s) :- %s." % (WRAP.get(pred, "c16w_" + pred), vs, body))
    return "\n".join(lines) + "\n"


def harness(wrapped=False):
    """two prepared databases: an empty one for direct calls and one holding the wrapper clauses
    (re-creating the engine after an error costs 0.5 ms on the first, 3 ms on the second)"""
    if _H[0] is None:
        from ..plrun import BuiltinHarness

        try:  # safety net for the shared machine: no worker may grow beyond 6 GB
            import resource

            soft, hard = resource.getrlimit(resource.RLIMIT_AS)
            cap = 6 * 2 ** 30
            if soft == resource.RLIM_INFINITY or soft > cap:
                resource.setrlimit(resource.RLIMIT_AS, (cap if hard == resource.RLIM_INFINITY else min(cap, hard), hard))
        except Exception:  # noqa
            pass

        _H[0] = {False: BuiltinHarness(), True: BuiltinHarness(wrapper_program())}
    return _H[0][wrapped]


def goal_text(case):
    k = case["k"]
    if k == "is":
        lhs = "X" if case.get("lhs") is None else R.fmt_num(case["lhs"])
        return "%s is %s" % (lhs, R.expr_text(case["e"]))
    if k == "cmp":
        return "(%s) %s (%s)" % (R.expr_text(case["a"]), case["op"], R.expr_text(case["b"]))
    if k == "call":
        if case.get("via") == "clause":
            return "%s(%s)" % (WRAP.get(case["p"], "c16w_" + case["p"]), ", ".join(R.term_text(a) for a in case["args"]))
        if case["p"] == "=..":
            return "%s =.. %s" % tuple(R.term_text(a) for a in case["args"])
        return "%s(%s)" % (case["p"], ", ".join(R.term_text(a) for a in case["args"]))
    if k == "type":
        if case.get("via") == "clause":
            return "c16w_%s(%s)" % (case["p"], R.term_text(case["arg"]))
        return "%s(%s)" % (case["p"], R.term_text(case["arg"]))
    raise ValueError(k)


def execute(text):
    h = harness(text.startswith("c16w_"))
    try:
        t = h.parse(text)
    except Exception as exc:  # the parser is C17's business
        return ("unparsable", type(exc).__name__)
    return h.query_raw(t)


def _unq(f):
    if len(f) >= 2 and f[0] == "'" and f[-1] == "'":
        return f[1:-1].replace("''", "'")
    return f


def conv(t, counter):
    """problog result term -> internal reference term"""
    from problog.logic import Constant, Var, Term

    if t is None:
        counter[0] += 1
        return ("v", "_N%d" % counter[0])
    if isinstance(t, int) and not isinstance(t, bool):
        return ("v", "_I%d" % t)
    if isinstance(t, Var):
        return ("v", t.name)
    if isinstance(t, Constant):
        v = t.functor
        if type(v) is int:
            return ("i", v)
        if type(v) is float:
            return ("x", v)
        return ("?", "constant %r of type %s" % (v, type(v).__name__))
    if isinstance(t, Term):
        f = t.functor
        if isinstance(f, Term) and not isinstance(f, Constant) and f.arity == 0 and isinstance(f.functor, str):
            f = f.functor  # functor/3 builds Term(Term('a'), ...): not observable, prints and unifies as a(...)
        if not isinstance(f, str):
            return ("?", "functor %r of type %s" % (f, type(f).__name__))
        name = _unq(f)
        if name == "[|]":
            name = "."
        if t.arity == 0:
            return ("a", name)
        return ("c", name, tuple(conv(a, counter) for a in t.args))
    return ("?", "object %r" % (t,))


def _str(a):
    try:
        return str(a)
    except ValueError:  # Python's limit on int -> str conversion (4300 digits)
        return "<unprintable %s>" % type(a).__name__


def show_obs(obs):
    if obs[0] == "ok":
        return "answers: %s" % ([tuple(_str(a) for a in r) for r in obs[1]],)
    return " ".join(str(x) for x in obs)


def count_nodes(tree):
    if isinstance(tree, list):
        return 1 + sum(count_nodes(a) for a in tree[1:])
    return 0


class Verdict(object):
    __slots__ = ("symptom", "expected", "observed", "outcome", "unjudged", "nontrivial", "steps", "text")

    def __init__(self):
        self.symptom = None
        self.expected = None
        self.observed = None
        self.outcome = "?"
        self.unjudged = None
        self.nontrivial = False
        self.steps = 1
        self.text = ""


def _crash(v, obs):
    v.symptom = "crash:%s@%s" % (obs[1], obs[2])
    v.outcome = "crash:" + obs[1]


_SUBV = {}
EXCLUDED = "excluded: a simpler enumerated case (sub-expression / unbound left-hand side / direct call) violates on its own"


def violates(case):
    """does this (simpler, separately enumerated) case violate on its own?  cached per worker"""
    key = canon(case)
    if key not in _SUBV:
        _SUBV[key] = judge(case).symptom is not None
    return _SUBV[key]


def simpler_violating(case):
    """attribution: a composite case is judged only if its enumerated parts are fine"""
    k = case["k"]
    if k == "is":
        if case.get("lhs") is not None:
            return violates({"k": "is", "e": case["e"], "lhs": None})
        if isinstance(case["e"], list):
            return any(isinstance(a, list) and violates({"k": "is", "e": a, "lhs": None}) for a in case["e"][1:])
    elif k == "cmp":
        return any(isinstance(case[x], list) and violates({"k": "is", "e": case[x], "lhs": None}) for x in "ab")
    elif k in ("call", "type") and case.get("via") == "clause":
        return violates(dict(case, via="direct"))
    return False


def judge(case):
    """Execute ``case`` on the implementation and compare with R6."""
    v = Verdict()
    v.text = text = goal_text(case)
    if simpler_violating(case):
        v.outcome = "excluded"
        v.unjudged = EXCLUDED
        v.observed = "(not judged)"
        return v
    obs = execute(text)
    v.observed = show_obs(obs)
    k = case["k"]
    if obs[0] == "unparsable":
        v.outcome = "unparsable"
        v.unjudged = "goal text not accepted by the parser (C17)"
        return v
    if obs[0] in ("timeout", "recursion"):
        v.outcome = obs[0]
        v.unjudged = obs[0]
        return v
    if obs[0] == "error" and obs[1] == "OccursCheck":
        v.outcome = "error:OccursCheck"
        v.unjudged = "OccursCheck raised by the engine's unifier (a ProbLogError; unification is property C14)"
        return v
    if k == "is":
        ref = R.evaluate(case["e"])
        v.steps = max(1, count_nodes(case["e"]))
        v.expected = ref.describe()
        if case.get("lhs") is None:
            _judge_is(v, ref, obs)
        else:
            _judge_is_bound(v, ref, obs, case["lhs"])
    elif k == "cmp":
        ref = R.compare(case["op"], case["a"], case["b"])
        v.steps = 1 + count_nodes(case["a"]) + count_nodes(case["b"])
        _judge_cmp(v, ref, obs)
    elif k == "call":
        _judge_call(v, case, obs)
    elif k == "type":
        _judge_type(v, case, obs)
    return v


def _judge_is(v, ref, obs):
    v.nontrivial = bool(ref.must_err or ref.single())
    if obs[0] == "crash":
        return _crash(v, obs)
    if obs[0] == "error":
        v.outcome = "error:" + obs[1]
        if ref.must_err:
            return
        if ref.err_ok or ref.anynum:
            v.unjudged = " | ".join(sorted(ref.cats)) or "error accepted"
            return
        v.symptom = "error-must-answer:" + obs[1]
        return
    res = obs[1]
    if not res:
        v.outcome = "fail"
        v.symptom = "answer-must-error" if ref.must_err else "fails-must-answer"
        return
    from problog.logic import Constant

    t = res[0][0]
    val = t.functor if isinstance(t, Constant) else None
    if len(res) != 1 or type(val) not in (int, float):
        v.outcome = "non-number"
        v.symptom = "non-number-result:%s" % (type(val).__name__ if isinstance(t, Constant) else type(t).__name__)
        return
    v.outcome = "value:" + type(val).__name__
    m = R.matches(ref, val)
    if m == "ok":
        return
    if m == "unjudged":
        v.unjudged = " | ".join(sorted(ref.cats)) or "unjudged"
        v.outcome = "accepted-set:" + type(val).__name__
        return
    v.symptom = {"must-error": "answer-must-error", "wrong-type": "wrong-type", "wrong-value": "wrong-value",
                 "float-rounded": "float-rounded-to-15-decimals"}[m]


def _judge_is_bound(v, ref, obs, lhs):
    single = ref.single()
    if single is None:
        v.unjudged = "bound left-hand side with a non-unique reference value"
        v.outcome = "unjudged"
        return
    val, typ = single
    if typ == R.FLT and val == 0.0:
        v.unjudged = "sign of a float zero (0.0 and -0.0 need not unify)"
        v.outcome = "unjudged"
        return
    v.nontrivial = True
    same = (R.INT if isinstance(lhs, int) else R.FLT) == typ and lhs == val
    v.expected = "%s (the value is %r:%s; is/2 unifies, 1 and 1.0 do not unify)" % (
        "succeeds" if same else "fails", val, typ)
    if obs[0] == "crash":
        return _crash(v, obs)
    if obs[0] == "error":
        v.outcome = "error:" + obs[1]
        v.symptom = "error-must-answer:" + obs[1]
        return
    ok = len(obs[1]) > 0
    v.outcome = "bound:" + ("true" if ok else "false")
    if ok != same:
        v.symptom = "wrong-unification-of-result"


def _judge_cmp(v, ref, obs):
    kind = ref[0]
    v.expected = "%s %s" % (kind, ("(%s)" % " | ".join(sorted(ref[1])) if isinstance(ref[1], set) and ref[1] else
                                   "(%s)" % ref[1] if isinstance(ref[1], str) else ""))
    v.nontrivial = kind in ("true", "false", "must-error")
    if obs[0] == "crash":
        return _crash(v, obs)
    if obs[0] == "error":
        v.outcome = "error:" + obs[1]
        if kind == "must-error":
            return
        if kind == "unjudged":
            v.unjudged = " | ".join(sorted(ref[1])) or "unjudged"
            return
        v.symptom = "error-must-answer:" + obs[1]
        return
    truth = len(obs[1]) > 0
    v.outcome = "cmp:" + ("true" if truth else "false")
    if kind == "must-error":
        v.symptom = "answer-must-error"
    elif kind == "unjudged":
        v.unjudged = " | ".join(sorted(ref[1])) or "unjudged"
    elif truth != (kind == "true"):
        v.symptom = "wrong-comparison"


def _judge_call(v, case, obs):
    pred, args = case["p"], case["args"]
    ref = R.ref_builtin(pred, args)
    declared = R.declared_mode(pred, args)
    v.expected = ref.describe() + ("" if declared is not None else "  [outside the declared modes: CallModeError is fine]")
    v.nontrivial = declared is not None and ref.sols is not None and not ref.unjudged and not ref.error
    v.steps = 1 + (len(ref.sols) if ref.sols else 0)
    if obs[0] == "crash":
        return _crash(v, obs)
    if obs[0] == "error":
        v.outcome = "error:" + obs[1]
        if declared is None:
            v.outcome = "outside-declared-mode:" + obs[1]
            return
        if ref.error or ref.unjudged or ref.err_ok:
            return
        v.symptom = "error-must-answer:" + obs[1]
        return
    counter = [0]
    call_args = tuple(R.from_json(a) for a in args)
    got = []
    for r in obs[1]:
        tup = tuple(conv(a, counter) for a in r)
        # the engine unifies what a builtin returns with the call: the answer is the call instance
        sub = {}
        try:
            for x, y in zip(call_args, tup):
                sub = R.unify(x, y, sub)
                if sub is None:
                    break
        except R.Cyclic:
            v.unjudged = "cyclic term without occurs check"
            v.outcome = "unjudged"
            return
        got.append(tup if sub is None else tuple(R.resolve(a, sub) for a in call_args))
    v.outcome = "solutions:%d" % len(got) if len(got) < 3 else "solutions:3+"
    if ref.unjudged:
        v.unjudged = ref.unjudged
        return
    if ref.error:
        v.unjudged = "%s where Prolog raises an error" % ("answer" if got else "failure")
        return
    a = sorted(R.canon_terms(x) for x in got)
    b = sorted(R.canon_terms(x) for x in ref.sols)
    if a != b:
        v.symptom = "wrong-solutions"


def _judge_type(v, case, obs):
    ref = R.ref_type_test(case["p"], case["arg"])
    v.expected = "unjudged" if ref is None else ("true" if ref else "false")
    v.nontrivial = ref is not None
    if obs[0] == "crash":
        return _crash(v, obs)
    if obs[0] == "error":
        v.outcome = "error:" + obs[1]
        v.symptom = "error-must-answer:" + obs[1]  # a type test never raises
        return
    truth = len(obs[1]) > 0
    v.outcome = "type-test:" + ("true" if truth else "false")
    if ref is None:
        v.unjudged = "callable([])"
    elif truth != ref:
        v.symptom = "wrong-type-test"


# ---------------------------------------------------------------------------------------------
# shrinking

# canonical witnesses: a violating case whose symptom is reproduced by one of these (tried in this
# order) is keyed by the witness, so that an exception leaking from one call site — or the one
# rounding of float results — is one finding, not one per operator and operand.
WITNESSES = [
    {"k": "is", "e": ["epsilon"], "lhs": None},
    {"k": "is", "e": ["exp", 1000], "lhs": None},
    {"k": "is", "e": ["**", 10.0, 400], "lhs": None},
    {"k": "is", "e": ["<<", 0.5, 1], "lhs": None},
    {"k": "is", "e": ["**", -8, 0.5], "lhs": None},
    {"k": "is", "e": ["integer", ["inf"]], "lhs": None},
    {"k": "is", "e": ["truncate", ["inf"]], "lhs": None},
    {"k": "cmp", "op": "<", "a": ["exp", 1000], "b": 1},
    {"k": "cmp", "op": "<", "a": ["<<", 0.5, 1], "b": 1},
    {"k": "call", "p": "length", "args": [PL(V("A"), A("a")), 0], "via": "direct"},
    {"k": "call", "p": "atom_number", "args": [A("inf"), V("A")], "via": "direct"},
    {"k": "call", "p": "atom_number", "args": [A("nan"), V("A")], "via": "direct"},
]
_WITNESS_CACHE = {}


def _size(n):
    """well-founded measure that every shrink step decreases: integral before fractional, small
    magnitude before large, positive before negative"""
    if isinstance(n, int):
        return (0, abs(n), n < 0)
    return (1 + (n != n or abs(n) == float("inf") or n != int(n)), abs(n), math.copysign(1.0, n) < 0)


def _simpler_numbers(n):
    if isinstance(n, bool):
        return []
    if isinstance(n, int):
        c = [0, 1, -1, 2, -2]
        if abs(n) > 3:
            h = abs(n) // 2
            c.append(h if n > 0 else -h)
        if abs(n) > 1:
            c.append(n - 1 if n > 0 else n + 1)
    else:
        c = [0.0, 1.0, -1.0, 0.5, -0.5]
        if n == n and abs(n) != float("inf"):
            if abs(n) < 1e15 and float(int(n)) != n:
                c.append(float(int(n)))
            if abs(n) > 4:
                c.append(float(int(n / 2)) if abs(n) < 1e15 else n / 2)
    return [x for x in c if _size(x) < _size(n)]


def _ref_values(tree):
    ref = R.evaluate(tree)
    if ref.must_err or ref.anynum:
        return []
    return [v for v, _ in ref.vals if not (isinstance(v, float) and (v != v or abs(v) == float("inf")))
            and not (isinstance(v, int) and v.bit_length() > 200)]


def _tree_variants(tree):
    """simpler trees: a child in place of the node; a leaf number moved toward 0/±1"""
    if isinstance(tree, list):
        for a in tree[1:]:
            yield a
        for i in range(1, len(tree)):
            if isinstance(tree[i], list):
                for val in _ref_values(tree[i]):  # the sub-expression's accepted reference value(s)
                    yield tree[:i] + [val] + tree[i + 1:]
        for i in range(1, len(tree)):
            for sub in _tree_variants(tree[i]):
                yield tree[:i] + [sub] + tree[i + 1:]
    elif isinstance(tree, (int, float)):
        for n in _simpler_numbers(tree):
            yield n


def _term_variants(t):
    """simpler terms (every variant is strictly smaller in (node count, atom/number size))"""
    if isinstance(t, dict):
        if "f" in t:
            for a in t["x"]:
                yield a
            if t["f"] not in ("f", "-"):
                yield {"f": "f", "x": t["x"]}
            if len(t["x"]) > 1:
                for i in range(len(t["x"]) - 1, -1, -1):
                    yield {"f": t["f"], "x": t["x"][:i] + t["x"][i + 1:]}
            for i, a in enumerate(t["x"]):
                for s in _term_variants(a):
                    yield {"f": t["f"], "x": t["x"][:i] + [s] + t["x"][i + 1:]}
        if "l" in t:
            for i in range(len(t["l"])):
                r = {"l": t["l"][:i] + t["l"][i + 1:]}
                if "t" in t:
                    r["t"] = t["t"]
                yield r
            for i, a in enumerate(t["l"]):
                for s in _term_variants(a):
                    r = {"l": t["l"][:i] + [s] + t["l"][i + 1:]}
                    if "t" in t:
                        r["t"] = t["t"]
                    yield r
        if "a" in t:
            if re.match(r"^-?[0-9][0-9.]*$", t["a"]):
                for simple in ("0", "1.5"):
                    if len(simple) < len(t["a"]) or (len(simple) == len(t["a"]) and simple < t["a"]):
                        yield {"a": simple}
            elif t["a"] != "a":
                yield {"a": "a"}
        elif "v" in t:
            # binding a variable: fewer variables is simpler (order: variable > compound > number > atom a)
            yield {"a": "a"}
            yield 0
        else:
            yield {"a": "a"}
    elif isinstance(t, (int, float)):
        for n in _simpler_numbers(t):
            yield n
        yield {"a": "a"}


def _rename_vars(case):
    """canonical variable names (A, B, ... in first-occurrence order)"""
    names = {}

    def go(t):
        if isinstance(t, dict):
            if "v" in t:
                return {"v": names.setdefault(t["v"], "ABCDEFGH"[len(names)])}
            if "f" in t:
                return {"f": t["f"], "x": [go(a) for a in t["x"]]}
            if "l" in t:
                r = {"l": [go(a) for a in t["l"]]}
                if "t" in t:
                    r["t"] = go(t["t"])
                return r
        return t

    if case["k"] == "call":
        return dict(case, args=[go(a) for a in case["args"]])
    if case["k"] == "type":
        return dict(case, arg=go(case["arg"]))
    return case


def candidates(case):
    k = case["k"]
    if k == "is":
        if case.get("lhs") is not None:
            yield dict(case, lhs=None)
        for e in _tree_variants(case["e"]):
            if isinstance(e, (list, int, float)):
                yield dict(case, e=e)
    elif k == "cmp":
        if isinstance(case["a"], (int, float)) and isinstance(case["b"], (int, float)):
            for x, y in ((0, 0), (0, 0.0), (0.0, 0), (0.0, 0.0), (0, 1), (1, 0)):  # both sides together
                sa, sb = _size(case["a"]), _size(case["b"])
                if _size(x) <= sa and _size(y) <= sb and (_size(x) < sa or _size(y) < sb):
                    yield dict(case, a=x, b=y)
        for side in ("a", "b"):
            if isinstance(case[side], list):
                for val in _ref_values(case[side]):  # the operand's accepted reference value(s)
                    yield dict(case, **{side: val})
            for e in _tree_variants(case[side]):
                if isinstance(e, (list, int, float)):
                    yield dict(case, **{side: e})
    elif k == "call":
        args = case["args"]
        if case["p"] == "atom_number" and isinstance(args[0], dict) and "a" in args[0] \
                and isinstance(args[1], (int, float)) and args[0]["a"] not in ("0", "1.5"):
            yield dict(case, args=[{"a": "0"}, 0])  # atom and number together
            yield dict(case, args=[{"a": "1.5"}, 1.5])
        for i, a in enumerate(args):
            for s in _term_variants(a):
                yield dict(case, args=args[:i] + [s] + args[i + 1:])
    elif k == "type":
        for s in _term_variants(case["arg"]):
            yield dict(case, arg=s)


_MIN_CACHE = {}
_SYM_CACHE = {}


def symptom_of(case):
    """symptom of a case, cached per worker (the implementation is deterministic)"""
    key = canon(case)
    if key not in _SYM_CACHE:
        _SYM_CACHE[key] = judge(case).symptom
    return _SYM_CACHE[key]


def minimise(case, symptom):
    if symptom in _WITNESS_CACHE:
        return _WITNESS_CACHE[symptom]
    if symptom.startswith(("crash:", "non-number-result:")) or symptom == "float-rounded-to-15-decimals":
        for w in WITNESSES:
            if symptom_of(w) == symptom:
                _WITNESS_CACHE[symptom] = w
                return w
    if symptom.startswith(("crash:", "non-number-result:")) and case["k"] in ("is", "cmp"):
        # a leaking exception is keyed by its call site: take the first case, in the fixed order of
        # the quick function grid, that leaks the same exception at the same site
        for shard in PROP.shards("quick"):
            if shard[0] in ("const", "fn1", "fn2"):
                for c in PROP.cases_of(shard, "quick"):
                    if c.get("lhs") is None and symptom_of(c) == symptom:
                        _WITNESS_CACHE[symptom] = c
                        return c
    key = (symptom, canon(case))
    if key not in _MIN_CACHE:
        small = shrink(case, candidates, lambda c: symptom_of(c) == symptom, limit=400)
        renamed = _rename_vars(small)
        if renamed != small and symptom_of(renamed) == symptom:
            small = renamed
        _MIN_CACHE[key] = small
    return _MIN_CACHE[key]


# ---------------------------------------------------------------------------------------------
# reference self-test: facts taken from ISO 13211-1 (9.1.7, 9.3, 9.4 examples and Cor.2), the
# SWI-Prolog manual and the Yap manual, written down independently of the evaluator above

SELFTEST = [
    (["//", -7, 2], -3, "int"), (["//", 7, -2], -3, "int"), (["//", 7, 2], 3, "int"),
    (["mod", 7, -2], -1, "int"), (["mod", -7, 2], 1, "int"), (["mod", 7, 2], 1, "int"), (["mod", -7, -2], -1, "int"),
    (["div", -7, 2], -4, "int"), (["div", 7, -2], -4, "int"), (["div", 7, 2], 3, "int"),
    (["/", 7, 2], 3.5, "float"), (["/", 7.0, 2], 3.5, "float"), (["+", 1, 2.0], 3.0, "float"), (["*", 3, 2], 6, "int"),
    (["-", 3, 0.5], 2.5, "float"), (["-", 7], -7, "int"), (["abs", -2.5], 2.5, "float"), (["abs", -7], 7, "int"),
    (["sign", -2.5], -1.0, "float"), (["sign", 3], 1, "int"), (["sign", 0.0], 0.0, "float"),
    (["truncate", -2.5], -2, "int"), (["floor", -2.5], -3, "int"), (["ceiling", -2.5], -2, "int"),
    (["floor", 2.5], 2, "int"), (["ceiling", 2.5], 3, "int"), (["round", 1.5], 2, "int"), (["round", 2.4], 2, "int"),
    (["round", -1.5], -2, "int"), (["float", 2], 2.0, "float"), (["float_integer_part", -2.5], -2.0, "float"),
    (["float_fractional_part", -2.5], -0.5, "float"), (["integer", 2.0], 2, "int"),
    (["max", 1, 2.0], 2.0, "float"), (["max", 2, 1.0], 2, "int"), (["min", 1, 2.0], 1, "int"),
    (["^", 2, 3], 8, "int"), (["^", 2, 3.0], 8.0, "float"), (["**", 2, 3.0], 8.0, "float"), (["**", 2.0, 3], 8.0, "float"),
    (["/\\", 5, 3], 1, "int"), (["\\/", 5, 3], 7, "int"), (["xor", 5, 3], 6, "int"), (["#", 5, 3], 6, "int"),
    (["><", 5, 3], 6, "int"), (["<<", 1, 3], 8, "int"), ([">>", -7, 1], -4, "int"), ([">>", 7, 1], 3, "int"),
    (["\\", 3], -4, "int"), (["\\", -1], 0, "int"), (["sqrt", 4], 2.0, "float"), (["exp", 0], 1.0, "float"),
    (["atan", 1, 1], 0.7853981633974483, "float"), (["log", 1], 0.0, "float"), (["+", ["*", 2, 3], 0.5], 6.5, "float"),
]
SELFTEST_ERR = [["//", 1, 0], ["mod", 1, 0], ["/", 1, 0], ["div", 1, 0], ["rem", 1, 0], ["+", {"v": "Y"}, 1],
                ["+", {"a": "foo"}, 1], ["sqrt", {"a": "foo"}]]
SELFTEST_SET = [(["round", 2.5], {2, 3}), (["round", -2.5], {-2, -3}), (["integer", 2.5], {2, 3}),
                (["rem", -7, 2], {1, -1}), (["rem", 7, -2], {1, -1})]


def selftest():
    n = 0
    for tree, val, typ in SELFTEST:
        s = R.evaluate(tree).single()
        if s is None or s[1] != typ or s[0] != val or type(s[0]).__name__ != typ:
            raise RuntimeError("reference self-test failed on %r: %r" % (tree, R.evaluate(tree).describe()))
        n += 1
    for tree in SELFTEST_ERR:
        if not R.evaluate(tree).must_err:
            raise RuntimeError("reference self-test failed on %r (must be an error)" % (tree,))
        n += 1
    for tree, vals in SELFTEST_SET:
        if set(v for v, _ in R.evaluate(tree).vals) != vals:
            raise RuntimeError("reference self-test failed on %r" % (tree,))
        n += 1
    facts = [
        ("succ", [V("X"), 0], []), ("succ", [V("X"), 3], [(2, 3)]), ("succ", [3, V("X")], [(3, 4)]),
        ("plus", [1, V("X"), 3], [(1, 2, 3)]), ("between", [1, 3, V("X")], [(1, 3, 1), (1, 3, 2), (1, 3, 3)]),
        ("between", [3, 1, V("X")], []), ("atom_number", [A("12"), V("X")], [(A("12"), 12)]),
        ("atom_number", [A("12.0"), V("X")], [(A("12.0"), 12.0)]), ("atom_number", [A("foo"), V("X")], []),
        ("arg", [0, F("f", A("a")), V("X")], []), ("length", [PL(V("T"), A("a")), 0], []),
    ]
    for pred, args, sols in facts:
        r = R.ref_builtin(pred, args)
        got = sorted(R.canon_terms(x) for x in (r.sols or []))
        want = sorted(R.canon_terms(tuple(R.from_json(t) for t in s)) for s in sols)
        if r.sols is None or got != want:
            raise RuntimeError("reference self-test failed on %s%r: %s" % (pred, args, r.describe()))
        n += 1
    if R.ref_type_test("is_list", PL(V("T"), A("a"))) is not False or R.ref_type_test("atom", A("[]")) is not True:
        raise RuntimeError("reference self-test failed on type tests")
    return n + 2


def source_checks():
    """are the copied check_mode tables and the documented function list still those of the tree?"""
    out = {}
    try:
        src = open(os.path.join(REPO, "problog", "engine_builtin.py")).read()
        names = {"between": "between", "succ": "succ", "plus": "plus", "length": "length", "functor": "functor",
                 "arg": "arg", "=..": "split_call", "atom_number": "atom_number"}
        same = True
        for pred, fn in names.items():
            m = re.search(r"def _builtin_%s\(.*?check_mode\(\s*\([^)]*\),\s*(\[[^\]]*\])" % fn, src, re.S)
            if not m or eval(m.group(1)) != R.MODE_TABLES[pred]:
                same = False
        out["mode_tables_match_source"] = same
    except Exception as exc:  # noqa
        out["mode_tables_match_source"] = "not checked: %s" % type(exc).__name__
    try:
        doc = open(os.path.join(REPO, "docs", "source", "prolog.rst")).read()
        sec = doc.split("Arithmetic\n++++++++++")[1].split("**Not supported:**")[0]
        items = re.findall(r"\* ``([^`]*)``", sec)
        missing = []
        for it in items:
            m = re.match(r"^(\w+)/(\d)$", it)
            if m:
                name, ar = m.group(1), int(m.group(2))
                known = (ar == 0 and name in R.CONSTANTS) or (ar == 1 and name in R.UNARY) or \
                        (ar == 2 and name in R.BINARY) or (name, ar) in PREDS
            else:
                ops = [o for o in re.split(r"\s+|X|Y", it) if o]
                known = all(o in R.BINARY or o in R.UNARY or o in R.COMPARISONS or o == "is" for o in ops)
            if not known:
                missing.append(it)
        out["documented_functions"] = len(items)
        out["documented_functions_not_enumerated"] = missing
    except Exception as exc:  # noqa
        out["documented_functions"] = "not checked: %s" % type(exc).__name__
    return out


# ---------------------------------------------------------------------------------------------

def _short(v):
    return len(repr(v)) <= 8


class C16(Prop):
    pid = "C16"
    title = "Arithmetic and term-inspection builtins match Yap/SWI semantics"
    technique = ("bounded-exhaustive enumeration of is/2, comparison and term-inspection calls on the real "
                 "implementation (prepared database, engine.query) against the reference model R6 "
                 "(ISO / SWI-Prolog 9 default flags / Yap 6, accepted sets)")
    rule = ("every documented function/operator x every argument tuple over the int/float grid (+ overflow, "
            "unbound, non-number, inf/nan operands); every expression tree of depth <= 2 over the tree operator "
            "set; is/2 with unbound and (for uniquely valued cases) bound left-hand sides; the six comparisons on "
            "all operand pairs; each term-inspection builtin on every argument tuple over the shape alphabet; each "
            "type test on every shape.  All cases are distinct inputs; a case is non-trivial when R6 pins one "
            "outcome for it (value and type, truth value, solution multiset or mandatory error)")
    assumptions = [
        "SWI-Prolog and Yap are not installed: R6 is a hand-written model; accepted-set (unjudged) categories "
        "are counted in coverage.counters as 'unjudged: <category>'",
        "unjudged: integer-only functions (// mod rem div, bit operations, shifts) applied to floats — Prolog "
        "raises type_error(integer,_), ProbLog may extend them; a leaking Python exception is still a violation",
        "unjudged: round/1 on x.5 (SWI away from zero, Yap rint = half to even), integer/1 on "
        "non-integral floats (SWI rounds, Yap truncates), rem where it differs from mod (documented deviation)",
        "unjudged (value judged, type not): exact int / int, int ** int, exp/2 on integers, max/min of "
        "numerically equal mixed arguments, float_integer_part / float_fractional_part of an integer",
        "unjudged: ^ ** exp/2 with a negative integer exponent, negative shift counts, nan/inf operands, "
        "atan(0,0), float overflow / undefined values (error or inf/nan accepted, never a Python exception)",
        "float values are compared with relative tolerance 1e-9 (libm); the sign of zero is not judged",
        "not enumerated: integer ** / ^ with |base| > 1 and an exponent beyond 10000, integer << with a shift "
        "count beyond 10000 (unbounded-integer resource exhaustion: the implementation computes for minutes or "
        "raises MemoryError); results of more than 10000 bits are unjudged; workers run under a 6 GB address-space "
        "limit as a safety net",
        "term builtins: an answer or failure where Prolog raises an error is unjudged (not a 'supported mode'); "
        "calls outside the implementation's declared check_mode table may raise any ProbLogError; '.' and '[|]' "
        "are both accepted as list constructor; callable([]), plus/3 on non-integers, atom_number/2 on exotic "
        "number syntax (1e3, 0x1A, +3, inf, ' 12', 1_0) are unjudged; solutions are compared as multisets; an "
        "OccursCheck error raised by the engine's unifier is unjudged here (unification is property C14)",
    ]
    budget = {"quick": 240, "thorough": 1500}

    def precheck(self, tier):
        out = {"reference_selftest_facts": selftest()}
        out.update(source_checks())
        return out

    # -- shards -------------------------------------------------------------------------------
    def shards(self, tier):
        ops = operands(tier)
        nblocks = 1 if tier == "quick" else 6
        res = []
        for op in R.BINARY:
            for b in range(nblocks):
                res.append(["fn2", op, b, nblocks])
        un = list(R.UNARY)
        for i in range(0, len(un), 8):
            res.append(["fn1", un[i:i + 8]])
        res.append(["const"])
        for op in R.COMPARISONS:
            res.append(["cmp", op])
        bins, uns, leaves, k = tree_params(tier)
        for op in bins:
            for i in range(k):
                res.append(["tree", op, i, k])
        res.append(["tree1"])
        for pred, ar in PREDS:
            if ar == 3:
                for i in range(len(terms_for(pred, 0, tier))):
                    res.append(["call", pred, i])
            else:
                res.append(["call", pred, None])
        res.append(["type"])
        return res

    def cases_of(self, shard, tier):
        kind = shard[0]
        ops = operands(tier)
        if kind == "fn2":
            _, op, b, nb = shard
            for i, x in enumerate(ops):
                if i % nb != b:
                    continue
                for y in ops:
                    if op in ("**", "^") and isinstance(x, int) and isinstance(y, int) and abs(x) > 1 and abs(y) > 10000:
                        continue  # an integer of > 10**5 bits: a resource question, not an arithmetic one
                    if op == "<<" and isinstance(x, int) and isinstance(y, int) and y > 10000:
                        continue  # the same: 1 << 2**31 is a 256 MB integer
                    for c in self._with_lhs(["%s" % op, x, y]):
                        yield c
        elif kind == "fn1":
            for op in shard[1]:
                for x in ops:
                    for c in self._with_lhs([op, x]):
                        yield c
        elif kind == "const":
            for name in R.CONSTANTS:
                for c in self._with_lhs([name]):
                    yield c
            for x in grid_numbers(tier) + EXTREME:  # "X" itself is the first entry of the documented list
                for c in self._with_lhs(x):
                    yield c
            for x in SPECIAL[:2] + [{"a": "[]"}, {"a": "pie"}]:
                yield {"k": "is", "e": x, "lhs": None}
        elif kind == "cmp":
            op = shard[1]
            leaves, d1 = depth1_terms("quick")
            for x in ops:
                for y in ops:
                    yield {"k": "cmp", "op": op, "a": x, "b": y}
            for x in d1:
                for y in grid_numbers("quick"):
                    yield {"k": "cmp", "op": op, "a": x, "b": y}
                    yield {"k": "cmp", "op": op, "a": y, "b": x}
        elif kind == "tree":
            _, op, i, k = shard
            leaves, d1 = depth1_terms(tier)
            allt = leaves + d1
            for j, t1 in enumerate(allt):
                if j % k != i:
                    continue
                for t2 in allt:
                    if isinstance(t1, list) or isinstance(t2, list):
                        yield {"k": "is", "e": [op, t1, t2], "lhs": None}
        elif kind == "tree1":
            bins, uns, leaves, k = tree_params(tier)
            leaves, d1 = depth1_terms(tier)
            for op in uns:
                for t in d1:
                    yield {"k": "is", "e": [op, t], "lhs": None}
        elif kind == "call":
            _, pred, first = shard
            ar = dict(PREDS)[pred]
            doms = [terms_for(pred, p, tier) for p in range(ar)]
            if first is not None:
                doms[0] = [doms[0][first]]
            for args in itertools.product(*doms):
                yield {"k": "call", "p": pred, "args": list(args), "via": "direct"}
        elif kind == "type":
            terms = terms_for("type", 0, tier)
            for pred in R.TYPE_TESTS:
                for t in terms:
                    yield {"k": "type", "p": pred, "arg": t, "via": "direct"}

    def _with_lhs(self, tree):
        yield {"k": "is", "e": tree, "lhs": None}
        if isinstance(tree, list) and any(isinstance(a, (dict, list)) for a in tree[1:]):
            return
        s = R.evaluate(tree).single()
        if s is None:
            return
        val, typ = s
        if isinstance(val, float) and (val != val or abs(val) == float("inf")):
            return
        if not _short(val) or abs(val) > 1e15 or (typ == R.FLT and val == 0.0):
            return
        yield {"k": "is", "e": tree, "lhs": val}  # must succeed
        if typ == R.INT:
            yield {"k": "is", "e": tree, "lhs": float(val)}  # 3.0 is 1+2 must fail
            yield {"k": "is", "e": tree, "lhs": val + 1}
        else:
            if val == int(val):
                yield {"k": "is", "e": tree, "lhs": int(val)}  # 3 is 1.5*2 must fail
            yield {"k": "is", "e": tree, "lhs": val + 1.0}

    # -- running ------------------------------------------------------------------------------
    def run_shard(self, shard, tier, acc):
        for case in self.cases_of(shard, tier):
            if acc.expired():
                acc.cap("wall budget reached inside shard")
                break
            v = self.run_case(case, acc)
            if case.get("via") == "direct" and v.symptom is None and not v.outcome.startswith(
                    ("error:", "outside-declared-mode:", "timeout", "recursion", "unparsable")):
                # the same call from a clause body: the answer substitution a program sees.  (Calls
                # that raise a ProbLogError directly raise it there as well: not repeated.)
                self.run_case(dict(case, via="clause"), acc)

    def run_case(self, case, acc):
        v = judge(case)
        acc.evaluations += 1
        acc.states += 1
        acc.transitions += v.steps
        if v.outcome != "unparsable":
            acc.traces += 1
        if v.nontrivial and not v.unjudged:
            acc.nontrivial += 1
        acc.outcomes[v.outcome] += 1
        acc.counters["cases:" + case["k"]] += 1
        if v.unjudged:
            for cat in v.unjudged.split(" | "):
                acc.counters["unjudged: " + cat] += 1
            acc.counters["unjudged_cases"] += 1
        acc.sample({"goal": v.text, "expected": v.expected, "observed": v.observed})
        if v.symptom:
            small = minimise(case, v.symptom)
            sv = judge(small)
            if sv.symptom != v.symptom:  # cannot happen: shrink keeps the symptom
                small, sv = case, v
            acc.violation(v.symptom, small, expected=sv.expected, observed=sv.observed,
                          what="%s   (e.g. %s)" % (sv.text, v.text) if sv.text != v.text else sv.text)
        return v

    def replay(self, case):
        v = judge(case)
        return dict(ok=v.symptom is None, expected="%s   [goal: %s]" % (v.expected, v.text),
                    observed=v.observed + ("" if not v.symptom else "   => " + v.symptom))


PROP = C16()
