"""C09 cycle breaking and Clark's completion preserve the ground program's meaning.
Every ground program the real engine produces for the program grammars is pushed through the real
break_cycles and clarks_completion; each instance is validated exhaustively over all assignments
to its atoms against the least-model evaluator R2."""
from ..core import Prop, watchdog, WatchdogTimeout
from ..gen import streams
from ..gen.programs import program_text
from ..ref import boolgraph as B
from .. import progcheck
from ..plrun import classify_exception

MAX_ATOMS = {"quick": 8, "thorough": 11}


def pipeline(src, **kw):
    from problog.program import PrologString
    from problog.formula import LogicFormula, LogicDAG
    from problog.cnf_formula import CNF

    try:
        lf = LogicFormula.create_from(PrologString(src), **kw)
    except Exception as exc:  # noqa
        # an exception while GROUNDING is not this property's business (C01/C02/C27 own it)
        raise GroundingFailed(exc)
    dag = LogicDAG.create_from(lf)
    cnf = CNF.create_from(dag)
    return lf, dag, cnf


class GroundingFailed(Exception):
    pass


def names_of(f):
    return {(str(n), l): k for n, k, l in f.get_names_with_label()}


def constraint_groups(f, nodes_by_idx):
    """list of frozensets of atom identifiers (one per non-trivial AD constraint)"""
    res = []
    for c in f.constraints():
        ns = list(c.get_nodes())
        if hasattr(c, "is_nontrivial") and not c.is_nontrivial():
            continue
        res.append(frozenset(nodes_by_idx[n] for n in ns if n in nodes_by_idx))
    return sorted(res, key=lambda s: sorted(map(str, s)))


def constraints_ok(groups, true_ids):
    return all(len(g & true_ids) == 1 for g in groups)


def check_instance(lf, dag, cnf, max_atoms):
    """-> (symptom or None, detail, stats dict)"""
    st = {"assignments": 0}
    gl = B.Graph(B.extract(lf))
    gd = B.Graph(B.extract(dag))
    if gd.comps and any(len(c) > 1 for c in gd.comps):
        return "dag-is-cyclic", "LogicDAG contains a cycle", st
    if gl.negative_in_cycle:
        return None, "unjudged: negation inside a cycle of the ground program", st
    lf_ident = {i: ident for i, ident in gl.atoms}
    dag_ident = {i: ident for i, ident in gd.atoms}
    dag_by_ident = {ident: i for i, ident in gd.atoms}
    if len(dag_by_ident) != len(gd.atoms):
        return "duplicate-atom-identifier", "two DAG atoms share an identifier", st
    if not set(dag_ident.values()) <= set(lf_ident.values()):
        return "atoms-not-carried", "DAG atom unknown in the ground program", st
    # (iii) weights / names / constraints carried over
    wl, wd, wc = lf.get_weights(), dag.get_weights(), cnf.get_weights()
    for i, ident in gd.atoms:
        src_i = [j for j, idn in gl.atoms if idn == ident][0]
        if str(wd.get(i)) != str(wl.get(src_i)):
            return "weights-not-carried", "atom %s: %s vs %s" % (ident, wd.get(i), wl.get(src_i)), st
        if str(wc.get(i)) != str(wd.get(i)):
            return "weights-not-carried", "cnf var %s: %s vs %s" % (i, wc.get(i), wd.get(i)), st
    nl, nd, nc = names_of(lf), names_of(dag), names_of(cnf)
    labeled = {k: v for k, v in nl.items() if k[1] != lf.LABEL_NAMED}
    if set(labeled) != set(k for k in nd if k[1] != dag.LABEL_NAMED):
        return "names-not-carried", "labels %r vs %r" % (sorted(labeled), sorted(nd)), st
    if nd != nc:
        return "names-not-carried", "cnf names differ from dag names", st
    groups_l = constraint_groups(lf, lf_ident)
    groups_d = constraint_groups(dag, dag_ident)
    present = set(dag_ident.values())
    # a constraint is carried if its members that still exist form the same group
    gl_restricted = sorted([frozenset(g & present) for g in groups_l if len(g & present) > 1],
                           key=lambda s: sorted(map(str, s)))
    gd_cmp = sorted([g for g in groups_d if len(g) > 1], key=lambda s: sorted(map(str, s)))
    if [g for g in gl_restricted if g not in gd_cmp]:
        return "constraints-not-carried", "%r vs %r" % (gl_restricted, gd_cmp), st
    if len(gl.atoms) > max_atoms:
        return None, "capped: %d atoms" % len(gl.atoms), st
    clauses = B.clauses_of(cnf)
    nvars = cnf.atomcount
    atom_idx = [i for i, _ in gl.atoms]
    for assign in B.all_assignments(atom_idx):
        st["assignments"] += 1
        vl = gl.evaluate(assign)
        dassign = {dag_by_ident[lf_ident[i]]: v for i, v in assign.items() if lf_ident[i] in dag_by_ident}
        vd = gd.evaluate(dassign)
        for key, k_l in labeled.items():
            if gl.key_value(k_l, vl) != gd.key_value(nd[key], vd):
                return ("dag-differs-from-least-model",
                        "%s: least model %s, acyclic program %s under %s" % (
                            key[0], gl.key_value(k_l, vl), gd.key_value(nd[key], vd),
                            {str(lf_ident[i]): v for i, v in assign.items()}), st)
        true_ids = {dag_ident[i] for i, v in dassign.items() if v}
        ok = constraints_ok(groups_d, true_ids)
        fixed = dict(dassign)
        n = B.count_models(clauses, nvars, fixed, cap=2)
        if ok:
            if n != 1:
                return "cnf-model-count", "%d models extend a constraint-satisfying atom assignment" % n, st
            if not B.satisfied(clauses, vd):
                return "cnf-model-disagrees", "the CNF model differs from the acyclic program's node values", st
        elif n != 0:
            return "cnf-model-count", "a model extends an assignment violating an AD constraint", st
    return None, "", st


def run_case(prog, tier, kw=None):
    try:
        with watchdog(20):
            lf, dag, cnf = pipeline(program_text(prog), **(kw or {}))
            return check_instance(lf, dag, cnf, MAX_ATOMS[tier])
    except WatchdogTimeout:
        return None, "timeout", {}
    except RecursionError:
        return None, "recursion", {}
    except GroundingFailed as exc:
        return None, "grounding-error:" + type(exc.args[0]).__name__, {}
    except Exception as exc:  # noqa
        c = classify_exception(exc)
        if c[0] == "error":
            return None, "grounding-error:" + c[1], {}
        return "crash:%s@%s" % (c[1], c[2]), "internal exception", {}


class C09(Prop):
    pid = "C09"
    title = "Cycle breaking and Clark's completion preserve the ground program's meaning"
    technique = ("every ground program produced by the real engine for the program grammars is transformed by the real "
                 "break_cycles and clarks_completion; each transformation instance is validated over ALL assignments to "
                 "its atoms against a least-model evaluator (SCC-wise fixpoint) and a DPLL model counter")
    rule = ("states = ground programs (one per generated program, several queries + evidence each); transitions = atom "
            "assignments checked; non-trivial = ground program with a cycle or an AD constraint or >= 3 atoms; instances "
            "with more atoms than the tier bound have only their structural checks (weights, names, constraints) judged")
    families = {"quick": [("FDUP", 4), ("FR", 8), ("F1.3e", 16), ("FC3g", 128), ("FC3m", 16), ("FT", 4), ("FC3", 16), ("F3.2", 96), ("F2.3", 48), ("F1.3s", 32), ("F1.2", 96), ("F3.1", 8), ("F2.2", 8), ("F1.1", 4)],
                "thorough": [("FR", 8), ("F1.3e", 16), ("FDUP", 4), ("FC3g", 128), ("FC3m", 16), ("FT", 4), ("FC3", 16), ("F3.3", 512), ("F2.4", 256), ("F1.3/16", 512), ("F3.2", 96), ("F2.3", 48), ("F1.3s", 32),
                             ("F1.2", 128), ("F3.1", 8), ("F2.2", 8), ("F1.1", 4)]}
    budget = {"quick": 300, "thorough": 2400}
    variants = [None, {"propagate_evidence": True}]

    def shards(self, tier):
        return [[fam, mod, r] for fam, mod in self.families[tier] for r in range(mod)]

    def run_shard(self, shard, tier, acc):
        fam, mod, rem = shard
        for idx, prog in streams.shard_stream(fam, tier, mod, rem):
            if acc.expired():
                acc.cap("wall budget reached in family %s" % fam)
                break
            sym, detail, st = run_case(prog, tier)
            acc.evaluations += 1
            acc.states += 1
            acc.traces += 1
            acc.transitions += st.get("assignments", 0)
            if st.get("assignments", 0) >= 8:
                acc.nontrivial += 1
            acc.outcomes[sym or detail.split(":")[0] or "ok"] += 1
            acc.sample({"family": fam, "index": idx, "program": program_text(prog)}, limit=2)
            if sym:
                def fails(p):
                    return run_case(p, tier)[0] == sym

                small = progcheck.minimise(prog, fails, limit=100)
                s2, d2, _ = run_case(small, tier)
                case = {"program": program_text(small), "ast": small}
                extra = None
                if sym.startswith("crash:"):
                    case, extra = {"site": sym}, case
                acc.violation(sym, case, extra=extra, expected="transformations preserve meaning", observed=d2,
                              what="%s: %s [%s]" % (sym, program_text(small), d2))

    def replay(self, case):
        sym, detail, st = run_case(case["ast"], "thorough")
        return dict(ok=sym is None, expected="transformations preserve meaning", observed={"symptom": sym, "detail": detail})


PROP = C09()
