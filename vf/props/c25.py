"""C25 exported ground programs keep the original semantics: the text written by the ground task
(to_prolog on LogicFormula / LogicDAG with the task's flags) is re-parsed and re-evaluated; the
DIMACS export is re-read by an independent reader and its model set compared by enumeration."""
import itertools

from .diffbase import DiffProp
from ..gen.programs import program_text
from ..plrun import infer, classify_exception, install_dsharp_cache
from ..core import watchdog, WatchdogTimeout
from ..ref import boolgraph as B
from .. import progcheck

GROUND_FLAGS = dict(label_all=True, avoid_name_clash=True, keep_order=True, keep_all=False, keep_duplicates=False,
                    hide_builtins=False)


def ground(src, target, propagate_evidence):
    from problog.program import PrologString, ExtendedPrologFactory
    from problog.parser import DefaultPrologParser
    from problog.formula import LogicFormula, LogicDAG

    cls = LogicDAG if target == "dag" else LogicFormula
    model = PrologString(src, parser=DefaultPrologParser(ExtendedPrologFactory()))
    return cls.create_from(model, propagate_evidence=propagate_evidence, propagate_weights=None, **GROUND_FLAGS)


def evaluate_direct(gp):
    from problog import get_evaluatable

    res = get_evaluatable().create_from(gp).evaluate()
    return ("ok", {str(k): v for k, v in res.items()})


def read_dimacs(text):
    nvars = None
    clauses = []
    for line in text.splitlines():
        line = line.strip()
        if not line or line.startswith("c"):
            continue
        if line.startswith("p"):
            parts = line.split()
            nvars, ncl = int(parts[2]), int(parts[3])
            continue
        lits = [int(x) for x in line.split()]
        assert lits[-1] == 0, line
        clauses.append(lits[:-1])
    return nvars, ncl, clauses


class C25(DiffProp):
    pid = "C25"
    title = "Exported ground programs keep the original semantics"
    technique = ("programs x export variants: the real ground-task pipeline (to_prolog on LogicFormula and on LogicDAG, "
                 "with and without evidence propagation) is run, the exported text is re-parsed and re-evaluated by the "
                 "real implementation and compared with the possible-world reference; CNF.to_dimacs() is re-read by an "
                 "independent reader and compared with the internal CNF over all assignments")
    rule = ("states = programs whose default inference and whose ground program (evaluated directly) are correct; "
            "transitions = export variants executed; DIMACS model sets compared for CNFs with <= 12 variables")
    families = {"quick": [("FDUP", 4), ("F3.2", 96), ("F2.3", 192), ("F1.3s", 32), ("F1.2q", 96), ("F3.1", 8), ("F2.2", 8), ("F1.1", 4), ("F1.1dup", 4)],
                "thorough": [("F1.2q", 96), ("F1.1dup", 4), ("FDUP", 4), ("F3.3/8", 64), ("F2.4/2", 128), ("F3.2", 96), ("F2.3", 192), ("F1.3s", 32), ("F1.2", 128),
                             ("F3.1", 8), ("F2.2", 8), ("F1.1", 4)]}
    budget = {"quick": 300, "thorough": 2400}
    include_negcycle = False
    strong_shrink = True

    def variants(self, prog, tier):
        vs = [{"target": t, "propagate_evidence": pe} for t in ("lf", "dag") for pe in (False, True)]
        vs.append({"dimacs": True})
        return vs

    def run_variant(self, prog, var):
        src = program_text(prog)
        install_dsharp_cache()
        try:
            with watchdog(20):
                if var.get("dimacs"):
                    from problog.cnf_formula import CNF

                    cnf = CNF.create_from(ground(src, "dag", False))
                    nvars, ncl, clauses = read_dimacs(cnf.to_dimacs())
                    internal = B.clauses_of(cnf)
                    if nvars != cnf.atomcount or ncl != len(clauses):
                        return ("export", "dimacs-header", "header says %s vars %s clauses; cnf has %s vars, text has %s clauses"
                                % (nvars, ncl, cnf.atomcount, len(clauses)))
                    if nvars > 12:
                        return ("export", "capped", "")
                    for bits in itertools.product((False, True), repeat=nvars):
                        val = {i + 1: b for i, b in enumerate(bits)}
                        if B.satisfied(internal, val) != B.satisfied(clauses, val):
                            return ("export", "dimacs-models-differ", "assignment %s" % val)
                    return ("export", "ok", "")
                gp = ground(src, var["target"], var["propagate_evidence"])
                direct = evaluate_direct(gp)
                text = gp.to_prolog()
        except WatchdogTimeout:
            return ("timeout",)
        except RecursionError:
            return ("recursion",)
        except Exception as exc:  # noqa
            return classify_exception(exc)
        self._direct = direct
        self._text = text
        out = infer(text)
        return out

    def diff_symptom(self, ref, dflt, out):
        if out[0] == "export":
            if out[1] in ("ok", "capped"):
                return None, out[1]
            return out[1], out[2]
        if out[0] in ("timeout", "recursion"):
            return None, out[0]
        if out[0] == "error" and ref["kind"] == "answer" and getattr(self, "_direct", None) is None:
            return None, "grounding with export flags failed: " + out[1]
        direct = getattr(self, "_direct", None)
        if direct is not None:
            dsym, _ = progcheck.verdict(ref, direct)
            if dsym is not None:
                return None, "excluded: ground program with export flags evaluates wrongly itself"
        sym, detail = super().diff_symptom(ref, dflt, out)
        if sym:
            detail += " | exported: " + " ".join(getattr(self, "_text", "").split())[:300]
        return sym, detail

    def case_of(self, prog, var):
        """Exports made with evidence propagation fail for one root cause in a great many shapes (an
        atom fixed by propagation is written as a fact / `:- fail` while the clauses that carried the
        information stay or go): such findings are keyed by the variant and the feature class of
        the minimal program, with the program itself kept as example (extra)."""
        case = super().case_of(prog, var)
        if var.get("propagate_evidence"):
            feats = []
            if any(len(c["heads"]) > 1 for c in prog["clauses"]):
                feats.append("annotated-disjunction")
            if any((not l[0]) for c in prog["clauses"] for l in c["body"] if l[0] != "builtin"):
                feats.append("negation")
            if any(c["body"] and c["heads"][0][0] is not None for c in prog["clauses"]):
                feats.append("probabilistic-rule")
            if any(h[1] for c in prog["clauses"] for _, h in c["heads"]):
                feats.append("first-order")
            if any(not e[1] for e in prog.get("evidence", [])):
                feats.append("negative-evidence")
            return {"variant": var, "class": feats}
        return case

    def report(self, prog, var, sym, acc):
        if not var.get("propagate_evidence") or sym.startswith("crash:"):
            return super().report(prog, var, sym, acc)

        def fails(p):
            return self.check_case(p, var)[0] == sym

        small = progcheck.minimise(prog, fails, limit=120, strong=True)
        s_, detail, ref, dflt, out = self.check_case(small, var)
        acc.violation(sym, self.case_of(small, var), extra={"program": program_text(small), "ast": small},
                      expected={"kind": ref["kind"], "P(q|e)": ref["cond"], "default": dflt}, observed=out,
                      what="%s under %s: %s [%s]" % (sym, var, program_text(small), detail))

    def replay(self, case):
        if "ast" not in case:
            return dict(ok=True, expected=None, observed="no example stored")
        return super().replay(case)

    def run_shard(self, shard, tier, acc):
        self._direct = None
        self._text = ""
        super().run_shard(shard, tier, acc)

    def check_case(self, prog, var):
        self._direct = None
        self._text = ""
        return super().check_case(prog, var)


PROP = C25()
