"""Differential program-level properties (C05, C06, C07, ...): every program of a stream is run
in its default configuration and in every *variant*; each variant is judged against R1 and against
the default run.  Attribution rule (DESIGN 2.8): a program whose default run is itself wrong is
counted as excluded (it is a C01/C02 case) and not judged here."""
from ..core import Prop
from ..gen import streams
from ..gen.programs import program_text
from .. import progcheck
from .c01 import nontrivial

TOL = 1e-9


def same_result(a, b):
    """two outcome tuples agree: same tag; errors same class; answers same keys/values"""
    if a[0] != b[0]:
        return False
    if a[0] == "ok":
        ka = {progcheck.norm_key(k): v for k, v in a[1].items()}
        kb = {progcheck.norm_key(k): v for k, v in b[1].items()}
        if set(ka) != set(kb):
            # non-ground placeholders with probability 0 may come and go
            for k in set(ka) ^ set(kb):
                v = ka.get(k, kb.get(k))
                if not (progcheck.is_nonground_key(k) and abs(v) <= TOL) and abs(v) > TOL:
                    return False
        return all(abs(ka[k] - kb[k]) <= TOL for k in ka if k in kb)
    if a[0] == "error":
        return a[1] == b[1]
    return a[1:] == b[1:]


class DiffProp(Prop):
    families = {"quick": [("F1.2", 64)], "thorough": [("F1.2", 64)]}
    strong_shrink = False  # also merge predicates / swap clauses while shrinking (one root cause, many shapes)
    strict_errors = False  # judge differing accept/reject decisions on 'either'-class programs
    include_negcycle = True

    def shards(self, tier):
        return [[fam, mod, r] for fam, mod in self.families[tier] for r in range(mod)]

    def variants(self, prog, tier):
        """list of JSON-able variant descriptors"""
        raise NotImplementedError

    def run_default(self, prog):
        from ..plrun import infer

        return infer(program_text(prog))

    def run_variant(self, prog, variant):
        raise NotImplementedError

    def filter(self, prog):
        return True

    def diff_symptom(self, ref, dflt, out):
        """symptom of variant outcome ``out`` given reference and default outcome"""
        if out[0] in ("timeout", "recursion"):
            return None, out[0]
        if ref["kind"] in ("answer", "inconsistent"):
            sym, detail = progcheck.verdict(ref, out)
            return sym, detail
        if out[0] == "crash":
            return "crash:%s@%s" % (out[1], out[2]), "internal exception"
        if ref["kind"] == "must-reject":
            if out[0] == "ok":
                return "answered-must-reject", "variant returned %r (default: %r)" % (out[1], dflt[:2])
            return None, ""
        # 'either' class: both accepting and rejecting are acceptable; if both runs answer, the
        # numbers must agree; a differing accept/reject decision is judged only by the properties
        # whose statement includes the errors (strict_errors)
        if dflt[0] == "ok" and out[0] == "ok":
            if not same_result(dflt, out):
                return "differs-from-default", "default %r variant %r" % (dflt[1], out[1])
        elif self.strict_errors and not same_result(dflt, out):
            return "accept-reject-differs", "default %r variant %r" % (dflt[:2], out[:2])
        return None, ""

    def run_shard(self, shard, tier, acc):
        fam, mod, rem = shard
        for idx, prog in streams.shard_stream(fam, tier, mod, rem):
            if acc.expired():
                acc.cap("wall budget reached in family %s" % fam)
                break
            if not self.filter(prog):
                continue
            ref = progcheck.reference(prog)
            if ref["negcycle"] and not self.include_negcycle:
                acc.counters["skipped_negative_cycle"] += 1
                continue
            dflt = self.run_default(prog)
            dsym, _ = progcheck.verdict(ref, dflt)
            if dsym is not None or dflt[0] in ("timeout", "recursion"):
                acc.counters["excluded_by_C01_C02:" + str(dsym or dflt[0]).split("@")[0]] += 1
                continue
            acc.states += 1
            if nontrivial(ref):
                acc.nontrivial += 1
            acc.sample({"family": fam, "index": idx, "program": program_text(prog)}, limit=2)
            for var in self.variants(prog, tier):
                out = self.run_variant(prog, var)
                acc.evaluations += 1
                acc.traces += 1
                acc.transitions += 1
                sym, detail = self.diff_symptom(ref, dflt, out)
                acc.outcomes[(ref["kind"], out[0] if out[0] != "error" else out[1], sym or "ok")] += 1
                if detail in ("timeout", "recursion"):
                    acc.counters[detail] += 1
                if sym:
                    self.report(prog, var, sym, acc)

    def case_of(self, prog, var):
        return {"program": program_text(prog), "ast": prog, "variant": var}

    def check_case(self, prog, var):
        """-> (symptom or None, detail, ref, dflt, out); None symptom also when default is wrong"""
        ref = progcheck.reference(prog)
        dflt = self.run_default(prog)
        dsym, _ = progcheck.verdict(ref, dflt)
        if dsym is not None or dflt[0] in ("timeout", "recursion"):
            return None, "default run itself is wrong (C01/C02 case)", ref, dflt, None
        out = self.run_variant(prog, var)
        sym, detail = self.diff_symptom(ref, dflt, out)
        return sym, detail, ref, dflt, out

    def shrink_variant(self, var):
        return []

    def report(self, prog, var, sym, acc):
        def fails(p):
            return self.check_case(p, var)[0] == sym

        small = progcheck.minimise(prog, fails, limit=120 if self.strong_shrink else 80, strong=self.strong_shrink)
        for v2 in self.shrink_variant(var):
            if self.check_case(small, v2)[0] == sym:
                var = v2
                break
        s, detail, ref, dflt, out = self.check_case(small, var)
        case = self.case_of(small, var)
        extra = None
        if sym.startswith("crash:"):  # exceptions are keyed by call site (+ variant) alone
            case, extra = {"site": sym, "variant": var}, {"program": case["program"], "ast": case["ast"]}
        acc.violation(sym, case, extra=extra, expected={"kind": ref["kind"], "P(q|e)": ref["cond"], "default": dflt},
                      observed=out, what="%s under %s: %s [%s]" % (sym, var, program_text(small), detail))

    def replay(self, case):
        s, detail, ref, dflt, out = self.check_case(case["ast"], case["variant"])
        return dict(ok=s is None, expected={"kind": ref["kind"], "P(q|e)": ref["cond"], "default": dflt},
                    observed={"variant_result": out, "symptom": s, "detail": detail})
