"""C14 - unification is sound and complete syntactic unification (E3: bounded-exhaustive term pairs).

What is enumerated
------------------
Ordered pairs (T1, T2) of terms over the alphabet

    constants  a  b  1  1.0  'A b'  "s"  []          (+ arity/quote clash extras  f  '1'  in component "full")
    unary      f/1
    binary     g/2  './2' ([H|T])                     (+ f/2 in component "full")
    variables  X Y Z, repeated and shared between T1 and T2

Three components (all exhaustive inside their bound, nothing is sampled):

  orb   one representative of EVERY orbit of pairs with |T1|,|T2| <= N symbols under the group
        G = Sym(variables) x Sym(constants) x Sym({g, '.'}).  Patterns are enumerated as restricted
        growth strings (classes numbered by first occurrence over T1 then T2); the representative maps
        constant class i to CONSTS[(i + r) mod 7] and binary class j to BINS[(j + r') mod 2] where
        (r, r') is a checksum of the pattern, so every alphabet symbol appears in many contexts.
  rot   for every orbit with |T1|,|T2| <= M (M < N): ALL 7 x 2 rotations of the representative.
  full  every concrete pair with |T1|,|T2| <= K over the full alphabet plus the clash extras
        (atom f vs f/1 vs f/2, atom '1' vs integer 1), modulo variable renaming only.

Symmetry argument.  Variables: a clause is compiled with its variables numbered by first occurrence,
so two pairs that differ by a variable renaming produce the *identical* compiled clause and query -
the reduction is exact.  Constants / binary functors: the reference is invariant under injective
renaming; the unifier under test inspects non-variable symbols only through equality of
``Term.signature`` (engine_unify.py), and ``signature`` is injective on the alphabet (checked in
``precheck``).  That equivariance is an assumption about the code, therefore it is not relied on
alone: "rot" and "full" execute all renamings / all concrete symbols on the smaller sizes.

Each pair is submitted five ways on a fresh SimpleProgram built with Term/Var/Constant/Clause:

    eq      q(Vars) :- T1 = T2.          query q(_,..)      bindings = values of Vars
    neq     n :- T1 \\= T2.              query n
    fact    h(T1').                      query h(T2)        T1' = T1 renamed apart
    clause  c(T1') :- true.              query c(T2)
    call    h(T1').  r(Vars2) :- h(T2).  query r(_,..)      bindings returned to a calling clause

Oracle (vf/ref/unify.py): category of the pair = mgu | cyclic | clash.
    mgu     exactly one answer, equal to the mgu instance up to variable renaming
    clash   (not unifiable even without occurs check) plain failure; an error is a violation
    cyclic  (unifiable only by a cyclic binding) failure or a ProbLogError; success is a violation
    neq     judged against the observed outcome of eq on the same pair (exact complement); errors
            are judged against the category.
1 vs 1.0: distinct constants (ProbLog documents its builtins "based on Yap Prolog", where 1 = 1.0
fails, and the statement says *syntactic* unification).
"""
import itertools
import zlib

from ..core import Prop, shrink, watchdog, WatchdogTimeout, canon
from ..ref import unify as R

CONSTS = ["a", "b", 1, 1.0, "'A b'", '"s"', "[]"]
EXTRA_CONSTS = ["f", "'1'"]
BINS = ["g", "."]
EXTRA_BINS = ["f"]
VARS = ["X", "Y", "Z"]
WAYS = ["eq", "neq", "fact", "clause", "call"]
WAY_RANK = {"eq": 0, "neq": 1, "fact": 2, "clause": 3, "call": 4}

TIERS = {
    # orb: list of (max size of each term, max sum of both), rot and full: (max size each, max sum)
    "quick": dict(orb=[(5, 10)], rot=(4, 7), full=(3, 5)),
    "thorough": dict(orb=[(6, 11), (7, 9)], rot=(5, 8), full=(4, 6)),
}
SHARD_TARGET = {"quick": 1500, "thorough": 6000}
BATCH = 8

# ---------------------------------------------------------------------------------------------
# enumeration

_SKEL = {}


def skeletons(n):
    """all tree shapes with n symbols: 'L' | ('U', s) | ('B', s, t)"""
    if n not in _SKEL:
        if n == 1:
            out = ["L"]
        else:
            out = [("U", s) for s in skeletons(n - 1)]
            for i in range(1, n - 1):
                for s in skeletons(i):
                    for t in skeletons(n - 1 - i):
                        out.append(("B", s, t))
        _SKEL[n] = out
    return _SKEL[n]


def sk_counts(s):
    """(leaves, binary nodes)"""
    if s == "L":
        return 1, 0
    if s[0] == "U":
        return sk_counts(s[1])
    a, b = sk_counts(s[1])
    c, d = sk_counts(s[2])
    return a + c, b + d + 1


def leaf_labelings(nleaves, nconst_concrete):
    """Label sequences for the leaves.  Variables are always restricted-growth (classes by first
    occurrence, at most len(VARS)).  Constants: restricted-growth classes ("k", i) with at most
    len(CONSTS) classes when nconst_concrete is None, else concrete indices ("c", i)."""
    maxv = len(VARS)
    maxc = len(CONSTS)

    def rec(i, kc, kv, cur):
        if i == nleaves:
            yield tuple(cur)
            return
        if nconst_concrete is None:
            for c in range(min(kc + 1, maxc)):
                cur.append(("k", c))
                yield from rec(i + 1, max(kc, c + 1), kv, cur)
                cur.pop()
        else:
            for c in range(nconst_concrete):
                cur.append(("c", c))
                yield from rec(i + 1, kc, kv, cur)
                cur.pop()
        for v in range(min(kv + 1, maxv)):
            cur.append(("v", v))
            yield from rec(i + 1, kc, max(kv, v + 1), cur)
            cur.pop()

    return rec(0, 0, 0, [])


def bin_labelings(nbin, concrete):
    if concrete is not None:
        return itertools.product(range(concrete), repeat=nbin)

    def rec(i, k, cur):
        if i == nbin:
            yield tuple(cur)
            return
        for c in range(min(k + 1, len(BINS))):
            cur.append(c)
            yield from rec(i + 1, max(k, c + 1), cur)
            cur.pop()

    return rec(0, 0, [])


_COUNT_MEMO = {}


def count_labelings(nleaves, nbin, full):
    key = (nleaves, nbin, full)
    if key not in _COUNT_MEMO:
        if full:
            nl = sum(1 for _ in leaf_labelings(nleaves, len(CONSTS) + len(EXTRA_CONSTS)))
            nb = (len(BINS) + len(EXTRA_BINS)) ** nbin
        else:
            nl = sum(1 for _ in leaf_labelings(nleaves, None))
            nb = sum(1 for _ in bin_labelings(nbin, None))
        _COUNT_MEMO[key] = nl * nb
    return _COUNT_MEMO[key]


def instantiate(skel, leaves, bins, cmap, bmap):
    """-> term; ``leaves`` and ``bins`` are iterators consumed in preorder"""
    if skel == "L":
        kind, i = next(leaves)
        if kind == "v":
            return VARS[i]
        return cmap[i]
    if skel[0] == "U":
        return ("f", instantiate(skel[1], leaves, bins, cmap, bmap))
    b = bmap[next(bins)]
    left = instantiate(skel[1], leaves, bins, cmap, bmap)
    return (b, left, instantiate(skel[2], leaves, bins, cmap, bmap))


def pairs_of(comp, s1, s2):
    """all concrete pairs of one skeleton pair for a component, in a fixed order"""
    l1, b1 = sk_counts(s1)
    l2, b2 = sk_counts(s2)
    nl, nb = l1 + l2, b1 + b2
    if comp == "full":
        cmap = CONSTS + EXTRA_CONSTS
        bmap = BINS + EXTRA_BINS
        for ll in leaf_labelings(nl, len(cmap)):
            for bl in bin_labelings(nb, len(bmap)):
                li, bi = iter(ll), iter(bl)
                t1 = instantiate(s1, li, bi, cmap, bmap)
                yield t1, instantiate(s2, li, bi, cmap, bmap)
        return
    for ll in leaf_labelings(nl, None):
        ncls = 1 + max([i for k, i in ll if k == "k"], default=-1)
        for bl in bin_labelings(nb, None):
            chk = zlib.crc32(repr((s1, s2, ll, bl)).encode())
            if comp == "orb":
                rots = [(chk % len(CONSTS), (chk // 7) % len(BINS))]
            else:
                rots = [(rc, rb) for rc in (range(len(CONSTS)) if ncls else [0])
                        for rb in (range(len(BINS)) if nb else [0])]
            for rc, rb in rots:
                cmap = [CONSTS[(i + rc) % len(CONSTS)] for i in range(len(CONSTS))]
                bmap = [BINS[(i + rb) % len(BINS)] for i in range(len(BINS))]
                li, bi = iter(ll), iter(bl)
                t1 = instantiate(s1, li, bi, cmap, bmap)
                yield t1, instantiate(s2, li, bi, cmap, bmap)


def size_pairs(tier):
    """-> list of (comp, n1, n2)"""
    cfg = TIERS[tier]
    res = []
    seen = set()
    for nmax, smax in cfg["orb"]:
        for n1 in range(1, nmax + 1):
            for n2 in range(1, nmax + 1):
                if n1 + n2 <= smax and (n1, n2) not in seen:
                    seen.add((n1, n2))
                    res.append(("orb", n1, n2))
    nmax, smax = cfg["rot"]
    for n1 in range(1, nmax + 1):
        for n2 in range(1, nmax + 1):
            if n1 + n2 <= smax:
                res.append(("rot", n1, n2))
    nmax, smax = cfg["full"]
    for n1 in range(1, nmax + 1):
        for n2 in range(1, nmax + 1):
            if n1 + n2 <= smax:
                res.append(("full", n1, n2))
    res.sort(key=lambda x: (x[1] + x[2], x[0], x[1]))
    return res


def make_shards(tier):
    target = SHARD_TARGET[tier]
    shards = []
    cur, curn = [], 0
    for comp, n1, n2 in size_pairs(tier):
        for i1, s1 in enumerate(skeletons(n1)):
            for i2, s2 in enumerate(skeletons(n2)):
                l1, b1 = sk_counts(s1)
                l2, b2 = sk_counts(s2)
                cnt = count_labelings(l1 + l2, b1 + b2, comp == "full")
                if comp == "rot":
                    cnt *= 8  # upper bound 14, typical lower
                if cnt > 2 * target:
                    m = -(-cnt // target)
                    for r in range(m):
                        shards.append([[[comp, n1, i1, n2, i2]], m, r])
                else:
                    cur.append([comp, n1, i1, n2, i2])
                    curn += cnt
                    if curn >= target:
                        shards.append([cur, 1, 0])
                        cur, curn = [], 0
    if cur:
        shards.append([cur, 1, 0])
    return shards


def cases_of(shard):
    groups, m, r = shard
    k = 0
    for comp, n1, i1, n2, i2 in groups:
        for t1, t2 in pairs_of(comp, skeletons(n1)[i1], skeletons(n2)[i2]):
            if k % m == r:
                yield comp, t1, t2
            k += 1


# ---------------------------------------------------------------------------------------------
# driving the implementation


def to_pl(t, L):
    if type(t) is tuple or type(t) is list:
        return L.Term(t[0], *[to_pl(x, L) for x in t[1:]])
    if type(t) is str:
        if R.is_var(t):
            return L.Var(t)
        if t[0] == '"':
            return L.Constant(t)
        return L.Term(t)
    return L.Constant(t)


def from_pl(x, L, fresh):
    if x is None:
        fresh[0] += 1
        return "_N%d" % fresh[0]
    if type(x) is int:
        return "_G%d" % x
    if isinstance(x, L.Var):
        return "_V" + str(x.name)
    if isinstance(x, L.Constant):
        f = x.functor
        return f if type(f) in (int, float) else str(f)
    if x.arity == 0:
        return str(x.functor)
    return (str(x.functor),) + tuple(from_pl(a, L, fresh) for a in x.args)


def rename_apart(t):
    if type(t) is tuple:
        return (t[0],) + tuple(rename_apart(x) for x in t[1:])
    if R.is_var(t):
        return "H" + t
    return t


class Runner(object):
    """Executes one (way, T1, T2) on the real implementation.  The engine is dropped after any
    exception (README: never reuse an engine after it raised)."""

    def __init__(self):
        self.eng = None
        self.executions = 0

    def engine(self):
        if self.eng is None:
            from problog.engine import DefaultEngine

            self.eng = DefaultEngine()
        return self.eng

    def add_pair(self, p, queries, idx, ways, t1, t2, L):
        """adds the clauses of one pair (predicates suffixed with idx) and its queries"""
        sfx = "" if idx is None else str(idx)
        a, b = to_pl(t1, L), to_pl(t2, L)
        vs = R.variables(("p", t1, t2))
        if "eq" in ways or "neq" in ways:
            p.add_clause(L.Clause(L.Term("q" + sfx, *[L.Var(v) for v in vs]), L.Term("=", a, b)))
            queries[idx, "eq"] = L.Term("q" + sfx, *[None] * len(vs))
            p.add_clause(L.Clause(L.Term("n" + sfx), L.Term("\\=", a, b)))
            queries[idx, "neq"] = L.Term("n" + sfx)
        h1 = to_pl(rename_apart(t1), L)
        if "fact" in ways or "call" in ways:
            p.add_fact(L.Term("h" + sfx, h1))
            queries[idx, "fact"] = L.Term("h" + sfx, b)
        if "clause" in ways:
            p.add_clause(L.Clause(L.Term("c" + sfx, h1), L.Term("true")))
            queries[idx, "clause"] = L.Term("c" + sfx, b)
        if "call" in ways:
            v2 = R.variables(t2)
            p.add_clause(L.Clause(L.Term("r" + sfx, *[L.Var(v) for v in v2]), L.Term("h" + sfx, b)))
            queries[idx, "call"] = L.Term("r" + sfx, *[None] * len(v2))

    def observe(self, ways, t1, t2):
        return self.observe_batch([(ways, t1, t2)], single=True)[0]

    def observe_batch(self, items, single=False):
        """items = [(ways, T1, T2)] -> [{way: outcome}]; outcome = ("ok", [tuple of ref terms, ...])
        | ("error", cls, site) | ("crash", cls, site) | ("timeout",) | ("recursion",).
        The pairs of a batch live in one program under distinct predicate names (creating a
        ClauseDB costs 1 ms); after any exception engine and database are rebuilt."""
        import problog.logic as L
        from problog.program import SimpleProgram
        from problog.errors import ProbLogError
        from ..plrun import innermost_problog_frame

        p = SimpleProgram()
        queries = {}
        needs = []
        try:
            for i, (ways, t1, t2) in enumerate(items):
                need = list(ways)
                if "neq" in need and "eq" not in need:
                    need.insert(0, "eq")
                needs.append(need)
                self.add_pair(p, queries, None if single else i, need, t1, t2, L)
        except Exception as exc:  # noqa - constructing the program is outside the property
            o = ("crash", type(exc).__name__, "build:" + innermost_problog_frame(exc))
            return [{w: o for w in WAYS} for _ in items]
        res = [dict() for _ in items]
        state = [None, None]  # compiled database, engine it is attached to

        def attempt(q, seconds):
            eng = self.engine()  # created (and problog imported) outside the watchdog
            try:
                with watchdog(seconds):
                    if state[0] is None:
                        state[0] = eng.prepare(p)
                        state[1] = eng
                    elif state[1] is not eng:
                        # the engine was dropped after an exception: attach the compiled (read-only)
                        # database to the fresh engine - prepare() on a ClauseDB does exactly that
                        state[0] = eng.prepare(state[0])
                        state[1] = eng
                    out = eng.query(state[0], q)
                    fresh = [0]
                    return ("ok", [tuple(from_pl(x, L, fresh) for x in r) for r in out])
            except WatchdogTimeout:
                o = ("timeout",)
                state[0] = None
            except RecursionError:
                o = ("recursion",)
                state[0] = None
            except ProbLogError as exc:
                o = ("error", type(exc).__name__, innermost_problog_frame(exc))
            except Exception as exc:  # noqa
                o = ("crash", type(exc).__name__, innermost_problog_frame(exc))
                state[0] = None
            self.eng = None
            return o

        for i in range(len(items)):
            for w in needs[i]:
                self.executions += 1
                q = queries[None if single else i, w]
                o = attempt(q, 3)
                if o[0] == "timeout":  # a loaded machine must not look like a hang: once more, longer
                    o = attempt(q, 15)
                res[i][w] = o
        return res


# ---------------------------------------------------------------------------------------------
# oracle


def expectation(way, t1, t2):
    """-> (category, expected answer tuple or None)"""
    if way in ("eq", "neq"):
        cat, s = R.classify(t1, t2)
        vs = R.variables(("p", t1, t2))
        exp = tuple(R.resolve(v, s) for v in vs) if s is not None else None
    else:
        cat, s = R.classify(rename_apart(t1), t2)
        if s is None:
            exp = None
        elif way == "call":
            exp = tuple(R.resolve(v, s) for v in R.variables(t2))
        else:
            exp = (R.resolve(t2, s),)
    return cat, exp


def show_answer(ans):
    return "(" + ", ".join(R.show(x) for x in R.canon_tuple(ans)) + ")"


def show_outcome(o):
    if o[0] == "ok":
        if not o[1]:
            return "fails"
        return "succeeds with " + "; ".join(show_answer(a) for a in o[1])
    if o[0] in ("error", "crash"):
        return "raises %s in %s" % (o[1], o[2])
    return o[0]


def judge_positive(way, t1, t2, o):
    """-> (symptom | None, unjudged reason | None, category, expected text)"""
    cat, exp = expectation(way, t1, t2)
    etext = {"mgu": "succeeds once with %s" % (show_answer(exp) if exp is not None else ""),
             "clash": "fails (no unifier, not even a cyclic one)",
             "cyclic": "fails or raises a ProbLogError (needs a cyclic binding)"}[cat]
    if o[0] == "timeout":
        return None, "timeout", cat, etext
    if o[0] in ("recursion", "crash"):
        if cat == "cyclic":
            return None, "non-problog-error-on-cyclic", cat, etext
        if o[0] == "recursion":
            return "crash:RecursionError@?", None, cat, etext
        return "crash:%s@%s" % (o[1], o[2]), None, cat, etext
    if o[0] == "error":
        if cat == "mgu":
            return "error-must-succeed:%s@%s" % (o[1], o[2]), None, cat, etext
        if cat == "clash":
            return "error-must-fail:%s@%s" % (o[1], o[2]), None, cat, etext
        return None, None, cat, etext
    answers = o[1]
    if not answers:
        return ("failure-with-mgu" if cat == "mgu" else None), None, cat, etext
    if cat != "mgu":
        return "success-without-mgu:" + cat, None, cat, etext
    if len(answers) != 1:
        return "solution-count", None, cat, etext
    if not R.same_terms(answers[0], exp):
        return "wrong-bindings", None, cat, etext
    return None, None, cat, etext


def judge_neq(t1, t2, oeq, o):
    cat, _ = expectation("neq", t1, t2)
    etext = "\\= succeeds exactly when = fails; here = %s" % show_outcome(oeq)
    if o[0] == "timeout" or oeq[0] == "timeout":
        return None, "timeout", cat, etext
    if o[0] in ("recursion", "crash"):
        if cat == "cyclic":
            return None, "non-problog-error-on-cyclic", cat, etext
        if o[0] == "recursion":
            return "crash:RecursionError@?", None, cat, etext
        return "crash:%s@%s" % (o[1], o[2]), None, cat, etext
    if o[0] == "error":
        if cat == "mgu":
            return "error-must-fail:%s@%s" % (o[1], o[2]), None, cat, "\\= fails (the terms unify)"
        if cat == "clash":
            return "error-must-succeed:%s@%s" % (o[1], o[2]), None, cat, "\\= succeeds (no unifier)"
        return None, None, cat, etext
    if oeq[0] != "ok":
        # = raised: already judged under way eq; whether \= may then succeed or fail is not
        # fixed by the statement
        return None, "neq-after-eq-error", cat, etext
    if bool(o[1]) == bool(oeq[1]):
        return "complement-broken", None, cat, etext
    return None, None, cat, etext


SITE_SYMPTOMS = ("error-must-fail:", "error-must-succeed:", "crash:")


def is_site_symptom(sym):
    return sym is not None and sym.startswith(SITE_SYMPTOMS)


# ---------------------------------------------------------------------------------------------
# shrinking

_LEAF_W = {}
for _i, _c in enumerate(CONSTS + EXTRA_CONSTS):
    _LEAF_W[R.typed(_c)] = _i
_FUN_W = {"f": 0, "g": 0, ".": 1}


def weight(t):
    if type(t) is tuple:
        return _FUN_W.get(t[0], 2) + (2 if (t[0] == "f" and len(t) == 3) else 0) + sum(weight(x) for x in t[1:])
    if R.is_var(t):
        return 20
    return _LEAF_W.get(R.typed(t), 9)


def canon_pair(t1, t2):
    """rename variables to X, Y, Z by first occurrence over (T1, T2)"""
    m = {}

    def r(t):
        if type(t) is tuple:
            return (t[0],) + tuple(r(x) for x in t[1:])
        if R.is_var(t):
            if t not in m:
                m[t] = VARS[len(m)] if len(m) < len(VARS) else "V%d" % len(m)
            return m[t]
        return t

    a = r(t1)
    return a, r(t2)


def measure(way, t1, t2):
    return (R.size(t1) + R.size(t2), weight(t1) + weight(t2), len(R.variables(("p", t1, t2))),
            WAY_RANK[way], canon([R.to_json(t1), R.to_json(t2)]))


def variants(t):
    """terms obtained by replacing exactly one subterm by one of its children or by the first
    constant, or one functor by the canonical functor of its arity; outermost first"""
    if type(t) is tuple:
        for c in t[1:]:
            yield c
    if not (type(t) is str and t == "a"):
        yield "a"
    if type(t) is tuple:
        if len(t) == 3:
            # a binary node with a constant argument acts as a unary wrapper of the other one
            if not R.is_var(t[1]) and type(t[1]) is not tuple:
                yield ("f", t[2])
            if not R.is_var(t[2]) and type(t[2]) is not tuple:
                yield ("f", t[1])
            if t[0] != "g":
                yield ("g",) + t[1:]
        if len(t) == 2 and t[0] != "f":
            yield ("f",) + t[1:]
        for i in range(1, len(t)):
            for v in variants(t[i]):
                yield t[:i] + (v,) + t[i + 1:]


def paired_variants(t1, t2):
    """where both terms have the same functor/arity along a path: replace both subterms at that
    position by their i-th arguments (strips a wrapper common to both sides); outermost first"""
    if type(t1) is tuple and type(t2) is tuple and len(t1) == len(t2) and t1[0] == t2[0]:
        for i in range(1, len(t1)):
            yield t1[i], t2[i]
        for i in range(1, len(t1)):
            for a, b in paired_variants(t1[i], t2[i]):
                yield t1[:i] + (a,) + t1[i + 1:], t2[:i] + (b,) + t2[i + 1:]


def subst_var(t, v, w):
    if type(t) is tuple:
        return (t[0],) + tuple(subst_var(x, v, w) for x in t[1:])
    return w if (type(t) is str and t == v) else t


def rename_symbol(t, old, new, arity):
    """replace every occurrence of the symbol old/arity by new (arity 0: constants)"""
    if type(t) is tuple:
        f = new if (len(t) - 1 == arity and t[0] == old) else t[0]
        return (f,) + tuple(rename_symbol(x, old, new, arity) for x in t[1:])
    if arity == 0 and not R.is_var(t) and R.typed(t) == R.typed(old):
        return new
    return t


def symbols(t, acc):
    """(constants, binary functors) in order of first occurrence"""
    if type(t) is tuple:
        if len(t) == 3 and t[0] not in acc[1]:
            acc[1].append(t[0])
        for x in t[1:]:
            symbols(x, acc)
    elif not R.is_var(t) and R.typed(t) not in [R.typed(c) for c in acc[0]]:
        acc[0].append(t)
    return acc


def mirror(t):
    if type(t) is tuple and len(t) == 3:
        return (t[0], t[2], t[1])
    return t


def shrink_candidates(case):
    way, t1, t2 = case["way"], R.from_json(case["t1"]), R.from_json(case["t2"])
    m0 = measure(way, t1, t2)
    seen = set()
    out = []

    def push(w, a, b):
        a, b = canon_pair(a, b)
        m = measure(w, a, b)
        if m < m0 and m not in seen:
            seen.add(m)
            out.append(dict(way=w, t1=R.to_json(a), t2=R.to_json(b)))

    for a, b in paired_variants(t1, t2):
        push(way, a, b)
    for v in variants(t1):
        push(way, v, t2)
    for v in variants(t2):
        push(way, t1, v)
    consts, bins = symbols(("p", t1, t2), ([], []))
    for b in bins:
        if b != "g":
            push(way, rename_symbol(t1, b, "g", 2), rename_symbol(t2, b, "g", 2))
    for c in consts:
        for new in ("a", "b"):
            if R.typed(c) != R.typed(new):
                push(way, rename_symbol(t1, c, new, 0), rename_symbol(t2, c, new, 0))
    vs = R.variables(("p", t1, t2))
    for i, v in enumerate(vs):
        for w in vs[:i]:
            push(way, subst_var(t1, v, w), subst_var(t2, v, w))
    push(way, t2, t1)
    push(way, mirror(t1), mirror(t2))
    push(way, mirror(t2), mirror(t1))
    for w in WAYS:
        if WAY_RANK[w] < WAY_RANK[way] and (w in ("fact", "clause")) and way in ("clause", "call"):
            push(w, t1, t2)
    return out


class Checker(object):
    """judge + memoised deterministic shrink (one per worker process)"""

    def __init__(self):
        self.runner = Runner()
        self.memo = {}
        self.minmemo = {}
        self.site_examples = {}

    def judge(self, way, t1, t2, obs=None):
        """-> dict(sym, unjudged, cat, expected, observed, outcome)"""
        if obs is None:
            obs = self.runner.observe([way], t1, t2)
        o = obs[way]
        if way == "neq":
            sym, unj, cat, etext = judge_neq(t1, t2, obs["eq"], o)
        else:
            sym, unj, cat, etext = judge_positive(way, t1, t2, o)
        return dict(sym=sym, unjudged=unj, cat=cat, expected=etext, observed=show_outcome(o), outcome=o[0] if o[0] != "ok" else ("success" if o[1] else "failure"))

    def symptom_of(self, case):
        k = canon(case)
        if k not in self.memo:
            if len(self.memo) > 200000:
                self.memo.clear()
            self.memo[k] = self.judge(case["way"], R.from_json(case["t1"]), R.from_json(case["t2"]))["sym"]
        return self.memo[k]

    def symptoms_of(self, cases):
        """memoised symptoms of several cases, the unknown ones executed in one program"""
        todo = [c for c in cases if canon(c) not in self.memo]
        if len(todo) == 1:
            self.symptom_of(todo[0])
        elif todo:
            obs = self.runner.observe_batch([([c["way"]], R.from_json(c["t1"]), R.from_json(c["t2"])) for c in todo])
            for c, o in zip(todo, obs):
                self.memo[canon(c)] = self.judge(c["way"], R.from_json(c["t1"]), R.from_json(c["t2"]), o)["sym"]
        return [self.memo[canon(c)] for c in cases]

    def minimise(self, sym, case):
        """greedy deterministic shrink (first smaller candidate with the same symptom), memoised:
        min(case) = min(first failing candidate)"""
        path = []
        cur = case
        while True:
            k = (sym, canon(cur))
            if k in self.minmemo:
                cur = self.minmemo[k]
                break
            path.append(k)
            nxt = None
            cands = shrink_candidates(cur)
            for i in range(0, len(cands), BATCH):
                chunk = cands[i:i + BATCH]
                hits = [c for c, sy in zip(chunk, self.symptoms_of(chunk)) if sy == sym]
                if hits:
                    nxt = hits[0]
                    break
            if nxt is None:
                break
            cur = nxt
        if len(self.minmemo) > 200000:
            self.minmemo.clear()
        for k in path:
            self.minmemo[k] = cur
        return cur


def what_text(way, t1, t2):
    a, b = R.show(t1), R.show(t2)
    ha = R.show(rename_apart(t1))
    return {"eq": "%s = %s" % (a, b), "neq": "%s \\= %s" % (a, b),
            "fact": "fact h(%s). called as h(%s)" % (ha, b),
            "clause": "clause c(%s) :- true. called as c(%s)" % (ha, b),
            "call": "fact h(%s). called from r(..) :- h(%s)" % (ha, b)}[way]


def nontrivial(t1, t2):
    if R.is_var(t1) or R.is_var(t2):
        return True
    return type(t1) is tuple and type(t2) is tuple and len(t1) == len(t2) and R.same_constant(t1[0], t2[0])


_CHECKER = None


def checker():
    global _CHECKER
    if _CHECKER is None:
        _CHECKER = Checker()
    return _CHECKER


def smallest_first(limit_n=6, limit_sum=11):
    """the "orb" representatives in order of total size (used to replay site-keyed findings)"""
    sp = [(n1, n2) for n1 in range(1, limit_n + 1) for n2 in range(1, limit_n + 1) if n1 + n2 <= limit_sum]
    sp.sort(key=lambda x: (x[0] + x[1], x[0]))
    for n1, n2 in sp:
        for s1 in skeletons(n1):
            for s2 in skeletons(n2):
                for t1, t2 in pairs_of("orb", s1, s2):
                    yield t1, t2


def has_repeated_variable(t1, t2):
    seen = set()
    stack = [t1, t2]
    while stack:
        t = stack.pop()
        if type(t) is tuple:
            stack.extend(t[1:])
        elif R.is_var(t):
            if t in seen:
                return True
            seen.add(t)
    return False


class C14(Prop):
    pid = "C14"
    title = "Unification is sound and complete syntactic unification"
    technique = ("bounded-exhaustive enumeration of ordered term pairs executed on the real engine "
                 "(=/2, \\=/2, fact / clause head matching, call from a clause body) against a Robinson "
                 "unifier with occurs check and a rational-tree unifiability test (vf/ref/unify.py)")
    rule = ("orb: one representative of every orbit of ordered pairs (each term <= N symbols) under renaming of "
            "variables, constants and the two binary functors, representative rotated through "
            "{a,b,1,1.0,'A b',\"s\",[]} x {g,'.'} by a checksum of the pattern; rot: all 14 rotations for the "
            "smaller sizes; full: every concrete pair over the alphabet plus clash extras (f/0,f/2,'1') modulo "
            "variable renaming; quick: orb N=5, rot <=4 (sum<=7), full <=3 (sum<=5); thorough: orb N=6 "
            "(sum<=11) plus N=7 (sum<=9), rot <=5 (sum<=8), full <=4 (sum<=6). A pair is non-trivial when the root symbols do "
            "not clash at once (same functor/arity with arguments, or one side a variable). states = pairs, "
            "evaluations = queries executed (5 per pair + shrinking)")
    assumptions = [
        "1 and 1.0 are distinct constants (Yap/ISO; ProbLog documents its builtins as based on Yap)",
        "on a pair unifiable only with a cyclic binding, failure and any ProbLogError are both accepted; a "
        "non-ProbLog exception or timeout there is counted as unjudged",
        "when = raises, the outcome of \\= (other than raising where it must answer) is unjudged",
        "equivariance of the unifier under renaming of constants / binary functors is assumed for the largest "
        "sizes only (orb); it is exercised exhaustively on the smaller sizes (rot, full)",
        "a quoted atom that needs no quotes is the same atom as the unquoted one; '1' is an atom, not the integer 1",
    ]
    budget = {"quick": 300, "thorough": 1500}

    def precheck(self, tier):
        return validate_reference()

    def shards(self, tier):
        return make_shards(tier)

    def run_shard(self, shard, tier, acc):
        ck = checker()
        batch = []
        for comp, t1, t2 in cases_of(shard):
            if acc.expired():
                acc.cap("wall budget reached inside shard")
                break
            t1, t2 = canon_pair(t1, t2)
            batch.append((comp, t1, t2))
            if len(batch) >= BATCH:
                self.run_batch(ck, acc, batch)
                batch = []
        if batch:
            self.run_batch(ck, acc, batch)

    def run_batch(self, ck, acc, batch):
        n0 = ck.runner.executions
        allobs = ck.runner.observe_batch([(WAYS, t1, t2) for _, t1, t2 in batch])
        for (comp, t1, t2), obs in zip(batch, allobs):
            acc.states += 1
            acc.counters["pairs_" + comp] += 1
            if nontrivial(t1, t2):
                acc.nontrivial += 1
            acc.sample({"comp": comp, "t1": R.to_json(t1), "t2": R.to_json(t2)})
            for way in WAYS:
                acc.traces += 1
                j = ck.judge(way, t1, t2, obs)
                acc.outcomes["%s:%s:%s" % (way, j["cat"], j["outcome"])] += 1
                if j["unjudged"]:
                    acc.counters["unjudged:" + j["unjudged"]] += 1
                    if j["unjudged"] == "timeout" and obs[way][0] == "timeout":
                        acc.counters["timeout-example: " + what_text(way, t1, t2)] += 1
                if j["sym"] is None:
                    continue
                case = dict(way=way, t1=R.to_json(t1), t2=R.to_json(t2))
                # re-run once on a program that contains only this way before reporting
                if ck.symptom_of(case) != j["sym"]:
                    acc.counters["unstable_not_reported"] += 1
                    continue
                self.report(ck, acc, j["sym"], case)
        acc.evaluations += ck.runner.executions - n0
        acc.transitions += ck.runner.executions - n0

    def report(self, ck, acc, sym, case):
        if is_site_symptom(sym):
            # keyed by call site alone: shrink only the first example seen by this worker
            k = (sym, case["way"])
            if k not in ck.site_examples:
                ck.site_examples[k] = ck.minimise(sym, case)
            small = ck.site_examples[k]
        else:
            small = ck.minimise(sym, case)
        t1, t2 = R.from_json(small["t1"]), R.from_json(small["t2"])
        j = ck.judge(small["way"], t1, t2)
        text = what_text(small["way"], t1, t2)
        if is_site_symptom(sym):
            # keyed by call site alone; the minimal example goes to the record, not to the key
            key_case = dict(way=small["way"], kind=sym.split(":", 1)[0], site=sym.split(":", 1)[1])
            acc.violation(sym, key_case, expected=j["expected"], observed="e.g. %s %s" % (text, j["observed"]),
                          what="%s: %s" % (text, j["observed"]))
        else:
            acc.violation(sym, small, expected=j["expected"], observed=j["observed"],
                          what="%s: %s; expected: %s" % (text, j["observed"], j["expected"]))

    def replay(self, case):
        ck = Checker()
        if "site" in case:
            # keyed by call site: search the smallest pair (orbit representatives, smallest total size
            # first, at most 10 minutes) whose category asks for an answer and which raises there
            import time

            t0 = time.time()
            want_cat = {"error-must-fail": ("clash", "mgu") if case["way"] == "neq" else ("clash",),
                        "error-must-succeed": ("clash", "mgu") if case["way"] == "neq" else ("mgu",)}.get(case["kind"])
            want = None
            tried = 0
            for t1, t2 in smallest_first():
                if time.time() - t0 > 600:
                    break
                t1, t2 = canon_pair(t1, t2)
                if "OccursCheck" in case["site"] and not has_repeated_variable(t1, t2):
                    continue
                if want_cat is not None and expectation(case["way"], t1, t2)[0] not in want_cat:
                    continue
                tried += 1
                j = ck.judge(case["way"], t1, t2)
                if j["sym"] == "%s:%s" % (case["kind"], case["site"]):
                    want = (t1, t2, j)
                    break
            if want is None:
                return dict(ok=True, expected="no candidate pair raises at this site",
                            observed="none of %d candidate pairs (<= 6 symbols per term) raises there" % tried)
            t1, t2, j = want
            return dict(ok=False, expected=j["expected"],
                        observed="%s %s [%s]" % (what_text(case["way"], t1, t2), j["observed"], j["sym"]))
        t1, t2 = R.from_json(case["t1"]), R.from_json(case["t2"])
        j = ck.judge(case["way"], t1, t2)
        return dict(ok=j["sym"] is None, expected=j["expected"],
                    observed="%s %s%s" % (what_text(case["way"], t1, t2), j["observed"],
                                          " [%s]" % j["sym"] if j["sym"] else ""))


# ---------------------------------------------------------------------------------------------
# validation of the reference against ground truth that does not use it


def _small_terms(consts, depth):
    ts = list(consts)
    for _ in range(depth):
        ts = list(consts) + [("f", t) for t in ts] + [("g", s, t) for s in ts for t in ts]
    return ts


def validate_reference():
    """(1) hand-written table of textbook cases; (2) brute force on all pairs of terms with <= 3
    symbols over {a, b, f/1, g/2, X, Y}: whenever some substitution of the variables by terms of a
    finite universe makes the two sides identical the reference must find an mgu, the mgu must
    unify, and every brute-force unifier must be an instance of it; (3) signature injectivity of the
    alphabet in the implementation and agreement of the constructor forms with the parser's."""
    table = [
        ("a", "a", "mgu"), ("a", "b", "clash"), (1, 1.0, "clash"), (1, 1, "mgu"), ("X", "a", "mgu"),
        ("X", ("f", "X"), "cyclic"), (("g", "X", "Y"), ("g", ("f", "Y"), ("f", "X")), "cyclic"),
        (("g", "a", "X"), ("g", "X", ("f", "X")), "clash"), (("g", "X", "X"), ("g", "a", "b"), "clash"),
        (("g", "X", ("g", "a", "Y")), ("g", "Y", ("g", "Y", "Y")), "mgu"), (("f", "X"), ("g", "X", "X"), "clash"),
        (("g", "X", ("f", "X")), ("g", "Y", "Y"), "cyclic"), ("'a'", "a", "mgu"), ("'1'", 1, "clash"),
        ('"s"', "s", "clash"), ("[]", ("." , "X", "Y"), "clash"), ((".", "X", "[]"), (".", "a", "Y"), "mgu"),
        (("g", ("f", "X"), "X"), ("g", "Y", ("f", "Y")), "cyclic"), ("f", ("f", "a"), "clash"),
    ]
    for a, b, want in table:
        got = R.classify(a, b)[0]
        if got != want:
            raise RuntimeError("reference unifier broken: %r vs %r -> %s, expected %s" % (a, b, got, want))
    s = R.unify(("g", "X", ("g", "a", "Y")), ("g", "Y", ("g", "Y", "Y")))
    if R.resolve("X", s) != "a" or R.resolve("Y", s) != "a":
        raise RuntimeError("reference unifier broken: bindings")
    leaves = ["a", "b", "X", "Y"]
    terms = [t for t in _small_terms(leaves, 2) if R.size(t) <= 3]
    universe = [t for t in _small_terms(["a", "b", "U", "W"], 2) if R.size(t) <= 3]
    n = 0
    for t1 in terms:
        for t2 in terms:
            n += 1
            s = R.unify(t1, t2)
            vs = R.variables(("p", t1, t2))
            found = []
            for vals in itertools.product(universe, repeat=len(vs)):
                sub = dict(zip(vs, vals))
                if R.resolve(t1, sub) == R.resolve(t2, sub):
                    found.append(sub)
            if s is None:
                if found:
                    raise RuntimeError("reference unifier incomplete on %r %r" % (t1, t2))
                continue
            if R.resolve(t1, s) != R.resolve(t2, s):
                raise RuntimeError("reference mgu does not unify %r %r" % (t1, t2))
            for sub in found:
                # most general: the brute-force unifier is an instance of the mgu answer (matching =
                # unification against the target with its variables frozen to constants)
                inst = tuple(R.resolve(v, s) for v in vs)
                tgt = tuple(R.resolve(sub[v], {"U": "u", "W": "w"}) for v in vs)
                if R.unify(("p",) + inst, ("p",) + tgt) is None:
                    raise RuntimeError("reference mgu not most general on %r %r" % (t1, t2))
    # signature injectivity on the alphabet (symmetry argument) and constructor/parser agreement
    import problog.logic as L

    sigs = {}
    for c in CONSTS:
        sigs.setdefault(to_pl(c, L).signature, []).append(c)
    for b in BINS:
        sigs.setdefault(to_pl((b, "a", "a"), L).signature, []).append(b)
    sigs.setdefault(to_pl(("f", "a"), L).signature, []).append("f/1")
    dup = {k: v for k, v in sigs.items() if len(v) > 1}
    parsed = 0
    for c in CONSTS + EXTRA_CONSTS + [("f", "X"), ("g", "a", 1), (".", "a", "T"), (".", "a", "[]")]:
        a, b = to_pl(c, L), L.Term.from_string(R.show(c))
        if type(a) is not type(b) or a.functor != b.functor or type(a.functor) is not type(b.functor) \
                or repr(a) != repr(b):
            raise RuntimeError("constructor form of %r differs from the parser's" % (c,))
        parsed += 1
    return dict(reference_validated=dict(table=len(table), brute_force_pairs=n, constructors_vs_parser=parsed,
                                         signature_collisions_in_alphabet=dup))


PROP = C14()
