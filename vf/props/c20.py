"""C20 MPE returns a most probable world consistent with the evidence.

Every evidence-carrying program of the program grammars — with every probabilistic fact, probabilistic
rule head and AD head added as a query, so that the MPE assignment ranges over all ground choices — is
given to the real ``mpe_maxsat`` (bundled maxsatz) and ``mpe_semiring`` exactly as
problog/tasks/mpe.py:main_mpe_maxsat / main_mpe_semiring call them, and compared with the brute-force
optimiser R8 over all possible worlds (vf/ref/optimise.py on top of R1)."""
import contextlib
import io
import itertools
import math
from fractions import Fraction
import os

from ..core import Prop, watchdog, WatchdogTimeout
from ..gen import streams
from ..gen.programs import program_text
from ..ref import worlds, optimise
from ..plrun import classify_exception
from .. import progcheck

TOL = 1e-9
MODES = ("maxsat", "semiring")
UNSAT_ERRORS = ("UnsatisfiableError", "InconsistentEvidenceError")
UNJUDGED = ("skipped", "timeout", "recursion", "unsat-as-zero-probability")
W_MULT = 10000.0  # cnf_formula.CNF._contents(weighted=int): integer weight = int(-log(p) * w_mult)


def with_choice_queries(prog):
    """the program with every ground head of a probabilistic clause instance added as a query"""
    gp = worlds.GroundProgram(prog)
    qs = [list(q) for q in prog.get("queries", [])]
    for ci, vals, heads, pos, neg in gp.instances:
        cl = prog["clauses"][ci]
        if not any(p is not None for p, _ in cl["heads"]):
            continue
        s = dict(zip(worlds.clause_vars(cl), vals))
        for _, h in cl["heads"]:
            a = worlds.subst_atom(h, s)
            if a not in qs:
                qs.append(a)
    return {"clauses": prog["clauses"], "queries": qs, "evidence": prog.get("evidence", [])}


def lit_of(term):
    """Term -> (atom string, sign)"""
    if term.is_negated():
        return str(-term).replace(" ", ""), False
    return str(term).replace(" ", ""), True


_MAXSATZ = {}
MAXSATZ_STATS = {"hit": 0, "miss": 0}


def install_maxsatz_cache():
    """Memoise the external maxsatz process per worker (about 0.1-0.3 s CPU per call, most of it start-up): it
    is a deterministic function of the WCNF file it is given.  Everything on the Python side (CNF construction,
    weighted DIMACS encoding, output parsing, probability computation) still runs for every case.  Disabled
    with VERIF_NO_MAXSATZ_CACHE=1."""
    import os
    import problog.maxsat as M

    if os.environ.get("VERIF_NO_MAXSATZ_CACHE") or getattr(M, "_vf_cache_installed", False):
        return
    real = M.subprocess_check_output

    def cached(cmd, *a, **kw):
        try:
            if os.path.basename(cmd[0]).startswith("maxsatz") and len(cmd) == 2:
                with open(cmd[1]) as f:
                    key = f.read()
                if key in _MAXSATZ:
                    MAXSATZ_STATS["hit"] += 1
                    return _MAXSATZ[key]
                out = real(cmd, *a, **kw)
                MAXSATZ_STATS["miss"] += 1
                if len(_MAXSATZ) > 20000:
                    _MAXSATZ.clear()
                _MAXSATZ[key] = out
                return out
        except (IndexError, OSError):
            pass
        return real(cmd, *a, **kw)

    M.subprocess_check_output = cached
    M._vf_cache_installed = True


def run_mpe(src, mode, timeout=10):
    """-> ("ok", prob, [(atom, sign)]) | ("unsat", how) | ("error", cls) | ("crash", cls, site) | ("timeout",)"""
    from problog.program import PrologString
    from problog.formula import LogicFormula, LogicDAG
    from problog.tasks import mpe

    install_maxsatz_cache()
    try:
        with watchdog(timeout):
            pl = PrologString(src)
            if mode == "maxsat":
                dag = LogicDAG.createFrom(pl, avoid_name_clash=True, label_all=True, labels=[("output", 1)])
                prob, facts = mpe.mpe_maxsat(dag, verbose=0, solver=None, minpe=False)
            else:
                lf = LogicFormula.create_from(pl, label_all=True, avoid_name_clash=True)
                with contextlib.redirect_stderr(io.StringIO()):  # "WARNING: compound queries are not supported ..."
                    prob, facts = mpe.mpe_semiring(lf, 0, minpe=False)
            if facts is None:
                return ("unsat", "facts=None")
            return ("ok", float(prob), sorted(lit_of(t) for t in facts))
    except WatchdogTimeout:
        return ("timeout",)
    except RecursionError:
        return ("recursion",)
    except Exception as exc:  # noqa
        c = classify_exception(exc)
        if c[0] == "error" and c[1] in UNSAT_ERRORS:
            return ("unsat", c[1])
        return c


def plain_choice_atoms(gp):
    """atoms defined by exactly one clause instance which is a body-less single-head probabilistic fact:
    the truth value of such an atom *is* the value of its choice (semiring mode reports choices by name)"""
    count = {}
    plain = set()
    for ci, vals, heads, pos, neg in gp.all_instances:
        for p, h in heads:
            count[h] = count.get(h, 0) + 1
        if len(heads) == 1 and heads[0][0] is not None and not pos and not neg:
            plain.add(heads[0][1])
    return {a for a in plain if count[a] == 1}


def judge(ref, out, mode):
    """-> (symptom or None, detail)"""
    tag = out[0]
    if tag in ("timeout", "recursion"):
        return None, tag
    if tag == "crash":
        return "crash:%s@%s" % (out[1], out[2]), "internal exception"
    if ref["pe"] == 0:
        if tag == "unsat":
            return None, "unsat"
        if tag == "error":
            return "error-must-report-unsat:%s" % out[1], "P(evidence)=0, expected an unsatisfiable report"
        if out[1] <= 1e-12:
            return None, "unsat-as-zero-probability"
        return "unsat-not-reported", "P(evidence)=0 but reported probability %.10g with %s" % (out[1], fmt(out[2]))
    if tag == "unsat":
        return "spurious-unsat", "reported unsatisfiable (%s) but P(evidence) = %.10g" % (out[1], float(ref["pe"]))
    if tag == "error":
        return "error-must-answer:%s" % out[1], "P(evidence) = %.10g" % float(ref["pe"])
    prob, lits = out[1], out[2]
    plain = plain_choice_atoms(ref["gp"])
    judged = [(a, s) for a, s in lits if mode == "maxsat" or a in plain]
    slack = math.exp(-ref["nlits"] / W_MULT) if mode == "maxsat" else 1.0
    n = ref["nchoices"]
    exc = ref["excludable"][:4]
    variants = []  # the sets of choices whose probabilities are multiplied: all, or all but some excludable ones
    for k in range(len(exc) + 1):
        for drop in itertools.combinations(exc, k):
            variants.append([i for i in range(n) if i not in drop])
    if len(ref["excludable"]) > 4:
        variants.append([i for i in range(n) if i not in ref["excludable"]])

    def prod(probs, keep):
        v = 1.0
        for i in keep:
            v *= float(probs[i])
        return v

    match_any = False  # some evidence-consistent world agrees with the literals
    match_max = False  # ... and is maximal (within the quantisation)
    matching = [row for row in ref["consistent"] if all((a in row[1]) == s for a, s in judged)]
    match_any = bool(matching)
    for keep in variants:
        best = max(prod(row[0], keep) for row in ref["consistent"])
        for row in matching:
            pv = prod(row[0], keep)
            if pv >= best * slack - 1e-12:
                match_max = True
                if abs(pv - prob) <= TOL:
                    return None, ("ok(choices outside the relevant ground program not counted)" if len(keep) < n else "")
    allc = list(range(n))
    exp = "max P(world and evidence) = %.10g" % max(prod(row[0], allc) for row in ref["consistent"])
    if ref["excludable"]:
        exp += " (%.10g without the choices that cannot influence the model)" % max(
            prod(row[0], variants[-1]) for row in ref["consistent"])
    got = "reported %.10g with %s" % (prob, fmt(lits))
    if not match_any:
        return "assignment-inconsistent-with-evidence", "%s; no world satisfying the evidence agrees with these literals; %s" % (got, exp)
    if not match_max:
        return "not-most-probable", "%s; no most probable world agrees with these literals; %s" % (got, exp)
    return "wrong-probability", "%s; %s" % (got, exp)


def fmt(lits):
    return "[" + ", ".join(a if s else "\\+" + a for a, s in lits) + "]"


_MEMO = {}


def check_program(prog, mode):
    """memoised per worker on (program text, mode): shrinking re-visits the same small programs"""
    key = (program_text(prog), mode)
    if key not in _MEMO:
        if len(_MEMO) > 50000:
            _MEMO.clear()
        _MEMO[key] = _check_program(prog, mode)
    return _MEMO[key]


def _check_program(prog, mode):
    """-> (symptom or None, detail, stats)"""
    st = {"worlds": 0, "nontrivial": False}
    if not prog.get("evidence"):
        return None, "no-evidence", st
    prog = with_choice_queries(prog)
    ref = optimise.mpe_reference(prog)
    st["worlds"] = ref["nworlds"]
    if ref["negcycle"] or not ref["twovalued"]:
        return None, "skipped: negative cycle", st
    vals = set()
    for probs, T in ref["consistent"]:
        v = Fraction(1)
        for p in probs:
            v *= p
        vals.add(v)
    st["nontrivial"] = len(vals) >= 2
    out = run_mpe(program_text(prog), mode)
    sym, detail = judge(ref, out, mode)
    return sym, detail, st


def shape_class(prog):
    tags = set()
    for cl in prog["clauses"]:
        if len(cl["heads"]) > 1:
            tags.add("annotated-disjunction")
        elif cl["heads"][0][0] is not None and cl["body"]:
            tags.add("probabilistic-rule")
    if len(prog.get("evidence", [])) >= 2:
        tags.add("evidence>=2")
    return sorted(tags) or ["facts-and-rules"]


def evidence_programs(fam, tier, mod, rem):
    """the evidence-carrying programs of the stream; sharded on their own counter (stream index kept as name)"""
    j = 0
    for idx, prog in enumerate(streams.stream(fam, tier)):
        if not prog.get("evidence"):
            continue
        if j % mod == rem:
            yield idx, prog
        j += 1


class C20(Prop):
    pid = "C20"
    title = "MPE returns a most probable world consistent with the evidence"
    technique = ("bounded-exhaustive enumeration of evidence-carrying programs (all ground choices queried) on the real "
                 "mpe_maxsat (bundled maxsatz) and mpe_semiring, compared with brute-force maximisation over all possible "
                 "worlds (R8 on the possible-world reference R1)")
    rule = ("states = (program, mode) pairs over the evidence decorations of the program grammars; transitions = worlds "
            "enumerated by the reference; non-trivial = at least two evidence-consistent worlds of different probability; "
            "ties: any maximiser accepted; MaxSAT tolerance exp(-#weighted literals / 10000) relative (integer weights "
            "int(-log p * 10000)), semiring 1e-9; P(evidence)=0 must be reported as unsatisfiable")
    assumptions = ["programs with a cycle through negation are skipped",
                   "semiring mode names choices, not atoms: only literals on atoms defined by a single probabilistic fact are judged there",
                   "a returned probability of 0 is accepted as a report of unsatisfiability (counted separately)",
                   "choices whose clause body is false in every world or whose selection never changes the model may or may not be "
                   "part of the ground program: every product that leaves out some of them is accepted"]
    # (family, shards, modes): one maxsatz process costs 0.1-0.3 s CPU, the semiring mode 3 ms
    families = {"quick": [("F2.3", 48, MODES), ("F1.2", 32, ("semiring",)), ("F3.1", 12, MODES), ("F2.2", 8, MODES),
                          ("F1.1", 8, MODES), ("F1.1dup", 4, MODES), ("F1.1one", 4, MODES)],
                "thorough": [("F1.1one", 4, MODES), ("F1.2", 192, MODES), ("F2.4", 128, MODES), ("F3.2", 64, MODES), ("F1.3s", 32, MODES),
                             ("F2.3", 48, MODES), ("F3.1", 12, MODES), ("F2.2", 8, MODES), ("F1.1", 8, MODES), ("F1.1dup", 4, MODES)]}
    budget = {"quick": 300, "thorough": 2400}

    def shards(self, tier):
        only = os.environ.get("VERIF_ONLY_FAMILIES")  # debugging aid: run a subset of the tier's shards
        return [[fam, mod, r] for fam, mod, _ in self.families[tier] for r in range(mod)
                if not only or fam in only.split(",")]

    def run_shard(self, shard, tier, acc):
        fam, mod, rem = shard
        modes = [m for f, _, m in self.families[tier] if f == fam][0]
        crashed = set()
        for idx, prog in evidence_programs(fam, tier, mod, rem):
            if acc.expired():
                acc.cap("wall budget reached in family %s" % fam)
                break
            for mode in modes:
                sym, detail, st = check_program(prog, mode)
                acc.evaluations += 1
                acc.traces += 1
                acc.states += 1
                acc.transitions += st["worlds"]
                if st["nontrivial"]:
                    acc.nontrivial += 1
                outcome = sym or detail.split(":")[0] or "ok"
                acc.outcomes["%s:%s" % (mode, outcome)] += 1
                if not sym and detail.split(":")[0] in UNJUDGED:
                    acc.counters["unjudged:" + detail.split(":")[0]] += 1
                elif not sym and detail:
                    acc.counters[detail] += 1
                acc.sample({"family": fam, "index": idx, "mode": mode,
                            "program": program_text(with_choice_queries(prog))}, limit=2)
                if sym and sym.startswith("crash:") and sym in crashed:
                    acc.violation(sym, {"site": sym})  # call-site keyed: one minimised example per shard
                elif sym:
                    crashed.add(sym)

                    def fails(p, mode=mode, sym=sym):
                        return check_program(p, mode)[0] == sym

                    small = with_choice_queries(progcheck.minimise(prog, fails, limit=120, strong=True))
                    s2, d2, _ = check_program(small, mode)
                    case = {"program": program_text(small), "ast": small, "mode": mode}
                    extra = None
                    if sym.startswith("crash:"):
                        case, extra = {"site": sym}, case
                    elif mode == "semiring":
                        # the semiring mode fails structurally (AD constraints are not part of the evaluated formula;
                        # max-product over a non-decomposable formula): keyed by the shape class of the minimal
                        # program, the minimal program itself is the example
                        case, extra = {"mode": mode, "class": shape_class(small)}, case
                    acc.violation(sym, case, extra=extra, expected="a most probable world consistent with the evidence",
                                  observed=d2, what="%s (%s): %s [%s]" % (sym, mode, program_text(small), d2))

    def replay(self, case):
        sym, detail, st = check_program(case["ast"], case["mode"])
        return dict(ok=sym is None, expected="a most probable world consistent with the evidence",
                    observed={"symptom": sym, "detail": detail})


PROP = C20()
