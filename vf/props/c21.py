"""C21 DT-ProbLog and MAP return optimal strategies.

DT: every program of the FT-decision grammar (vf/gen/decision.py) is given to the real
``problog.tasks.dtproblog.dtproblog`` as its CLI ``main`` calls it, with exhaustive and with local search; the
returned strategy and score are compared with the brute-force expected utilities of *all* strategies
(R8: each decision fixed true/false, possible-world enumeration R1).

MAP: programs of the program grammars whose queries are their probabilistic facts are written to a file and
given to the real ``problog.tasks.map.main``; the returned assignment is compared with the brute-force joint
distribution P(state of the query facts, evidence)."""
import contextlib
import copy
import io
import itertools
import os
import tempfile

from ..core import Prop, watchdog, WatchdogTimeout, shrink
from ..gen import streams, decision
from ..gen.programs import program_text
from ..ref import worlds, optimise
from ..plrun import classify_exception, install_dsharp_cache
from .. import progcheck

TOL = 1e-9
SEARCHES = ("exhaustive", "local")


# ---------------------------------------------------------------------------------------------
# DT-ProbLog

def run_dt(src, search, timeout=10):
    """-> ("ok", {decision name: 0|1}, score) | ("error", cls) | ("crash", cls, site) | ("timeout",)"""
    import logging
    from problog.program import PrologString
    from problog.tasks import dtproblog as DT

    logging.getLogger("dtproblog").setLevel(logging.CRITICAL)
    install_dsharp_cache()
    try:
        with watchdog(timeout):
            with contextlib.redirect_stdout(io.StringIO()), contextlib.redirect_stderr(io.StringIO()):
                # main(): dtproblog(model, **vars(args)) with args = inputfile, koption, search, verbose, output, web
                choices, score, stats = DT.dtproblog(PrologString(src), search=search, koption=None, verbose=None,
                                                     web=False, output=None, inputfile=None)
            named = {}
            for k, v in choices.items():
                if k.functor == "choice":
                    k = k.args[2]
                named[str(k).replace(" ", "")] = int(v)
            return ("ok", named, None if score is None else float(score))
    except WatchdogTimeout:
        return ("timeout",)
    except RecursionError:
        return ("recursion",)
    except Exception as exc:  # noqa
        return classify_exception(exc)


def dt_reference(prog):
    """-> dict(table {bits: EU}, names [decision names in clause order], worlds) or None (unjudged)"""
    try:
        decs = optimise.decisions_of(prog)
    except ValueError:
        return None
    names = [n for _, n in decs]
    if not decs or len(set(names)) != len(names):
        return None
    full = optimise.apply_strategy(prog, {ci: True for ci, _ in decs})
    if worlds.GroundProgram(full).has_negative_cycle():
        return None
    table, decs, n = optimise.all_strategies(prog)
    if any(v is None for v in table.values()):
        return None
    return dict(table=table, names=names, worlds=n, prog=prog)


def judge_dt(ref, out, search):
    """-> (symptom or None, detail)"""
    tag = out[0]
    if tag in ("timeout", "recursion"):
        return None, tag
    if tag == "crash":
        return "crash:%s@%s" % (out[1], out[2]), "internal exception"
    table, names = ref["table"], ref["names"]
    best = max(table.values())
    if tag == "error":
        return "error-must-answer:%s" % out[1], "best expected utility %.10g" % float(best)
    strat, score = out[1], out[2]
    got = "returned %s score %r" % (fmt_strategy(strat), score)
    unknown = sorted(k for k in strat if k not in names)
    aliased = ""
    if unknown:
        # LogicFormula.add_name renames a decision atom after the query/utility literal that is the same node
        # (p :- d1.  => the strategy is reported as {p: 1}; p :- \+d1. => {\+p: 0}): such a name is accepted as
        # an alias when the literal is equivalent to exactly one otherwise unreported decision in every world
        strat = dict(strat)
        for k in unknown:
            d = resolve_alias(ref, k, [n for n in names if n not in strat])
            if d is None:
                return "strategy-names-non-decision", "%s: %s is not a decision of the program (decisions: %s)" % (
                    got, k, ", ".join(names))
            strat[d] = strat.pop(k)
        aliased = "aliased-decision-name"
    # decisions the implementation left out (not relevant to any utility): every completion must have the same EU
    compl = [bits for bits in table if all(strat.get(n, int(b)) == int(b) for n, b in zip(names, bits))]
    eus = {table[b] for b in compl}
    if len(eus) != 1:
        return "incomplete-strategy", "%s: expected utility depends on an unassigned decision (%s)" % (
            got, ", ".join("%s -> %.10g" % (fmt_bits(names, b), float(table[b])) for b in compl))
    eu = eus.pop()
    if search == "exhaustive":
        if float(best - eu) > TOL:
            arg = max(table, key=lambda b: table[b])
            return "not-optimal", "%s has expected utility %.10g; %s has %.10g" % (
                got, float(eu), fmt_bits(names, arg), float(best))
    else:
        for bits in compl:
            for i in range(len(names)):
                flip = bits[:i] + (not bits[i],) + bits[i + 1:]
                if float(table[flip] - eu) > TOL:
                    return "local-flip-improves", "%s has expected utility %.10g; flipping %s gives %.10g" % (
                        got, float(eu), names[i], float(table[flip]))
    if score is None or abs(score - float(eu)) > TOL:
        return "wrong-score", "%s; the expected utility of that strategy is %.10g" % (got, float(eu))
    return None, aliased


def resolve_alias(ref, name, candidates):
    """the unique decision d among ``candidates`` with: literal ``name`` true <=> d chosen, in every world of
    every strategy; None if there is none or more than one"""
    sign = not name.startswith("\\+")
    atom = name if sign else name[2:]
    prog, names = ref["prog"], ref["names"]
    decs = optimise.decisions_of(prog)
    ok = {n: True for n in candidates}
    for bits in ref["table"]:
        p = optimise.apply_strategy(prog, {ci: b for (ci, _), b in zip(decs, bits)})
        gp = worlds.GroundProgram(p)
        universe = gp.atoms() | {atom}
        for pw, rules, combo in gp.worlds():
            T, U = worlds.wfm(rules, universe)
            val = (atom in T) == sign
            for n, b in zip(names, bits):
                if n in ok and ok[n] and val != b:
                    ok[n] = False
    found = [n for n in candidates if ok[n]]
    return found[0] if len(found) == 1 else None


def fmt_strategy(s):
    return "{" + ", ".join("%s: %d" % kv for kv in sorted(s.items())) + "}"


def fmt_bits(names, bits):
    return "{" + ", ".join("%s: %d" % (n, int(b)) for n, b in zip(names, bits)) + "}"


_MEMO = {}


def memo(key, fn):
    if key not in _MEMO:
        if len(_MEMO) > 50000:
            _MEMO.clear()
        _MEMO[key] = fn()
    return _MEMO[key]


def check_dt(prog, search):
    """-> (symptom or None, detail, stats); memoised per worker (shrinking re-visits small programs)"""
    return memo(("dt", decision.program_text(prog), search), lambda: _check_dt(prog, search))


def _check_dt(prog, search):
    st = {"strategies": 0, "worlds": 0, "nontrivial": False}
    if not prog.get("utilities"):
        return None, "skipped: no utilities", st
    ref = memo(("dtref", decision.program_text(prog)), lambda: dt_reference(prog))
    if ref is None:
        return None, "skipped: no decision / duplicate decision / negative cycle", st
    st["strategies"] = len(ref["table"])
    st["worlds"] = ref["worlds"]
    st["nontrivial"] = len(set(ref["table"].values())) >= 2
    out = run_dt(decision.program_text(prog), search)
    sym, detail = judge_dt(ref, out, search)
    return sym, detail, st


def dt_candidates(prog):
    """deterministic one-step reductions: drop a utility; simplify a utility (value towards +1, literal towards
    positive); the program reductions of progcheck; make a negative body literal positive"""
    uts = prog.get("utilities", [])
    for i in range(len(uts)):
        p = copy.deepcopy(prog)
        del p["utilities"][i]
        yield p
    for p in progcheck.shrink_candidates(prog):
        heads = {h[0] for cl in p["clauses"] for _, h in cl["heads"]}
        if all(u[1][0] in heads for u in p.get("utilities", [])):
            yield p
    for i, u in enumerate(uts):
        for v in (1, -1, 2, -2):
            if abs(v) < abs(u[2]) or (abs(v) == abs(u[2]) and v > u[2]):
                p = copy.deepcopy(prog)
                p["utilities"][i][2] = v
                yield p
        if not u[0]:
            p = copy.deepcopy(prog)
            p["utilities"][i][0] = True
            if p["utilities"][i][:2] not in [x[:2] for x in uts]:
                yield p
    for i, cl in enumerate(prog["clauses"]):
        for j, l in enumerate(cl["body"]):
            if l[0] is False:
                p = copy.deepcopy(prog)
                p["clauses"][i]["body"][j][0] = True
                yield p


DEC_POOL = ["d1", "d2", "d3", "d4"]
DER_POOL = ["p", "q", "r", "s"]
FACT_POOL = ["a", "b", "c"]
PROB_POOL = ["0.3", "0.6", "0.5", "0.4"]


def dt_canonical(prog):
    """predicates renamed by first occurrence (decisions d1.., probabilistic facts a.., others p..) and
    probabilities by first occurrence"""
    kind = {}
    order = []
    for cl in prog["clauses"]:
        for pr, h in cl["heads"]:
            k = "dec" if pr == "?" else ("fact" if pr is not None and not cl["body"] and len(cl["heads"]) == 1 else "der")
            if h[0] not in kind:
                order.append(h[0])
                kind[h[0]] = k
            elif kind[h[0]] != k:
                kind[h[0]] = "der" if "dec" not in (k, kind[h[0]]) else "dec"
    pools = {"dec": list(DEC_POOL), "fact": list(FACT_POOL), "der": list(DER_POOL)}
    ren = {}
    for n in order:
        if not pools[kind[n]]:
            return prog
        ren[n] = pools[kind[n]].pop(0)
    probs = {}

    def rp(pr):
        if pr is None or pr == "?":
            return pr
        if pr not in probs:
            probs[pr] = PROB_POOL[len(probs)] if len(probs) < len(PROB_POOL) else pr
        return probs[pr]

    def ra(a):
        return [ren.get(a[0], a[0]), list(a[1])]

    q = {"clauses": [], "queries": [], "evidence": [], "utilities": []}
    for cl in prog["clauses"]:
        q["clauses"].append({"heads": [[rp(pr), ra(h)] for pr, h in cl["heads"]],
                             "body": [[l[0], ra(l[1])] for l in cl["body"]]})
    q["utilities"] = [[u[0], ra(u[1]), u[2]] for u in prog.get("utilities", [])]
    return q


def dt_minimise(prog, fails):
    small = shrink(prog, dt_candidates, fails, limit=400)
    cand = dt_canonical(small)
    if cand != small and fails(cand):
        return cand
    return small


# ---------------------------------------------------------------------------------------------
# MAP

def map_program(prog):
    """the program with queries = its probabilistic facts (atoms defined by exactly one body-less single-head
    probabilistic fact); None if there is none"""
    gp = worlds.GroundProgram(prog)
    count = {}
    plain = []
    for ci, vals, heads, pos, neg in gp.all_instances:
        for p, h in heads:
            count[h] = count.get(h, 0) + 1
        if len(heads) == 1 and heads[0][0] is not None and not pos and not neg:
            plain.append(prog["clauses"][ci]["heads"][0][1])
    qs = [a for a in plain if count[worlds.atom_str(a)] == 1 and not any(worlds.is_var(t) for t in a[1])]
    if not qs:
        return None
    return {"clauses": prog["clauses"], "queries": qs, "evidence": prog.get("evidence", [])}


def run_map(src, search="exhaustive", timeout=10):
    from problog.tasks import map as MAP

    install_dsharp_cache()
    fd, path = tempfile.mkstemp(suffix=".pl", prefix="vf_c21_")
    try:
        with os.fdopen(fd, "w") as f:
            f.write(src.replace(". ", ".\n") + "\n")
        with watchdog(timeout):
            with contextlib.redirect_stdout(io.StringIO()), contextlib.redirect_stderr(io.StringIO()):
                ok, res = MAP.main([path, "-s", search], result_handler=lambda r, o: None)
        if not ok:
            if isinstance(res, WatchdogTimeout):
                return ("timeout",)
            if isinstance(res, RecursionError):
                return ("recursion",)
            return classify_exception(res)
        choices, score, stats = res
        if choices is None:
            return ("ok", None, score)
        return ("ok", {str(k).replace(" ", ""): int(v) for k, v in choices.items()}, None if score is None else float(score))
    except WatchdogTimeout:
        return ("timeout",)
    except RecursionError:
        return ("recursion",)
    except Exception as exc:  # noqa
        return classify_exception(exc)
    finally:
        try:
            os.unlink(path)
        except OSError:
            pass


def judge_map(ref, out):
    tag = out[0]
    if tag in ("timeout", "recursion"):
        return None, tag
    if tag == "crash":
        return "crash:%s@%s" % (out[1], out[2]), "internal exception"
    if ref["pe"] == 0:
        return None, "unjudged: P(evidence)=0"
    best = max(ref["joint"].values())
    arg = max(ref["joint"], key=lambda k: ref["joint"][k])
    qatoms = ref["qatoms"]
    exp = "most probable joint state %s: P(state | e) = %.10g" % (fmt_bits(qatoms, arg), float(best / ref["pe"]))
    if tag == "error":
        return "map-error-must-answer:%s" % out[1], exp
    strat, score = out[1], out[2]
    if strat is None:
        return "map-no-assignment", "no assignment returned (score %r); %s" % (score, exp)
    got = "returned %s score %r" % (fmt_strategy(strat), score)
    if sorted(strat) != sorted(qatoms):
        return None, "unjudged: assignment does not range over the query facts"
    bits = tuple(bool(strat[a]) for a in qatoms)
    pj = ref["joint"].get(bits, 0)
    # diagnosis: map.py maximises the sum over the query facts of P(fact has its chosen value | e) and reports
    # that sum; a deviation that this objective explains exactly is keyed by the cause, not by the program
    marg = [sum(p for k, p in ref["joint"].items() if k[i]) / ref["pe"] for i in range(len(qatoms))]

    def f(k):
        return sum(m if b else 1 - m for m, b in zip(marg, k))

    explained = (score is not None and abs(score - float(f(bits))) <= TOL and pj > 0
                 and all(f(k) <= f(bits) + TOL for k in ref["joint"]))
    tag = " [explained by the sum-of-marginals objective]" if explained else ""
    if float(best - pj) > 1e-12:
        return "map-not-most-probable", "%s has P(state | e) = %.10g; %s%s" % (got, float(pj / ref["pe"]), exp, tag)
    if score is None or min(abs(score - float(pj / ref["pe"])), abs(score - float(pj))) > TOL:
        return "map-wrong-score", "%s; P(state | e) = %.10g, P(state, e) = %.10g%s" % (
            got, float(pj / ref["pe"]), float(pj), tag)
    return None, ""


def check_map(prog):
    return memo(("map", program_text(prog)), lambda: _check_map(prog))


def _check_map(prog):
    st = {"strategies": 0, "worlds": 0, "nontrivial": False}
    prog = map_program(prog)
    if prog is None:
        return None, "skipped: no probabilistic fact", st
    ref = optimise.map_reference(prog)
    st["worlds"] = ref["nworlds"]
    if ref["negcycle"] or not ref["twovalued"]:
        return None, "skipped: negative cycle", st
    st["strategies"] = 2 ** len(ref["qatoms"])
    st["nontrivial"] = len(set(ref["joint"].values())) >= 2
    out = run_map(program_text(prog))
    sym, detail = judge_map(ref, out)
    return sym, detail, st


# ---------------------------------------------------------------------------------------------

class C21(Prop):
    pid = "C21"
    title = "DT-ProbLog and MAP return optimal strategies"
    technique = ("bounded-exhaustive enumeration of decision-theoretic programs (FT-decision grammar: menu statements x "
                 "utility assignments) on the real dtproblog (exhaustive and local search) and of query-fact programs on "
                 "the real map task, compared with brute-force expected utility / joint probability over all strategies "
                 "and all possible worlds (R8 on the possible-world reference R1)")
    rule = ("states = programs; transitions = strategies (resp. joint states) compared, each evaluated over all worlds; "
            "non-trivial = at least two strategies with different expected utility (MAP: two joint states with different "
            "probability); ties and decisions left out by the implementation are accepted when every completion has the same "
            "expected utility; local search is judged for single-flip optimality only")
    assumptions = ["decision ADs (?::a; ?::b) are outside the grammar: 'exactly one' vs 'at most one' is not documented",
                   "MAP objective = P(joint state of the query facts | evidence) (docs/source/cli.rst: MAP assignments, all other "
                   "facts marginalised); a score equal to P(state | e) or P(state, e) is accepted",
                   "MAP with P(evidence)=0 and programs with a cycle through negation are unjudged"]
    families = {"quick": [("FTD.2.1", 48), ("FTD.1.3", 64), ("FTD.1.2", 24), ("FTD.1.1", 8),
                          ("MAP:F1.2", 48), ("MAP:F2.3", 16), ("MAP:F1.1", 4), ("MAP:F2.2", 4)],
                "thorough": [("FTD.2.3", 512), ("FTD.2.2", 128), ("FTD.3.1", 96), ("FTD.2.1", 48),
                             ("FTD.1.3", 64), ("FTD.1.2", 24), ("FTD.1.1", 8),
                             ("MAP:F1.2", 96), ("MAP:F2.4", 64), ("MAP:F1.3s", 32), ("MAP:F2.3", 16), ("MAP:F1.1", 4),
                             ("MAP:F2.2", 4)]}
    budget = {"quick": 300, "thorough": 2400}

    def shards(self, tier):
        only = os.environ.get("VERIF_ONLY_FAMILIES")  # debugging aid: run a subset of the tier's shards
        return [[fam, mod, r] for fam, mod in self.families[tier] for r in range(mod)
                if not only or fam in only.split(",")]

    def run_shard(self, shard, tier, acc):
        fam, mod, rem = shard
        crashed = set()
        if fam.startswith("MAP:"):
            cases = (("map", idx, prog, None) for idx, prog in streams.shard_stream(fam[4:], tier, mod, rem))
        else:
            cases = (("dt", idx, prog, s) for idx, prog in decision.shard_stream(fam, mod, rem) for s in SEARCHES)
        for kind, idx, prog, search in cases:
            if acc.expired():
                acc.cap("wall budget reached in family %s" % fam)
                break
            if kind == "dt":
                sym, detail, st = check_dt(prog, search)
                text = decision.program_text(prog)
            else:
                sym, detail, st = check_map(prog)
                text = program_text(map_program(prog) or prog)
            acc.evaluations += 1
            acc.traces += 1
            if search != "local":
                acc.states += 1
                if st["nontrivial"]:
                    acc.nontrivial += 1
            acc.transitions += st["strategies"]
            acc.counters["worlds"] += st["worlds"]
            mode = search or "map"
            acc.outcomes["%s:%s" % (mode, sym or detail.split(":")[0] or "ok")] += 1
            if not sym and detail.split(":")[0] in ("skipped", "unjudged", "timeout", "recursion"):
                acc.counters["unjudged:" + detail.split(":")[0]] += 1
            elif not sym and detail:
                acc.counters[detail] += 1
            acc.sample({"family": fam, "index": idx, "mode": mode, "program": text}, limit=2)
            if not sym:
                continue
            if sym.startswith("crash:") and sym in crashed:
                acc.violation(sym, {"site": sym})
                continue
            crashed.add(sym)
            if kind == "dt":
                def fails(p, search=search, sym=sym):
                    return check_dt(p, search)[0] == sym

                small = dt_minimise(prog, fails)
                s2, d2, _ = check_dt(small, search)
                # the search procedure is part of the symptom where it matters (not-optimal / local-flip-improves);
                # score and naming defects are shared by both searches: one key
                case = {"kind": "dt", "program": decision.program_text(small), "ast": small}
                extra = {"search": search}
            else:
                explained = detail.endswith("objective]")
                if explained and (sym, "explained") in crashed:
                    acc.violation(sym, {"kind": "map", "cause": "sum-of-marginals objective"})
                    continue

                def fails(p, sym=sym, explained=explained):
                    r = check_map(p)
                    return r[0] == sym and r[1].endswith("objective]") == explained

                small = map_program(progcheck.minimise(map_program(prog), fails, limit=120, strong=True))
                s2, d2, _ = check_map(small)
                case = {"kind": "map", "program": program_text(small), "ast": small}
                extra = None
                if explained:
                    crashed.add((sym, "explained"))
                    case, extra = {"kind": "map", "cause": "sum-of-marginals objective"}, case
            if sym.startswith("crash:"):
                case, extra = {"site": sym}, dict(case, **(extra or {}))
            acc.violation(sym, case, extra=extra, expected="an optimal strategy with its expected utility / probability",
                          observed=d2, what="%s (%s): %s [%s]" % (sym, mode, case.get("program", (extra or {}).get("program")), d2))

    def replay(self, case):
        if case["kind"] == "dt":
            sym, detail, st = check_dt(case["ast"], case["search"])
        else:
            sym, detail, st = check_map(case["ast"])
        return dict(ok=sym is None, expected="an optimal strategy with its expected utility / probability",
                    observed={"symptom": sym, "detail": detail})


PROP = C21()
