"""C17 the parser is total; printing round-trips (E3: bounded-exhaustive enumeration of inputs).

(a) totality   every string of the stated finite spaces is given to ``PrologString`` (fully iterated) and,
               below the largest length, to ``PrologParser(PrologFactory()).parseString``; the call must return or
               raise a ``ProbLogError`` subclass.  Anything else is a violation keyed by call site.
(b) round trip every fully parenthesised operator expression (vf/gen/c17gen.py) in every context is parsed (T1),
               printed with ``str(clause) + "."`` (what ``LogicProgram.to_prolog`` does), parsed again (T2) and
               T1, T2 are compared by ``struct`` - an independent structural walker.
(c) the same for terms built with the documented Python constructors / operators of problog.logic.
"""
import itertools
import os
import re
import signal

from ..core import Prop, shrink, watchdog, WatchdogTimeout
from ..gen import c17gen as G

BATCH = 1000
BATCH_WATCHDOG = 30  # seconds for a batch of 1000 strings (normally ~20 ms)
CASE_WATCHDOG = 5
WATCHDOG_CAP = "per-case watchdog (5 s CPU) fired in the round-trip part: those cases are not judged (unjudged:watchdog)"

# ------------------------------------------------------------------------------------------------
# running the implementation


class cpu_watchdog(object):
    """like core.watchdog but counts the CPU time of this process (ITIMER_PROF): a parser that loops burns CPU, a
    worker that is merely starved on a loaded machine does not, so a per-case limit can not fire spuriously"""

    def __init__(self, seconds):
        self.seconds = seconds

    def _handler(self, signum, frame):
        raise WatchdogTimeout()

    def __enter__(self):
        self.old = signal.signal(signal.SIGPROF, self._handler)
        signal.setitimer(signal.ITIMER_PROF, self.seconds)
        return self

    def __exit__(self, *exc):
        signal.setitimer(signal.ITIMER_PROF, 0)
        signal.signal(signal.SIGPROF, self.old)
        return False



def _parse_default(s):
    from problog.program import PrologString

    return list(PrologString(s))


def _parse_plain(s):
    from problog.parser import PrologParser
    from problog.program import PrologFactory

    return PrologParser(PrologFactory()).parseString(s)


APIS = {"PrologString": _parse_default, "parseString": _parse_plain}


def run_parse(s, api="PrologString"):
    """-> ("ok", clauses) | ("error", cls) | ("crash", cls, site)   (no watchdog here)"""
    from ..plrun import classify_exception

    try:
        return ("ok", APIS[api](s))
    except RecursionError:
        return ("crash", "RecursionError", "?")
    except Exception as exc:  # noqa
        return classify_exception(exc)


def parse_outcome(s, api="PrologString", timeout=CASE_WATCHDOG):
    try:
        with cpu_watchdog(timeout):
            return run_parse(s, api)
    except WatchdogTimeout:
        return ("hang",)


def crash_symptom(out):
    return "crash:%s@%s" % (out[1], out[2])


# ------------------------------------------------------------------------------------------------
# independent structural walker


def struct(t):
    """Structural fingerprint of a parsed / constructed term.  Deliberately does not use Term.__eq__ / __hash__.
    Ignored: location, op_priority, op_spec, caches.  ``not`` and ``\\+`` are the same negation (Term.__eq__ and
    the engine treat them alike), everything else is compared exactly: class, functor text, arity, arguments,
    probability annotation, Constant value *and* type, variable name."""
    from problog.logic import Term, Var, Constant, Not

    if t is None:
        return ["none"]
    if isinstance(t, bool):
        return ["bool", t]
    if isinstance(t, int):
        return ["int", t]
    if isinstance(t, (list, tuple)):
        return ["seq"] + [struct(x) for x in t]
    if not isinstance(t, Term):
        return ["other", type(t).__name__, repr(t)]
    p = t.probability
    ps = None if p is None else struct(p)
    if isinstance(t, Var):
        return ["var", str(t.functor), ps]
    if isinstance(t, Constant):
        return ["const", type(t.functor).__name__, repr(t.functor), ps]
    f = t.functor
    if isinstance(t, Not):
        fs = "\\+"
    elif isinstance(f, Term):
        fs = struct(f)
    else:
        fs = [type(f).__name__, str(f)]
    return [type(t).__name__, fs, ps, [struct(a) for a in t.args]]


def _head(s):
    """coarse description of the root of a struct(): leaf / class of a control construct / op/arity for a term
    whose functor is an operator symbol or keyword / id/arity for a plain compound term"""
    if not isinstance(s, list) or not s:
        return repr(s)
    if s[0] in ("none", "bool", "int", "var", "other", "const"):
        return "leaf"
    if s[0] == "seq":
        return "seq/%d" % (len(s) - 1)
    if s[0] != "Term":
        return s[0]
    fs = s[1]
    kind = "op"
    if isinstance(fs, list) and len(fs) == 2 and isinstance(fs[1], str):
        name = fs[1].strip("'")
        if re.match(r"^[a-z][A-Za-z0-9_]*$", name) and name not in ("not", "is", "mod", "rem", "xor", "rdiv", "div"):
            kind = "id"
    if kind == "id" and not s[3]:
        return "leaf"
    return "%s/%d" % (kind, len(s[3]))


def diff_signature(s1, s2):
    """where two struct() fingerprints first differ (pre-order): 'original node > re-parsed node'.  Part of the
    symptom of a round-trip mismatch, so that shrinking keeps the KIND of difference and a new kind of difference is
    never filed under an old finding."""
    if s1 == s2:
        return "same"
    if (not isinstance(s1, list)) or (not isinstance(s2, list)) or not s1 or not s2 or s1[0] != s2[0]:
        return "%s>%s" % (_head(s1), _head(s2))
    if s1[0] == "seq":
        if len(s1) != len(s2):
            return "%s>%s" % (_head(s1), _head(s2))
        for a, b in zip(s1[1:], s2[1:]):
            if a != b:
                return diff_signature(a, b)
    if s1[0] in ("none", "bool", "int", "var", "const", "other"):
        if s1[0] == "const" and s1[1] == s2[1] and s1[2] == s2[2]:
            return "annotation:" + diff_signature(s1[3], s2[3]) if s1[3] is not None and s2[3] is not None else "annotation-lost"
        return "%s>%s" % (_head(s1), _head(s2))
    if _head(s1) != _head(s2) or s1[1] != s2[1]:
        return "%s>%s" % (_head(s1), _head(s2))
    if s1[2] != s2[2]:
        if s1[2] is None or s2[2] is None:
            return "annotation-%s@%s" % ("lost" if s2[2] is None else "gained", _head(s1))
        return "annotation:" + diff_signature(s1[2], s2[2])
    for a, b in zip(s1[3], s2[3]):
        if a != b:
            return diff_signature(a, b)
    return "?"


_REWRITTEN_NON_NAME = re.compile(r"^(?![a-z][A-Za-z0-9_]*_[np]$)(?!'.*'$)(?!'[^']*'_[np]$).*_[np]$")


def unsupported_reason(clauses):
    """Shapes on which the round trip is not judged (counted as unjudged):
    * a ``None`` inside a parsed term (only produced by the empty parentheses ``()``; the totality part owns that),
    * a probability annotation anywhere but on a plain callable clause head / fact / AD head (``a + (0.5::b)``,
      ``0.5::1``, ``0.5::X``): not ProbLog syntax with a meaning, the printer has no notation for it."""
    from problog.logic import Term, Var, Constant, Clause, AnnotatedDisjunction, Or

    def walk(t, head_ok):
        if t is None:
            return "none-term"
        if isinstance(t, int):
            return None
        if isinstance(t, (list, tuple)):
            for x in t:
                r = walk(x, head_ok)
                if r:
                    return r
            return None
        if not isinstance(t, Term):
            return None
        if head_ok and type(t) is Term and _REWRITTEN_NON_NAME.match(str(t.functor)):
            # \+[] :- b, \+[a] :- b, \+! :- b: negated-head rewriting (functor + "_n" / "_p") of something that is
            # not a predicate name
            return "head-not-callable"
        if t.probability is not None:
            if not head_ok or type(t) is not Term:
                return "nested-probability"
            if (t.functor == "." and t.arity == 2) or t.functor == "[]":
                return "head-not-callable"  # 0.5::[a,b].
            r = walk(t.probability, False)
            if r:
                return r
        if isinstance(t, (Var, Constant)):
            return None
        if isinstance(t.functor, Term):
            r = walk(t.functor, False)
            if r:
                return r
        for a in t.args:
            r = walk(a, False)
            if r:
                return r
        return None

    for c in clauses:
        if type(c) in (Clause, AnnotatedDisjunction, Or) and c.probability is not None:
            return "nested-probability"
        if type(c) is Clause:
            r = walk(c.head, True) or walk(c.body, False)
        elif type(c) is AnnotatedDisjunction:
            r = None
            for h in c.heads:
                r = r or walk(h, True)
            r = r or walk(c.body, False)
        elif type(c) is Or:
            r = None
            cur = c
            while type(cur) is Or and cur.probability is None:
                r = r or walk(cur.args[0], True)
                cur = cur.args[1]
            r = r or walk(cur, True)
        else:
            r = walk(c, True)
        if r:
            return r
    return None


def print_program(clauses):
    return "".join("%s.\n" % (c,) for c in clauses)


def roundtrip(src):
    """-> (verdict, detail)
       ("rejected", cls)            source is not a program
       ("src-crash", out)           parse of the source leaked a non-ProbLog exception (totality violation)
       ("unjudged", reason)
       ("print-crash", cls, site)
       ("reparse-crash", out, text) the printed text makes the parser crash (totality violation on `text`)
       ("reparse-error", cls, text)
       ("mismatch", text, text2, difference signature)
       ("ok", text)"""
    from ..plrun import classify_exception

    out = run_parse(src)
    if out[0] == "error":
        return ("rejected", out[1])
    if out[0] == "crash":
        return ("src-crash", out)
    t1 = out[1]
    reason = unsupported_reason(t1)
    if reason:
        return ("unjudged", reason)
    try:
        text = print_program(t1)
    except Exception as exc:  # noqa
        c = classify_exception(exc)
        return ("print-crash", c[1], c[2] if len(c) > 2 else "?")
    out2 = run_parse(text)
    if out2[0] == "error":
        return ("reparse-error", out2[1], text)
    if out2[0] == "crash":
        return ("reparse-crash", out2, text)
    t2 = out2[1]
    if struct(t1) != struct(t2):
        try:
            text2 = print_program(t2)
        except Exception:  # noqa
            text2 = "?"
        return ("mismatch", text, text2, diff_signature(struct(t1), struct(t2)))
    # printing must not depend on the history of the term: print every subterm bottom-up first (what a
    # debugger, a logger or an error message does), then the whole clause, on a fresh parse
    out3 = run_parse(src)
    if out3[0] == "ok":
        try:
            for c in out3[1]:
                _print_subterms(c)
            text3 = print_program(out3[1])
        except Exception as exc:  # noqa
            c = classify_exception(exc)
            return ("print-crash", c[1], c[2] if len(c) > 2 else "?")
        if text3 != text:
            return ("history", text, text3)
    return ("ok", text)


def _print_subterms(t, depth=0):
    if depth > 40:
        return
    for a in (getattr(t, "args", None) or ()):
        if hasattr(a, "functor") or hasattr(a, "args"):
            _print_subterms(a, depth + 1)
    for attr in ("head", "body", "heads", "child", "op1", "op2"):
        sub = getattr(t, attr, None)
        if sub is None or callable(sub):
            continue
        for x in (sub if isinstance(sub, (list, tuple)) else [sub]):
            if hasattr(x, "functor") or hasattr(x, "args"):
                _print_subterms(x, depth + 1)
    str(t)
    repr(t)


def rt_symptom(v):
    if v[0] == "print-crash":
        return "print-crash:%s@%s" % (v[1], v[2])
    if v[0] == "mismatch":
        return "roundtrip-mismatch[%s]" % v[3]
    if v[0] == "reparse-error":
        return "roundtrip-" + v[0]
    if v[0] == "history":
        return "print-depends-on-history"
    return None


def rt_case(case):
    try:
        with cpu_watchdog(CASE_WATCHDOG):
            return roundtrip(case["ctx"] % G.render(case["expr"]))
    except WatchdogTimeout:
        return ("hang",)


# ------------------------------------------------------------------------------------------------
# shrinking


def shrink_memo(case, candidates, fails, keyf, memo, limit=20000):
    """core.shrink (greedy: move to the first failing candidate, to a fixpoint) with path memoisation.  The greedy
    shrink is a function of the case alone, so remembering case -> minimum does not change any result."""
    path = []
    n = 0
    while True:
        k = keyf(case)
        if k in memo:
            res = memo[k]
            break
        path.append(k)
        nxt = None
        for cand in candidates(case):
            n += 1
            if n >= limit:
                break
            if fails(cand):
                nxt = cand
                break
        if nxt is None:
            res = case
            break
        case = nxt
    for k in path:
        memo[k] = res
    return res


# characters from simplest to most complex; a string shrinks towards fewer and "simpler" characters
_CHAR_ORDER = "a1X_ .:-()[],;|+=\\<>*/^~@#&!?%$'\"`{}"
_RANK = {c: i for i, c in enumerate(_CHAR_ORDER)}


def _rank(c):
    return _RANK.get(c, len(_CHAR_ORDER) + ord(c) if len(c) == 1 else 0)


def string_candidates(s):
    """strictly simpler strings in a fixed order: (1) delete a block (long blocks first), (1b) delete a pair of
    brackets, (2) replace a block of 2-5 characters by 'a', (3) replace one character by a simpler one (order
    _CHAR_ORDER).  Every candidate is shorter
    or has the same length and a lexicographically smaller rank vector, so shrinking terminates."""
    n = len(s)
    for ln in range(n - 1, 0, -1):
        for i in range(0, n - ln + 1):
            yield s[:i] + s[i + ln:]
    for i in range(n):  # drop a pair of brackets, keep what is inside
        if s[i] in "([":
            close = ")" if s[i] == "(" else "]"
            for j in range(i + 1, n):
                if s[j] == close:
                    yield s[:i] + s[i + 1:j] + s[j + 1:]
    for ln in range(5, 1, -1):
        for i in range(0, n - ln + 1):
            yield s[:i] + "a" + s[i + ln:]
    for i, ch in enumerate(s):
        r = _rank(ch)
        for c in _CHAR_ORDER:
            if _RANK[c] >= r:
                break
            yield s[:i] + c + s[i + 1:]


def shrink_string(s, api, symptom):
    def fails(c):
        out = parse_outcome(c, api, 2)
        return out[0] == "crash" and crash_symptom(out) == symptom

    return shrink(s, string_candidates, fails, limit=20000)


def expr_candidates(case):
    for c in G.shrink_candidates(case):
        yield c
    # Operator canonicalisation: the earliest operator of the table with which the same symptom reproduces.
    # Only operators with the same *baseline* are exchanged ("(a) op (a)." round-trips / is rejected / fails by
    # itself): an operator that is broken on its own (a token typo) never absorbs, and is never absorbed by, the
    # failures of operators that are only mis-printed in a nesting.
    for c in _op_variants(case["expr"]):
        yield {"ctx": case["ctx"], "expr": c}


_BASELINE = {}


def op_baseline(kind, op):
    key = (kind, op)
    if key not in _BASELINE:
        a = ["leaf", "a"]
        e = ["bin", op, "p", a, a] if kind == "bin" else ["un", op, "p", a]
        v = rt_case({"ctx": G.CONTEXTS[0], "expr": e})
        _BASELINE[key] = v[0] if v[0] != "rejected" else "rejected:" + str(v[1])
    return _BASELINE[key]


def _op_variants(e):
    if e[0] == "bin":
        _, op, form, l, r = e
        if op in G.BINOPS:
            base = op_baseline("bin", op)
            for op2 in G.BINOPS[: G.BINOPS.index(op)]:
                if op_baseline("bin", op2) == base:
                    yield ["bin", op2, form, l, r]
        for l2 in _op_variants(l):
            yield ["bin", op, form, l2, r]
        for r2 in _op_variants(r):
            yield ["bin", op, form, l, r2]
    elif e[0] == "un":
        _, op, form, x = e
        if op in G.UNOPS:
            base = op_baseline("un", op)
            for op2 in G.UNOPS[: G.UNOPS.index(op)]:
                if op_baseline("un", op2) == base:
                    yield ["un", op2, form, x]
        for x2 in _op_variants(x):
            yield ["un", op, form, x2]


def case_source(case):
    return case["ctx"] % G.render(case["expr"])


def shrink_expr(case, symptom, memo=None, verdicts=None):
    """memo: (symptom, source) -> minimal case;  verdicts: source -> symptom (both shard-local caches)"""
    memo = {} if memo is None else memo
    verdicts = {} if verdicts is None else verdicts

    def fails(c):
        src = case_source(c)
        if src not in verdicts:
            verdicts[src] = rt_symptom(rt_case(c))
        return verdicts[src] == symptom

    return shrink_memo(case, expr_candidates, fails, lambda c: (symptom, case_source(c)), memo)


# ------------------------------------------------------------------------------------------------
# (c) constructor-built terms.  JSON descriptions:
#   ["atom", name] ["cmp", name, [args]] ["var", name] ["int", n] ["float", x] ["str", text] ["list", [items], tail|None]
#   ["and", x, y] ["or", x, y] ["not", x] ["prob", p, literal] ["clause", head, body] ["ad", [heads], body]


def build(d):
    from problog.logic import Term, Var, Constant, Clause, AnnotatedDisjunction, list2term

    k = d[0]
    if k == "atom":
        return Term(d[1])
    if k == "cmp":
        return Term(d[1])(*[build(a) for a in d[2]])
    if k == "var":
        return Var(d[1])
    if k in ("int", "float"):
        return Constant(d[1])
    if k == "str":
        return Constant('"%s"' % d[1])
    if k == "list":
        tail = Term("[]") if d[2] is None else build(d[2])
        for it in reversed(d[1]):
            tail = Term(".", build(it), tail)
        return tail
    if k == "and":
        return build(d[1]) & build(d[2])
    if k == "or":
        return build(d[1]) | build(d[2])
    if k == "not":
        return ~build(d[1])
    if k == "prob":
        lit = build(d[2])
        return lit.with_probability(build(d[1]))
    if k == "clause":
        return build(d[1]) << build(d[2])
    if k == "ad":
        return AnnotatedDisjunction([build(h) for h in d[1]], build(d[2]))
    raise ValueError(d)


C_ARGS = [["atom", "a"], ["var", "X"], ["int", 1], ["int", -1], ["float", 2.5], ["float", -2.5], ["str", "s"],
          ["list", [], None], ["list", [["atom", "a"], ["var", "X"]], None], ["list", [["atom", "a"]], ["var", "T"]],
          ["cmp", "f", [["atom", "a"]]], ["cmp", "f", [["int", -1], ["var", "X"]]], ["atom", "'A b'"]]


def ctor_literals():
    lits = [["atom", "p"]]
    for a in C_ARGS:
        lits.append(["cmp", "q", [a]])
    for a in C_ARGS[:6]:
        for b in C_ARGS[:6]:
            lits.append(["cmp", "r", [a, b]])
    return lits


def ctor_bodies(depth, lits):
    if depth == 0:
        return list(lits)
    sub = ctor_bodies(depth - 1, lits)
    res = list(sub)
    for x in sub:
        res.append(["not", x])
    for x in sub:
        for y in sub:
            res.append(["and", x, y])
            res.append(["or", x, y])
    return res


def ctor_terms(tier):
    """generator of all constructed statements; simplest first, no duplicates by construction"""
    lits = ctor_literals()
    small = [["atom", "p"], ["cmp", "q", [["var", "X"]]], ["cmp", "r", [["int", -1], ["float", 2.5]]]]
    probs = [["float", 0.5], ["var", "P"], ["int", 1]]
    for l in lits:
        yield l
    for p in probs:
        for l in small:
            yield ["prob", p, l]
    hs = [["atom", "p"], ["cmp", "q", [["var", "X"]]], ["prob", ["float", 0.5], ["atom", "p"]],
          ["prob", ["var", "P"], ["cmp", "q", [["var", "X"]]]]]
    ad_heads = [[["prob", ["float", 0.5], ["atom", "p"]], ["prob", ["float", 0.25], ["cmp", "q", [["var", "X"]]]]],
                [["prob", ["float", 0.5], ["atom", "p"]], ["prob", ["float", 0.25], ["atom", "a"]],
                 ["prob", ["var", "P"], ["cmp", "q", [["int", -1]]]]]]
    for hh in ad_heads:
        cur = hh[-1]
        for h in reversed(hh[:-1]):
            cur = ["or", h, cur]
        yield cur

    def bodies():
        # depth <= 1 over 8 literals, then deeper nestings over 2 literals
        for b in ctor_bodies(1, lits[:8]):
            yield b
        base = small[:2]
        sub = ctor_bodies(1 if tier == "quick" else 2, base)
        for x in sub:
            if x not in base:
                yield ["not", x]
        for x in sub:
            for y in sub:
                if x in base and y in base:
                    continue
                yield ["and", x, y]
                yield ["or", x, y]

    n = 0
    for b in bodies():
        for h in hs:
            yield ["clause", h, b]
        if n < 400:
            for hh in ad_heads:
                yield ["ad", hh, b]
        n += 1


def ctor_roundtrip(d):
    from ..plrun import classify_exception

    try:
        t = build(d)
        text = "%s.\n" % (t,)
    except Exception as exc:  # noqa
        c = classify_exception(exc)
        return ("print-crash", c[1], c[2] if len(c) > 2 else "?")
    out = run_parse(text)
    if out[0] == "error":
        return ("reparse-error", out[1], text)
    if out[0] == "crash":
        return ("reparse-crash", out, text)
    t2 = out[1]
    if struct([t]) != struct(t2):
        try:
            text2 = print_program(t2)
        except Exception:  # noqa
            text2 = "?"
        return ("mismatch", text, text2, diff_signature(struct([t]), struct(t2)))
    # printing must not depend on the history of the term: on a freshly built term print every
    # subterm bottom-up first, then the whole
    try:
        t3 = build(d)
        _print_subterms(t3)
        text3 = "%s.\n" % (t3,)
    except Exception as exc:  # noqa
        c = classify_exception(exc)
        return ("print-crash", c[1], c[2] if len(c) > 2 else "?")
    if text3 != text:
        return ("history", text, text3)
    return ("ok", text)




def ctor_case(d):
    try:
        with cpu_watchdog(CASE_WATCHDOG):
            return ctor_roundtrip(d)
    except WatchdogTimeout:
        return ("hang",)


def ctor_candidates(d):
    k = d[0]
    if k in ("and", "or"):
        yield d[1]
        yield d[2]
        for x in ctor_candidates(d[1]):
            yield [k, x, d[2]]
        for y in ctor_candidates(d[2]):
            yield [k, d[1], y]
    elif k == "not":
        yield d[1]
        for x in ctor_candidates(d[1]):
            yield ["not", x]
    elif k == "clause":
        yield d[1]
        yield d[2]
        for h in ctor_candidates(d[1]):
            yield ["clause", h, d[2]]
        for b in ctor_candidates(d[2]):
            yield ["clause", d[1], b]
    elif k == "ad":
        yield ["clause", d[1][0], d[2]]
        if len(d[1]) > 2:
            for i in range(len(d[1])):
                yield ["ad", d[1][:i] + d[1][i + 1:], d[2]]
        for b in ctor_candidates(d[2]):
            yield ["ad", d[1], b]
    elif k == "prob":
        yield d[2]
        if d[1] != ["float", 0.5]:
            yield ["prob", ["float", 0.5], d[2]]
        for x in ctor_candidates(d[2]):
            yield ["prob", d[1], x]
    elif k == "cmp":
        if d != ["cmp", "q", [["var", "X"]]]:
            yield ["atom", "p"]
        for i, a in enumerate(d[2]):
            if len(d[2]) > 1:
                yield ["cmp", d[1], d[2][:i] + d[2][i + 1:]]
            for a2 in C_ARGS:
                if a2 == a:
                    break
                yield ["cmp", d[1], d[2][:i] + [a2] + d[2][i + 1:]]
    elif k == "list":
        for i in range(len(d[1])):
            yield ["list", d[1][:i] + d[1][i + 1:], d[2]]
        if d[2] is not None:
            yield ["list", d[1], None]


def shrink_ctor(d, symptom, memo=None):
    memo = {} if memo is None else memo

    def fails(c):
        return rt_symptom(ctor_case(c)) == symptom

    return shrink_memo(d, ctor_candidates, fails, lambda c: (symptom, repr(c)), memo)


# ------------------------------------------------------------------------------------------------

TOK_MAX = {"quick": 5, "thorough": 6}
CHR_MAX = {"quick": 3, "thorough": 4}
SUB_MAX = {"quick": 4, "thorough": 5}
AGG_MAX = {"quick": 6, "thorough": 7}
SHARD_STRINGS = {"quick": 100000, "thorough": 1000000}  # largest number of strings in one shard


class C17(Prop):
    pid = "C17"
    title = "The parser is total and printing round-trips"
    technique = ("bounded-exhaustive enumeration on the real implementation: (a) every token / character string up "
                 "to a length bound through PrologString and PrologParser.parseString, judged against 'returns or "
                 "raises ProbLogError'; (b) every fully parenthesised operator expression over the parser's whole "
                 "operator table x operand kinds x contexts: parse, print, parse, compared by an independent "
                 "structural walker; (c) every term built with the documented constructors of problog.logic")
    rule = ("(a) all strings of <= 5 (quick) / 6 (thorough) tokens over the 26-token alphabet, all strings of <= 3 / 4 "
            "printable ASCII characters, all strings of <= 4 / 5 characters over a 37-character sub-alphabet (one "
            "representative per tokenizer action), all strings of <= 6 / 7 tokens over the 9 aggregate-syntax tokens "
            "{a,X,<,>,.,(,),\",\",:-}; a string is non-trivial when it parses to >= 1 clause.  "
            "(b) depth 1: 57 infix + 9 prefix operators x 18 operand kinds (x both source forms) x 13 contexts; "
            "depth 2 (quick: every prefix operator over every depth-1 expression of 6 operand kinds, every infix "
            "operator over every pair of (infix | prefix) sub-expressions on fixed leaves; thorough: additionally all "
            "one-sided nestings with 6 inner x 18 outer operand kinds in the plain clause context, two-sided and prefix blocks in 3 contexts); non-trivial when the source "
            "parses and the shape is judged.  (c) literals x connectives &,|,~ (depth 2 / 3) x clause / AD forms.")
    assumptions = [
        "round trip judged on what the parser built from the source (fixpoint parse(print(parse(s))) == parse(s))",
        "unjudged (counted): parsed terms containing None (empty parentheses), probability annotations anywhere but "
        "on a plain callable clause head / fact / AD head, heads that are lists (0.5::[a], \\+[a] :- b)",
        "not/\\+ are the same negation for the walker; location, op_priority, op_spec are not part of a term",
        "a parser defect that is the same in both parses (e.g. a dropped list tail) is invisible to the fixpoint",
        "hangs are detected by a 30 s wall-clock watchdog per batch of 1000 strings, then confirmed per string with a 5 s CPU-time watchdog",
        "the string sets of the three families overlap slightly; states counts strings per family",
    ]
    budget = {"quick": 240, "thorough": 2400}

    # -- shards ------------------------------------------------------------------------------------
    def shards(self, tier):
        res = self._all_shards(tier)
        parts = os.environ.get("VERIF_C17_PARTS")  # debugging aid: run only some shard families (reported as a cap)
        if parts:
            keep = set(parts.split(","))
            res = [["note", parts]] + [s for s in res if s[0] in keep]
        return res

    def _all_shards(self, tier):
        res = []
        # round trip first: these shards are the slowest
        n1 = len(G.BINOPS) + len(G.UNOPS)
        for ci in range(len(G.CONTEXTS)):
            for lo in range(0, n1, 11):
                res.append(["rt1", ci, lo, lo + 11])
        if tier == "quick":
            for op in G.BINOPS:
                res.append(["rt2", ["B", op], [0]])
            for op in G.UNOPS:
                res.append(["rt2", ["U", op], [0, 1, 2]])
        else:
            for blk in G.depth2_blocks():
                # one-sided nestings (L/R blocks, 18 outer operand kinds) in the plain clause context only;
                # two-sided and prefix blocks in all three contexts
                res.append(["rt2", blk, [0] if blk[0] in "LR" else [0, 1, 2]])
        for i in range(16):
            res.append(["ctor", i, 16])
        for fam, alphabet, kmax in (("tok", G.TOKENS, TOK_MAX[tier]), ("chr", G.PRINTABLE, CHR_MAX[tier]),
                                    ("sub", G.SUBCHARS, SUB_MAX[tier]), ("agg", G.AGG_TOKENS, AGG_MAX[tier])):
            n = len(alphabet)
            for k in range(0, kmax + 1):
                total = n ** k
                plen = 0
                while total / (n ** plen) > SHARD_STRINGS[tier] and plen < k:
                    plen += 1
                for pre in itertools.product(range(n), repeat=plen):
                    res.append([fam, k, list(pre), k == kmax])
        return res

    # -- (a) ---------------------------------------------------------------------------------------
    def _strings(self, shard):
        fam, k, pre, _ = shard
        alphabet = {"tok": G.TOKENS, "chr": G.PRINTABLE, "sub": G.SUBCHARS, "agg": G.AGG_TOKENS}[fam]
        return G.strings_over(alphabet, k, tuple(alphabet[i] for i in pre))

    def _run_strings(self, shard, acc):
        last = shard[3]
        apis = ["PrologString"] if last else ["PrologString", "parseString"]
        known = {}  # (symptom, api) -> minimal witnesses found in this shard
        it = self._strings(shard)
        first = True
        while True:
            batch = list(itertools.islice(it, BATCH))
            if not batch:
                break
            if acc.expired():
                acc.cap("wall budget reached inside shard")
                break
            if first:
                acc.sample({"family": shard[0], "length": shard[1], "first": batch[0], "apis": apis})
                first = False
            i = 0
            crashes = []
            while i < len(batch):
                try:
                    with watchdog(BATCH_WATCHDOG):
                        while i < len(batch):
                            s = batch[i]
                            for api in apis:
                                out = run_parse(s, api)
                                if out[0] == "crash":
                                    crashes.append((s, api, out))
                                else:
                                    self._count_string(s, api, out, acc, known)
                            i += 1
                except WatchdogTimeout:
                    # the batch took > BATCH_WATCHDOG seconds: the current string is the suspect
                    s = batch[i]
                    for api in apis:
                        out = parse_outcome(s, api, CASE_WATCHDOG)
                        if out[0] == "hang":
                            acc.evaluations += 1
                            acc.traces += 1
                            acc.outcomes["hang"] += 1
                            acc.violation("hang", {"kind": "string", "api": api, "input": s},
                                          expected="returns or raises ProbLogError within %d s" % CASE_WATCHDOG,
                                          observed="no result after %d s" % CASE_WATCHDOG,
                                          what="%s(%r) does not terminate" % (api, s))
                        elif out[0] == "crash":
                            crashes.append((s, api, out))
                        else:
                            self._count_string(s, api, out, acc, known)
                    acc.counters["batches_interrupted_by_watchdog"] += 1
                    i += 1
            # crashes are shrunk outside the batch watchdog (the shrinker uses its own per-case watchdog); a string
            # that leaks the same exception from the same site through both APIs is reported once
            seen = set()
            for s, api, out in crashes:
                if (s, out[1], out[2]) in seen:
                    acc.evaluations += 1
                    acc.traces += 1
                    acc.transitions += 1
                    acc.outcomes[crash_symptom(out)] += 1
                    acc.counters["crash_same_site_both_apis"] += 1
                    continue
                seen.add((s, out[1], out[2]))
                self._count_string(s, api, out, acc, known)
            acc.states += len(batch)

    def _count_string(self, s, api, out, acc, known):
        acc.evaluations += 1
        acc.traces += 1
        acc.transitions += 1
        if out[0] == "ok":
            n = len(out[1])
            acc.outcomes["program:%s" % (n if n < 3 else "3+")] += 1
            if n:
                acc.nontrivial += 1
        elif out[0] == "error":
            acc.outcomes["error:" + out[1]] += 1
        else:
            self._crash(s, api, out, acc, known)

    def _crash(self, s, api, out, acc, known):
        sym = crash_symptom(out)
        acc.outcomes[sym] += 1
        small = None
        for w in known.get((sym, api), ()):
            if w in s:
                small = w
                break
        if small is None:
            small = shrink_string(s, api, sym)
            known.setdefault((sym, api), []).append(small)
        acc.violation(sym, {"kind": "string", "api": api, "input": small},
                      expected="a program or a ProbLogError subclass",
                      observed="%s raised in %s" % (out[1], out[2]),
                      what="%s(%r) leaks %s from %s" % (api, small, out[1], out[2]))

    # -- (b) ---------------------------------------------------------------------------------------
    def _run_rt(self, cases, acc, label):
        known = {"memo": {}, "verdicts": {}}
        first = True
        for case in cases:
            if acc.expired():
                acc.cap("wall budget reached inside shard")
                break
            if first:
                acc.sample({"roundtrip": label, "first": case_source(case)})
                first = False
            v = rt_case(case)
            self._count_rt(case, v, acc, known)

    def _count_rt(self, case, v, acc, known):
        acc.evaluations += 1
        acc.states += 1
        acc.transitions += 3
        kind = v[0]
        if kind == "rejected":
            acc.outcomes["rt:source-rejected"] += 1
            return
        if kind == "unjudged":
            acc.outcomes["rt:unjudged"] += 1
            acc.counters["unjudged:" + v[1]] += 1
            return
        if kind == "hang":
            acc.outcomes["rt:hang"] += 1
            acc.counters["unjudged:watchdog"] += 1
            acc.cap(WATCHDOG_CAP)
            return
        if kind == "src-crash":
            self._crash(case_source(case), "PrologString", v[1], acc, known)
            return
        acc.traces += 1
        acc.nontrivial += 1
        if kind == "ok":
            acc.outcomes["rt:ok"] += 1
            return
        if kind == "reparse-crash":
            self._crash(v[2], "PrologString", v[1], acc, known)
            return
        sym = rt_symptom(v)
        acc.outcomes["rt:" + sym] += 1
        small = shrink_expr(case, sym, known["memo"], known["verdicts"])
        v2 = rt_case(small)
        src = case_source(small)
        acc.violation(sym, dict(small, kind="roundtrip"), expected="parse(print(parse(%r))) == parse(%r)" % (src, src),
                      observed=self._describe(v2), what="%r: %s" % (src, self._describe(v2)))

    @staticmethod
    def _describe(v):
        if v[0] == "mismatch":
            return "printed as %r which parses to a different term (printed again: %r)" % (v[1], v[2])
        if v[0] == "reparse-error":
            return "printed as %r which does not parse (%s)" % (v[2], v[1])
        if v[0] == "print-crash":
            return "printing raised %s in %s" % (v[1], v[2])
        if v[0] == "history":
            return "printed as %r, but as %r after its subterms were printed first" % (v[1], v[2])
        return repr(v)

    def _rt1_cases(self, ci, lo, hi):
        ops = [("bin", o) for o in G.BINOPS] + [("un", o) for o in G.UNOPS]
        ctx = G.CONTEXTS[ci]
        for kind, op in ops[lo:hi]:
            gen = G.depth1(G.LEAVES, [op], []) if kind == "bin" else G.depth1(G.LEAVES, [], [op])
            for e in gen:
                yield {"ctx": ctx, "expr": e}

    def _rt2_cases(self, blk, ctxs):
        for e in G.depth2_block(blk):
            for ci in ctxs:
                yield {"ctx": G.CONTEXTS_DEEP[ci], "expr": e}

    # -- (c) ---------------------------------------------------------------------------------------
    def _run_ctor(self, i, n, tier, acc):
        first = True
        memo = {}
        for j, d in enumerate(ctor_terms(tier)):
            if j % n != i:
                continue
            if acc.expired():
                acc.cap("wall budget reached inside shard")
                break
            if first:
                acc.sample({"constructed": d})
                first = False
            v = ctor_case(d)
            acc.evaluations += 1
            acc.states += 1
            acc.transitions += 2
            if v[0] == "hang":
                acc.counters["unjudged:watchdog"] += 1
                acc.cap(WATCHDOG_CAP)
                continue
            acc.traces += 1
            acc.nontrivial += 1
            if v[0] == "ok":
                acc.outcomes["ctor:ok"] += 1
                continue
            if v[0] == "reparse-crash":
                self._crash(v[2], "PrologString", v[1], acc, {})
                continue
            sym = "ctor-" + rt_symptom(v)
            acc.outcomes[sym] += 1
            small = shrink_ctor(d, rt_symptom(v), memo)
            v2 = ctor_case(small)
            acc.violation(sym, {"kind": "ctor", "term": small}, expected="parse(str(t)) == t",
                          observed=self._describe(v2), what="constructed %s: %s" % (small, self._describe(v2)))

    # -- driver ------------------------------------------------------------------------------------
    def run_shard(self, shard, tier, acc):
        kind = shard[0]
        if kind in ("tok", "chr", "sub", "agg"):
            self._run_strings(shard, acc)
        elif kind == "rt1":
            self._run_rt(self._rt1_cases(shard[1], shard[2], shard[3]), acc, shard)
        elif kind == "rt2":
            self._run_rt(self._rt2_cases(shard[1], shard[2]), acc, shard)
        elif kind == "ctor":
            self._run_ctor(shard[1], shard[2], tier, acc)
        elif kind == "note":
            acc.cap("partial run: only shard families %s (VERIF_C17_PARTS)" % shard[1])
        else:
            raise ValueError(shard)

    def replay(self, case):
        kind = case.get("kind")
        if kind == "string":
            out = parse_outcome(case["input"], case["api"], CASE_WATCHDOG)
            if out[0] == "ok":
                obs = "returned a program of %d clause(s)" % len(out[1])
            elif out[0] == "error":
                obs = "raised %s (a ProbLogError)" % (out[1],)
            elif out[0] == "crash":
                obs = "raised %s in %s" % (out[1], out[2])
            else:
                obs = "no result after %d s" % CASE_WATCHDOG
            return dict(ok=out[0] in ("ok", "error"),
                        expected="%s(%r) returns a program or raises a ProbLogError subclass"
                                 % (case["api"], case["input"]), observed=obs)
        if kind == "roundtrip":
            v = rt_case(case)
            src = case_source(case)
            good = v[0] in ("ok", "rejected", "unjudged")
            return dict(ok=good, expected="parse(print(parse(%r))) == parse(%r)" % (src, src),
                        observed=("round trip holds / not judged: %r" % (v,)) if good else self._describe(v))
        if kind == "ctor":
            v = ctor_case(case["term"])
            return dict(ok=v[0] == "ok", expected="parse(str(t)) == t for t = %s" % (case["term"],),
                        observed="round trip holds (printed %r)" % (v[1],) if v[0] == "ok" else self._describe(v))
        raise ValueError("unknown case kind %r" % (kind,))


PROP = C17()
