"""C31 Bayesian-network export preserves the distribution.

Every evidence-free program of the finite grammars whose (pruned) ground dependency graph is acyclic is
pushed through the pipeline of problog/tasks/bayesnet.py:main (LogicDAG.createFrom with the export
flags, formula_to_bn).  The resulting PGM is read as a Bayesian network by an independent evaluator:
every CPD is taken through its ``to_factor()`` (what every export format prints), checked to be a
well-formed conditional distribution over declared variables, multiplied out in topological order
over all joint states of non-zero probability and marginalised on the variables named like the query
atoms.  Oracle: R1 (vf/ref/worlds.py) and ProbLog's own query probabilities.
"""
import itertools

from ..core import Prop, watchdog, WatchdogTimeout
from ..gen import streams
from ..gen.programs import program_text
from ..plrun import infer, classify_exception, install_dsharp_cache
from ..ref import worlds
from .. import progcheck

TOL = 1e-9
MAX_JOINT = 1 << 10  # joint states of non-zero probability multiplied out per network
SITE_KEYED = ("invalid-network:negated-variable",)  # structural signatures keyed like crash sites


class BNInvalid(Exception):
    def __init__(self, kind, detail):
        Exception.__init__(self, kind, detail)
        self.kind = kind
        self.detail = detail


class Capped(Exception):
    pass


# ---------------------------------------------------------------------------------------------
# domain of the property

def ground_acyclic(prog):
    """the ground dependency graph restricted to clause instances that can fire (R1's pruned
    instantiation; a superset of what the engine grounds) has no cycle, positive or negative"""
    gp = worlds.GroundProgram(prog)
    edges = {}
    for ci, vals, heads, pos, neg in gp.instances:
        for _, h in heads:
            edges.setdefault(h, set()).update(pos)
            edges[h].update(neg)
    state = {}

    def visit(u):
        state[u] = 1
        for v in edges.get(u, ()):
            s = state.get(v, 0)
            if s == 1:
                return False
            if s == 0 and not visit(v):
                return False
        state[u] = 2
        return True

    for u in sorted(edges):
        if state.get(u, 0) == 0 and not visit(u):
            return False
    return True


# ---------------------------------------------------------------------------------------------
# the pipeline of problog/tasks/bayesnet.py:main

def export_ground(src):
    from problog.program import PrologString, ExtendedPrologFactory
    from problog.parser import DefaultPrologParser
    from problog.formula import LogicDAG

    return LogicDAG.createFrom(
        PrologString(src, parser=DefaultPrologParser(ExtendedPrologFactory())),
        label_all=True, avoid_name_clash=False, keep_order=True, keep_all=False, keep_duplicates=False,
        hide_builtins=False)


def evaluate_ground(gp):
    from problog import get_evaluatable

    res = get_evaluatable().create_from(gp).evaluate()
    return {str(k): v for k, v in res.items()}


# ---------------------------------------------------------------------------------------------
# independent reading of a PGM as a Bayesian network

def network_tables(pgm):
    """-> (order, domains, tables): variables in topological order, {var: values},
    {var: (parents, {parent-value tuple: distribution})}.  Raises BNInvalid."""
    domains = {}
    for name, var in pgm.vars.items():
        if name != var.name:
            raise BNInvalid("variable-name", "variable registered as %r is called %r" % (name, var.name))
        vals = list(var.values)
        if len(vals) < 1 or len(set(vals)) != len(vals):
            raise BNInvalid("variable-domain", "variable %s has domain %r" % (name, vals))
        domains[name] = vals
    for name in domains:
        if name.startswith("\\+") or name.startswith("not "):
            # a negated literal is no random variable: the label of a node that a query/rule uses
            # negatively leaked into the export (one root cause, keyed by this site alone)
            raise BNInvalid("negated-variable", "the network has a variable named %s" % name)
    tables = {}
    for name, cpd in pgm.factors.items():
        if cpd.rv != name:
            raise BNInvalid("factor-name", "factor registered as %r defines %r" % (name, cpd.rv))
        if name not in domains:
            raise BNInvalid("undeclared-variable", "CPD for %s but no such variable is declared" % name)
        fac = cpd.to_factor()
        expansion_check(pgm, cpd, fac)
        parents = list(fac.parents)
        if len(set(parents)) != len(parents):
            raise BNInvalid("duplicate-parent", "CPD of %s lists parents %r" % (name, parents))
        for p in parents:
            if p not in domains:
                raise BNInvalid("undeclared-parent", "CPD of %s has parent %s which is no variable of the network" % (name, p))
        tables[name] = (parents, fac.table)
    for name in domains:
        if name not in tables:
            raise BNInvalid("missing-cpd", "variable %s has no CPD" % name)
    for name, (parents, table) in tables.items():
        for p in parents:
            if p not in tables:
                raise BNInvalid("missing-cpd", "parent %s of %s has no CPD" % (p, name))
        n = len(domains[name])
        combos = list(itertools.product(*[domains[p] for p in parents]))
        for key in combos:
            if key not in table:
                raise BNInvalid("missing-row", "CPD of %s has no row for parent values %r" % (name, key))
            row = table[key]
            if len(row) != n:
                raise BNInvalid("bad-row", "CPD of %s row %r has %d entries for %d values" % (name, key, len(row), n))
            if any((not isinstance(x, (int, float))) or x < -TOL or x > 1 + TOL for x in row) or abs(sum(row) - 1.0) > TOL:
                raise BNInvalid("bad-row", "CPD of %s row %r = %r is no distribution" % (name, key, list(row)))
        if len(set(table)) != len(combos):
            raise BNInvalid("extra-row", "CPD of %s has %d rows for %d parent configurations" % (name, len(table), len(combos)))
    # topological order (Kahn, deterministic)
    order = []
    done = set()
    pending = list(tables)
    while pending:
        ready = [v for v in pending if all(p in done for p in tables[v][0])]
        if not ready:
            raise BNInvalid("cyclic", "directed cycle among %s" % ",".join(sorted(pending)))
        for v in ready:
            order.append(v)
            done.add(v)
        pending = [v for v in pending if v not in done]
    return order, domains, tables


def expansion_check(pgm, cpd, fac):
    """an OrCPT means: rv is true iff some listed (parent, value) pair holds; its to_factor() must
    say exactly that"""
    pv = getattr(cpd, "parentvalues", None)
    if pv is None:
        return
    vals = list(pgm.vars[cpd.rv].values)
    if vals != [0, 1]:
        raise BNInvalid("orcpt-domain", "OrCPT %s over domain %r" % (cpd.rv, vals))
    parents = list(fac.parents)
    if set(parents) != set(p for p, _ in pv):
        raise BNInvalid("orcpt-expansion", "OrCPT %s over %r expanded to parents %r" % (cpd.rv, pv, parents))
    for p in parents:
        if p not in pgm.vars:
            raise BNInvalid("undeclared-parent", "OrCPT of %s has parent %s which is no variable of the network" % (cpd.rv, p))
    for key in itertools.product(*[pgm.vars[p].values for p in parents]):
        truth = any((p, v) in pv for p, v in zip(parents, key))
        row = fac.table.get(key)
        if row is None or list(row) != ([0.0, 1.0] if truth else [1.0, 0.0]):
            raise BNInvalid("orcpt-expansion", "OrCPT %s %r: row %r expanded to %r" % (cpd.rv, pv, key, row))


def marginals(order, domains, tables, max_joint=MAX_JOINT):
    """multiply out: {var: [P(var = value_i)]}, number of joint states of non-zero probability"""
    marg = {v: [0.0] * len(domains[v]) for v in order}
    count = [0]
    assign = {}

    def rec(i, p):
        if i == len(order):
            count[0] += 1
            if count[0] > max_joint:
                raise Capped()
            for v in order:
                marg[v][assign[v]] += p
            return
        v = order[i]
        parents, table = tables[v]
        row = table[tuple(domains[q][assign[q]] for q in parents)]
        for j, x in enumerate(row):
            if x > 0.0:
                assign[v] = j
                rec(i + 1, p * x)
        assign.pop(v, None)

    rec(0, 1.0)
    return marg, count[0]


# ---------------------------------------------------------------------------------------------

def check_program(prog, timeout=20):
    """-> (symptom or None, detail, stats).  detail starts with 'skip:'/'excluded:'/'unjudged:' when
    the program is not judged."""
    st = {"joint": 0, "vars": 0, "queries": 0, "unexported": 0, "unexported_prob": 0, "worlds": 0}
    if prog.get("evidence"):
        return None, "skip:evidence", st
    if not ground_acyclic(prog):
        return None, "skip:cyclic", st
    ref = progcheck.reference(prog)
    st["worlds"] = ref["nworlds"]
    st["nchoices"] = ref["nchoices"]
    if ref["kind"] != "answer":
        return None, "skip:" + ref["kind"], st
    src = program_text(prog)
    dflt = infer(src, timeout=30)
    dsym, _ = progcheck.verdict(ref, dflt)
    if dsym is not None or dflt[0] != "ok":
        return None, "excluded:default-run-wrong:" + str(dsym or dflt[0]).split("@")[0], st
    own = {progcheck.norm_key(k): v for k, v in dflt[1].items()}
    install_dsharp_cache()
    try:
        with watchdog(timeout):
            try:
                gp = export_ground(src)
                direct = ("ok", evaluate_ground(gp))
            except Exception as exc:  # noqa
                direct = classify_exception(exc)
            gsym, _ = progcheck.verdict(ref, direct)
            if gsym is not None or direct[0] != "ok":
                return None, "excluded:ground-program-with-export-flags-wrong:" + str(gsym or direct[0]).split("@")[0], st
            from problog.tasks.bayesnet import formula_to_bn

            try:
                bn = formula_to_bn(gp)
                order, domains, tables = network_tables(bn)
            except BNInvalid as e:
                return "invalid-network:" + e.kind, e.detail, st
            except Exception as exc:  # noqa
                c = classify_exception(exc)
                if c[0] == "error":
                    return None, "unjudged:export-rejected:" + c[1], st
                return "crash:%s@%s" % (c[1], c[2]), "%s: %s" % (type(exc).__name__, exc), st
            st["vars"] = len(order)
            try:
                marg, n = marginals(order, domains, tables)
            except Capped:
                return None, "unjudged:joint-larger-than-%d" % MAX_JOINT, st
            st["joint"] = n
    except WatchdogTimeout:
        return None, "unjudged:timeout", st
    except RecursionError:
        return None, "unjudged:recursion", st
    for v in order:
        if abs(sum(marg[v]) - 1.0) > 1e-7:
            return "invalid-network:mass", "marginal of %s sums to %.12g" % (v, sum(marg[v])), st
    for atom, p in sorted(ref["cond"].items()):
        if atom not in domains:
            st["unexported"] += 1
            if TOL < p < 1 - TOL:
                st["unexported_prob"] += 1
            continue
        st["queries"] += 1
        if list(domains[atom]) != [0, 1]:
            return "invalid-network:query-domain", "query variable %s has domain %r" % (atom, domains[atom]), st
        got = marg[atom][1]
        if abs(got - p) > TOL:
            return "wrong-marginal", "P(%s=1) = %.12g in the network, exact probability %.12g" % (atom, got, p), st
        if atom in own and abs(got - own[atom]) > 2 * TOL:
            return "wrong-marginal", "P(%s=1) = %.12g in the network, ProbLog answers %.12g" % (atom, got, own[atom]), st
    return None, "", st


class C31(Prop):
    pid = "C31"
    title = "Bayesian-network export preserves the distribution"
    technique = ("bounded-exhaustive enumeration of evidence-free acyclic programs of the grammars F1/F2/F3 pushed through "
                 "the real bn-task pipeline (LogicDAG.createFrom with the export flags, formula_to_bn); the exported CPDs "
                 "(to_factor() of every Factor/OrCPT) are validated and multiplied out by an independent evaluator and the "
                 "marginals of the query variables compared with the possible-world reference R1 and ProbLog's own answers")
    rule = ("states = judged programs (evidence-free, pruned ground dependency graph acyclic, default run and direct evaluation "
            "of the export-flag ground program both correct); transitions = joint states of non-zero probability multiplied "
            "out + possible worlds enumerated by R1; a BN variable corresponds to a query atom iff its name is str(atom) "
            "(domain [0,1], value 1 = true); non-trivial = network with >= 2 joint states and >= 1 exported query variable")
    assumptions = ["a query atom without a variable of that name in the network is not judged (counted: query_atoms_not_exported)",
                   "an export rejected with a ProbLogError is counted, not judged",
                   "networks with more than 2^10 joint states of non-zero probability are counted, not judged",
                   "the printed formats (hugin/xdsl/uai08/dot) are not parsed back: the PGM object and to_factor() are read"]
    families = {"quick": [("FDUP", 4), ("F2.3", 48), ("F1.2q", 48), ("F3.2", 64), ("F1.3s", 16), ("F2.2", 8), ("F3.1", 8),
                          ("F1.1", 4), ("F1.1dup", 2), ("F2.1", 2)],
                "thorough": [("FDUP", 4), ("F3.3/4", 128), ("F2.4", 256), ("F2.3", 48), ("F1.2q", 48), ("F3.2", 64),
                             ("F1.3s", 16), ("F2.2", 8), ("F3.1", 8), ("F1.1", 4), ("F1.1dup", 2), ("F2.1", 2)]}
    budget = {"quick": 450, "thorough": 2400}

    def shards(self, tier):
        return [[fam, mod, r] for fam, mod in self.families[tier] for r in range(mod)]

    def run_shard(self, shard, tier, acc):
        fam, mod, rem = shard
        for idx, prog in streams.shard_stream(fam, tier, mod, rem):
            if acc.expired():
                acc.cap("wall budget reached in family %s" % fam)
                break
            if prog.get("evidence"):
                continue
            sym, detail, st = check_program(prog)
            if sym is None and detail.split(":")[0] in ("skip", "excluded"):
                acc.counters[":".join(detail.split(":")[:3])] += 1
                continue
            acc.evaluations += 1
            acc.states += 1
            acc.transitions += st["joint"] + st["worlds"]
            if sym is None and detail.startswith("unjudged:"):
                acc.counters[detail] += 1
                acc.outcomes[detail] += 1
                continue
            acc.traces += 1
            acc.counters["query_atoms_judged"] += st["queries"]
            acc.counters["query_atoms_not_exported"] += st["unexported"]
            acc.counters["query_atoms_not_exported_with_0<P<1"] += st["unexported_prob"]
            if st["joint"] >= 2 and st["queries"] >= 1:
                acc.nontrivial += 1
            acc.outcomes[sym or ("ok" if st["queries"] else "ok(no query variable exported)")] += 1
            acc.sample({"family": fam, "index": idx, "program": program_text(prog)}, limit=2)
            if sym:
                self.report(prog, sym, acc)

    def report(self, prog, sym, acc):
        def fails(p):
            return check_program(p)[0] == sym

        small = progcheck.minimise(prog, fails, limit=120, strong=True)
        s2, d2, _ = check_program(small)
        case = {"program": program_text(small), "ast": small}
        extra = None
        if sym.startswith("crash:") or sym in SITE_KEYED:
            case, extra = {"site": sym}, case
        acc.violation(sym, case, extra=extra, expected="network marginals of the query variables = exact probabilities",
                      observed=d2, what="%s: %s [%s]" % (sym, program_text(small), d2))

    def replay(self, case):
        sym, detail, st = check_program(case["ast"])
        return dict(ok=sym is None, expected="network marginals of the query variables = exact probabilities",
                    observed={"symptom": sym, "detail": detail})


PROP = C31()
