"""C07 marginals do not depend on the textual order of the program (programs x permutations)."""
import itertools

from .diffbase import DiffProp
from ..gen.programs import clause_text, evidence_text
from ..ref.worlds import atom_str
from .. import progcheck
from ..plrun import infer


def render(prog, var):
    cls = [dict(c) for c in prog["clauses"]]
    # a variant recorded for a larger program is projected onto a shrunk one (indices that no longer exist
    # are dropped, clauses the permutation does not mention keep their place at the end)
    for ci, perm in (var.get("bodies") or {}).items():
        if int(ci) < len(cls) and sorted(perm) == list(range(len(cls[int(ci)]["body"]))):
            c = cls[int(ci)]
            c["body"] = [c["body"][j] for j in perm]
    order = [i for i in (var.get("perm") or []) if i < len(cls)]
    order += [i for i in range(len(cls)) if i not in order]
    ctext = [clause_text(cls[i]) for i in order]
    qe = ["query(%s)." % atom_str(q) for q in prog.get("queries", [])] + [evidence_text(e) for e in prog.get("evidence", [])]
    if var.get("qe_reversed"):
        qe = qe[::-1]
    where = var.get("qe", "last")
    if where == "first":
        return " ".join(qe + ctext)
    if where == "middle":
        h = len(ctext) // 2
        return " ".join(ctext[:h] + qe + ctext[h:])
    return " ".join(ctext + qe)


def safe_body_perms(cl):
    body = cl["body"]
    n = len(body)
    for perm in itertools.permutations(range(n)):
        if list(perm) == list(range(n)):
            continue
        c2 = dict(cl, body=[body[j] for j in perm])
        if progcheck.safe(c2):
            yield list(perm)


class C07(DiffProp):
    pid = "C07"
    title = "Marginals do not depend on the textual order of the program"
    technique = ("programs x permutations: all permutations of the clauses (small programs) or all transpositions, "
                 "rotations and the reversal (larger ones), all safe permutations of every rule body, and three "
                 "placements of the query/evidence statements; each variant run through the real pipeline and compared "
                 "with the order-free possible-world reference")
    rule = ("states = programs whose default run is correct; transitions = (program, permutation) executions; a "
            "permutation is non-trivial when the printed text differs from the original")
    families = {"quick": [("FC3/4", 48), ("FDUP", 4), ("F1.3e", 48), ("F3.1", 48), ("F2.2", 16), ("F2.3", 48), ("F1.3s", 48), ("F1.1", 4)],
                "thorough": [("FC3", 48), ("F1.3e", 48), ("FDUP", 4), ("F3.2", 192), ("F2.3", 64), ("F1.3s", 64), ("F1.2", 128), ("F3.1", 48), ("F2.2", 16), ("F1.1", 4)]}
    maxfull = {"quick": 4, "thorough": 5}
    budget = {"quick": 300, "thorough": 2400}

    def variants(self, prog, tier):
        n = len(prog["clauses"])
        ident = list(range(n))
        vs = []
        if n <= self.maxfull[tier]:
            for perm in itertools.permutations(ident):
                if list(perm) != ident:
                    vs.append({"perm": list(perm)})
        else:
            for i, j in itertools.combinations(ident, 2):
                p = list(ident)
                p[i], p[j] = p[j], p[i]
                vs.append({"perm": p})
            vs.append({"perm": ident[::-1]})
            for r in range(1, n):
                p = ident[r:] + ident[:r]
                if {"perm": p} not in vs:
                    vs.append({"perm": p})
        for where in ("first", "middle"):
            vs.append({"qe": where})
            vs.append({"qe": where, "perm": ident[::-1], "qe_reversed": True})
        vs.append({"qe_reversed": True})
        for ci, cl in enumerate(prog["clauses"]):
            if len(cl["body"]) >= 2:
                for perm in safe_body_perms(cl):
                    vs.append({"bodies": {str(ci): perm}})
        return vs

    def run_variant(self, prog, var):
        return infer(render(prog, var))


PROP = C07()
