#!/bin/bash
# Run several checks one after another at a tier; logs in runlogs/<id>_<tier>.log (relative to the cwd, so a
# `vp run` snapshot keeps its own).  usage: tools_run_tier.sh <tier> <ids...>
tier=$1; shift
mkdir -p runlogs
for id in "$@"; do
  ./check $id --tier $tier --quiet > runlogs/${id}_${tier}.log 2>&1
  echo "$id rc=$? $(head -1 runlogs/${id}_${tier}.log | cut -c1-220)" | tee -a runlogs/summary_${tier}.txt
done
