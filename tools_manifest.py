#!/usr/bin/env python3
"""Regenerates MANIFEST.json from the registered property modules (vf/props/cXX.py) and
manifest_extra.json (not_applicable, notes).  Run: /venv/bin/python tools_manifest.py"""
import json, os, sys, importlib, glob
here = os.path.dirname(os.path.abspath(__file__))
sys.path.insert(0, here); sys.path.insert(1, os.environ.get("VERIF_REPO", "/repo"))
extra = json.load(open(os.path.join(here, "manifest_extra.json")))
checks = []
claimed = set()
for p in sorted(glob.glob(os.path.join(here, "vf/props/c[0-9][0-9]*.py"))):
    m = importlib.import_module("vf.props." + os.path.basename(p)[:-3])
    P = m.PROP
    claimed.add(P.pid)
    checks.append({
        "property_id": P.pid,
        "quick_cmd": "./check %s --tier quick" % P.pid,
        "thorough_cmd": "./check %s --tier thorough" % P.pid,
        "evidence_file": "/verif/evidence/%s.json" % P.pid,
        "replay_cmd_template": "./check replay {path}",
        "engine": "vf",
        "level_claimed": {"category": P.level, "text": P.level_text if hasattr(P, "level_text") else P.technique,
                          "design_ref": "DESIGN.md section 3, " + P.pid},
        "level_note": "; ".join(P.assumptions) or "trusted base: the Python reference model in vf/ref and the enumeration bounds stated in the evidence",
        "technique": P.technique,
    })
allp = [json.loads(l)["id"] for l in open(os.path.join(here, "properties.jsonl"))]
na = [{"property_id": pid, "reason": extra["not_applicable"].get(pid, "check not built yet in this session; no claim is made")}
      for pid in allp if pid not in claimed]
man = {
    "version": 1,
    "setup_cmd": "cd /verif && /venv/bin/python -c \"import compileall,sys; sys.exit(0 if compileall.compile_dir('vf', quiet=1) else 1)\"",
    "hooks": {"guard": "ML_KULEUVEN_PROBLOG_VERIF", "enable": "no source hooks: checks drive /repo's working tree through documented seams (engine subclassing, module attribute replacement); ./check exports ML_KULEUVEN_PROBLOG_VERIF=1 for uniformity",
              "baseline_off_cmd": "cd /repo && /venv/bin/python -m pytest -ra -q -p no:cacheprovider --timeout=900 --continue-on-collection-errors",
              "source_commits": extra.get("hook_commits", []), "add_only": True},
    "engines": [{"name": "vf", "path": "/verif/vf", "serves_properties": sorted(claimed),
                 "kind_free_text": "hand-written explicit-state / stateless bounded-exhaustive explorers driving the real Python implementation, with executable reference models (DESIGN.md 2)"}],
    "checks": checks,
    "notes": extra.get("notes", ""),
    "not_applicable": na,
}
json.dump(man, open(os.path.join(here, "MANIFEST.json"), "w"), indent=1)
print("claimed", len(claimed), "not_applicable", len(na))
