#!/usr/bin/env python3
"""Maintenance helper (never used by the checks): append the currently unlisted violation keys of
a property (from evidence/<pid>.json and replays/<pid>/<key>.json) to KNOWN_FINDINGS.txt as
`open:` lines, after they have been triaged as genuine defects.  usage: tools_findings.py add <pid>"""
import json, os, sys
here = os.path.dirname(os.path.abspath(__file__))
cmd, pid = sys.argv[1], sys.argv[2]
ev = json.load(open(os.path.join(here, "evidence", pid + ".json")))
keys = ev["coverage"]["unlisted_violation_keys"]
lines = []
for k in keys:
    rec = json.load(open(os.path.join(here, "replays", pid, k + ".json")))
    what = " ".join(str(rec["what"]).split())[:400]
    lines.append("open: property=%s key=%s %s" % (pid, k, what))
if cmd == "add":
    with open(os.path.join(here, "KNOWN_FINDINGS.txt"), "a") as f:
        for l in lines:
            f.write(l + "\n")
print("\n".join(lines))
