#!/usr/bin/env python3
"""Maintenance helper (never used by the checks): append the currently unlisted violation keys of
a property (from evidence/<pid>.json and replays/<pid>/<key>.json) to KNOWN_FINDINGS.txt as
`open:` lines, after they have been triaged as genuine defects.  usage: tools_findings.py add <pid>"""
import json, os, sys
here = os.path.dirname(os.path.abspath(__file__))
cmd, pid = sys.argv[1], sys.argv[2]
root = sys.argv[3] if len(sys.argv) > 3 else here   # e.g. the snapshot directory of a `vp run`
known = open(os.path.join(here, "KNOWN_FINDINGS.txt")).read()
ev = json.load(open(os.path.join(root, "evidence", pid + ".json")))
keys = ev["coverage"]["unlisted_violation_keys"]
lines = []
for k in keys:
    if "key=%s " % k in known:
        continue
    rec = json.load(open(os.path.join(root, "replays", pid, k + ".json")))
    what = " ".join(str(rec["what"]).split())[:400]
    lines.append("open: property=%s key=%s %s" % (pid, k, what))
if cmd == "add":
    with open(os.path.join(here, "KNOWN_FINDINGS.txt"), "a") as f:
        for l in lines:
            f.write(l + "\n")
print("\n".join(lines))
