"""Throw-away design probe helpers (NOT the framework): propositional family F1 and a
well-founded-model possible-world reference for it.  Used by the probe_*.py scripts that were
run while writing DESIGN.md to see how the pinned tree behaves at the planned quick bounds."""
import itertools, collections
FACTS = {'a': 0.3, 'b': 0.6}
DER = ['p', 'q', 'r']
ATOMS = list(FACTS) + DER
LITS = [(x, True) for x in ATOMS] + [(x, False) for x in ATOMS]
BODIES = [(l,) for l in LITS] + [(l1, l2) for l1 in LITS for l2 in LITS if l1[0] != l2[0]]
ALLRULES = [(h, b) for h in DER for b in BODIES]

def rules_text(rules):
    s = ""
    for h, b in rules:
        s += h + " :- " + ", ".join((x if pos else "\\+" + x) for x, pos in b) + ". "
    return s

def program_text(rules, queries=None, ev=None):
    s = "0.3::a. 0.6::b. " + rules_text(rules)
    for h in (queries if queries is not None else sorted({h for h, b in rules})):
        s += "query(%s). " % h
    if ev:
        s += "evidence(%s,%s). " % (ev[0], 'true' if ev[1] else 'false')
    return s

def closed(rules):
    heads = {h for h, b in rules}
    used = {x for h, b in rules for x, s in b if x in DER}
    return used <= heads

def _lfp(rules, world, negset):
    true = set(k for k, v in world.items() if v)
    ch = True
    while ch:
        ch = False
        for h, b in rules:
            if h in true:
                continue
            if all((x in true) if pos else (x not in negset) for x, pos in b):
                true.add(h); ch = True
    return true

def wfm(rules, world):
    T = set(k for k, v in world.items() if v); U = set(ATOMS)
    while True:
        T2 = _lfp(rules, world, U); U2 = _lfp(rules, world, T2)
        if T2 == T and U2 == U:
            return T, U
        T, U = T2, U2

def ground_negcycle(rules):
    edges = collections.defaultdict(set)
    for h, b in rules:
        for x, pos in b:
            edges[h].add((x, pos))
    def reach(s):
        seen = {s}; st = [s]
        while st:
            u = st.pop()
            for v, _ in edges[u]:
                if v not in seen:
                    seen.add(v); st.append(v)
        return seen
    for h in list(edges):
        for x, pos in edges[h]:
            if not pos and h in reach(x):
                return True
    return False

def worlds():
    for va in (True, False):
        for vb in (True, False):
            yield {'a': va, 'b': vb}, (0.3 if va else 0.7) * (0.6 if vb else 0.4)

def reference(rules, queries, ev=None):
    """returns P(e), {q: P(q & e)}, undefined?"""
    pe = 0.0; pq = {q: 0.0 for q in queries}; undefined = False
    for w, pw in worlds():
        T, U = wfm(rules, w)
        for q in list(queries) + ([ev[0]] if ev else []):
            if (q in U) != (q in T):
                undefined = True
        if ev and ((ev[0] in T) != ev[1]):
            continue
        pe += pw
        for q in queries:
            if q in T:
                pq[q] += pw
    return pe, pq, undefined

def stratified_programs(nrules, step=1, off=0):
    for idx, rs in enumerate(itertools.combinations(ALLRULES, nrules)):
        if idx % step != off or not closed(rs) or ground_negcycle(rs):
            continue
        yield rs
