import warnings, signal
warnings.filterwarnings("ignore")
signal.alarm(100)
from problog.program import PrologString
from problog.engine import DefaultEngine
from problog.logic import Term, Constant, Var, Clause, AnnotatedDisjunction, Or
from problog import get_evaluatable
from problog.formula import LogicFormula
eng = DefaultEngine()
db = eng.prepare(PrologString("0.3::p(a). q(X) :- p(X). r :- q(_)."))
def prob(d, q):
    lf = eng.ground_all(d, queries=[q])
    return {str(k): round(v,6) for k,v in get_evaluatable().create_from(lf).evaluate().items()}
print('parent before', prob(db, Term('q', None)), prob(db, Term('r')), len(db))
ch = db.extend()
ch += Term('p', Term('b'), p=Constant(0.5))
print('child', prob(ch, Term('q', None)), prob(ch, Term('r')), prob(ch, Term('p', None)))
print('parent after', prob(db, Term('q', None)), prob(db, Term('r')), len(db))
ch += Clause(Term('s', Var('X')), Term('p', Var('X')))
print('child s', prob(ch, Term('s', None)))
g = ch.extend()
g += Term('p', Term('c'))
print('grandchild', prob(g, Term('q', None)), prob(g, Term('r')), prob(g, Term('s', None)))
print('child after', prob(ch, Term('q', None)), prob(ch, Term('r')))
fresh = eng.prepare(PrologString("0.3::p(a). q(X) :- p(X). r :- q(_). 0.5::p(b). s(X) :- p(X). p(c)."))
print('fresh', prob(fresh, Term('q', None)), prob(fresh, Term('r')), prob(fresh, Term('s', None)))
# AD into child
ch2 = db.extend()
ch2 += AnnotatedDisjunction([Term('p', Term('d'), p=Constant(0.2)), Term('t', p=Constant(0.3))], Term('true'))
print('child2', prob(ch2, Term('q', None)), prob(ch2, Term('t')))
# builder
f = LogicFormula()
a = f.add_atom(1, 0.3); b = f.add_atom(2, 0.4)
d = f.add_or((a,), readonly=False)
print('add_disjunct returns', f.add_disjunct(d, b), f.add_disjunct(d, b), f.add_disjunct(d, 0), f.get_node(d))
