"""Design probe for C13: deterministic programs over p/2, findall order vs a mini-Prolog (SLD)."""
import warnings, signal, itertools, sys, time, collections
warnings.filterwarnings("ignore")
sys.setrecursionlimit(10000)
from problog.program import PrologString
from problog.engine import DefaultEngine
from problog.logic import Term, Var, Constant
from problog.errors import ProbLogError
class TO(Exception): pass
def _h(*a): raise TO()
signal.signal(signal.SIGALRM, _h)
# ---- mini prolog: terms are ('v',name) | (functor, *args)
def walk(t, s):
    while t[0] == 'v' and t[1] in s: t = s[t[1]]
    return t
def unify(a, b, s):
    a = walk(a, s); b = walk(b, s)
    if a[0] == 'v':
        if b[0] == 'v' and b[1] == a[1]: return s
        s = dict(s); s[a[1]] = b; return s
    if b[0] == 'v':
        s = dict(s); s[b[1]] = a; return s
    if a[0] != b[0] or len(a) != len(b): return None
    for x, y in zip(a[1:], b[1:]):
        s = unify(x, y, s)
        if s is None: return None
    return s
def resolve(t, s):
    t = walk(t, s)
    if t[0] == 'v' or len(t) == 1: return t
    return (t[0],) + tuple(resolve(x, s) for x in t[1:])
CNT = [0]
def rename(t, m):
    if t[0] == 'v':
        if t[1] not in m: CNT[0] += 1; m[t[1]] = ('v', '_G%d' % CNT[0])
        return m[t[1]]
    if len(t) == 1: return t
    return (t[0],) + tuple(rename(x, m) for x in t[1:])
def solve(goals, s, prog, depth=0):
    if depth > 60: raise RecursionError
    if not goals:
        yield s; return
    g, rest = goals[0], goals[1:]
    g = walk(g, s)
    if g[0] == 'true': yield from solve(rest, s, prog, depth); return
    if g[0] == ',': yield from solve([g[1], g[2]] + rest, s, prog, depth); return
    if g[0] == '=':
        s2 = unify(g[1], g[2], s)
        if s2 is not None: yield from solve(rest, s2, prog, depth)
        return
    if g[0] == '\\+':
        for _ in solve([g[1]], s, prog, depth + 1): return
        yield from solve(rest, s, prog, depth); return
    if g[0] == 'findall':
        sols = [resolve(g[1], s2) for s2 in solve([g[2]], s, prog, depth + 1)]
        lst = ('[]',)
        for x in reversed(sols): lst = ('.', x, lst)
        s2 = unify(g[3], lst, s)
        if s2 is not None: yield from solve(rest, s2, prog, depth)
        return
    for head, body in prog:
        if head[0] != g[0] or len(head) != len(g): continue
        m = {}
        h2 = rename(head, m); b2 = [rename(b, m) for b in body]
        s2 = unify(g, h2, s)
        if s2 is not None:
            yield from solve(b2 + rest, s2, prog, depth + 1)
def show(t):
    if t[0] == 'v': return t[1]
    if t[0] == '.':
        items = []
        while t[0] == '.': items.append(show(t[1])); t = t[2]
        return '[' + ', '.join(items) + ']' if t == ('[]',) else '[' + ', '.join(items) + ' | ' + show(t) + ']'
    if t[0] == '=': return show(t[1]) + ' = ' + show(t[2])
    if t[0] == ',': return '(' + show(t[1]) + ', ' + show(t[2]) + ')'
    if t[0] == '\\+': return '\\+' + show(t[1])
    if len(t) == 1: return t[0]
    return t[0] + '(' + ','.join(show(x) for x in t[1:]) + ')'
def clause_text(h, body): return show(h) + (' :- ' + ', '.join(show(b) for b in body) if body else '') + '.'
def flatten(t):
    out = []
    while t[0] == '.': out.append(t[1]); t = t[2]
    return out
def canon(t):
    m = {}
    def r(t):
        if t[0] == 'v': return ('v', m.setdefault(t[1], 'V%d' % len(m)))
        if len(t) == 1: return t
        return (t[0],) + tuple(r(x) for x in t[1:])
    return r(t)
def from_problog(t):
    if t is None or isinstance(t, int): return ('v', '_%s' % t)
    if isinstance(t, Var): return ('v', t.name)
    if t.arity == 0: return (str(t.functor),)
    return (str(t.functor),) + tuple(from_problog(x) for x in t.args)
A, B, X, Y = ('a',), ('b',), ('v', 'X'), ('v', 'Y')
# clause menu for p/2 and s/1
heads = [('p', a1, a2) for a1 in (A, B, X) for a2 in (A, B, Y, X)]
menu = [(h, []) for h in heads if h != ('p', X, X) or True]
menu += [(('p', X, A), [('=', X, B)]), (('p', X, Y), [('s', Y)]), (('p', A, Y), [('s', Y)]), (('p', X, Y), [('=', X, A), ('s', Y)])]
S = [(('s', A), []), (('s', B), [])]
templates = [(Y, ('p', A, Y)), (Y, ('p', B, Y)), (('f', X, Y), ('p', X, Y)), (X, ('p', X, A)), (X, (',', ('s', X), ('p', X, ('v','Z')))), (Y, (',', ('p', A, Y), ('\\+', ('p', B, Y))))]
nc = int(sys.argv[1]); step = int(sys.argv[2]); off = int(sys.argv[3]); cap = float(sys.argv[4])
t0 = time.time(); n = 0; bad = collections.Counter(); ex = {}
for idx, cl in enumerate(itertools.permutations(menu, nc)):
    if idx % step != off: continue
    prog = list(cl) + S
    for ti, (tmpl, goal) in enumerate(templates):
        L = ('v', 'L')
        try:
            sols = list(solve([('findall', tmpl, goal, L)], {}, prog))
        except RecursionError:
            continue
        exp = canon(resolve(L, sols[0]))
        src = ' '.join(clause_text(h, b) for h, b in prog) + ' q(L) :- findall(%s, %s, L). query(q(L)).' % (show(tmpl), show(goal))
        n += 1
        signal.alarm(5)
        try:
            eng = DefaultEngine()
            db = eng.prepare(PrologString(src))
            res = eng.query(db, Term('q', None))
            got = [canon(from_problog(r[0])) for r in res]
            if got != [exp]:
                k = 'order' if (len(got) == 1 and sorted(map(str, flatten(got[0]))) == sorted(map(str, flatten(exp)))) else 'content'
                bad[k] += 1; ex.setdefault(k, []).append((src, show(exp), [show(g) for g in got]))
        except TO:
            bad['timeout'] += 1
        except ProbLogError as e:
            bad['err:' + type(e).__name__] += 1; ex.setdefault('err:' + type(e).__name__, []).append((src, show(exp), str(e)[:80]))
        except Exception as e:
            bad['crash:' + type(e).__name__] += 1; ex.setdefault('crash:' + type(e).__name__, []).append((src, show(exp), str(e)[:80]))
        finally:
            signal.alarm(0)
    if time.time() - t0 > cap: print('cap'); break
def flatten_(t):
    out = []
    while t[0] == '.': out.append(t[1]); t = t[2]
    return out
print('cases', n, dict(bad), round(time.time() - t0, 1))
for k, v in ex.items():
    for e in v[:5]: print(k, '|', *e, sep=' | ')
