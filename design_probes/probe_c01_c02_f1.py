import warnings, signal, itertools, sys, time
warnings.filterwarnings("ignore")
from problog.program import PrologString
from problog import get_evaluatable
facts = {'a':0.3,'b':0.6}; der = ['p','q','r']
atoms = list(facts)+der
lits = [(x,True) for x in atoms]+[(x,False) for x in atoms]
bodies = [(l,) for l in lits] + [(l1,l2) for l1 in lits for l2 in lits if l1[0]!=l2[0]]
allrules = [(h,b) for h in der for b in bodies]
def txt(rules, ev=None):
    s = "0.3::a. 0.6::b. "
    for h,b in rules:
        s += h+" :- "+", ".join((x if pos else "\\+"+x) for x,pos in b)+". "
    for h in sorted({h for h,b in rules}): s += "query(%s). "%h
    if ev: s += "evidence(%s,%s). " % (ev[0], 'true' if ev[1] else 'false')
    return s
def ok(rules):
    heads = {h for h,b in rules}
    used = {x for h,b in rules for x,s in b if x in der}
    return used <= heads
def lfp(rules, world, negset):
    # least model of reduct: negative literal \+x true iff x not in negset
    true = set(k for k,v in world.items() if v)
    ch = True
    while ch:
        ch = False
        for h,b in rules:
            if h in true: continue
            if all((x in true) if pos else (x not in negset) for x,pos in b):
                true.add(h); ch=True
    return true
def wfm(rules, world):
    # alternating fixpoint: T = lfp with neg evaluated against U (overestimate)
    T = set(k for k,v in world.items() if v); U = set(atoms)
    while True:
        T2 = lfp(rules, world, U)   # underestimate: \+x true iff x not in U
        U2 = lfp(rules, world, T2)  # overestimate
        if T2==T and U2==U: break
        T,U = T2,U2
    return T, U
def ground_negcycle(rules):
    # atom-level dependency graph with negative edges
    import collections
    edges = collections.defaultdict(set)
    for h,b in rules:
        for x,pos in b: edges[h].add((x,pos))
    # check if exists cycle containing a negative edge: for each neg edge h->x, is h reachable from x?
    def reach(s):
        seen={s}; st=[s]
        while st:
            u=st.pop()
            for v,_ in edges[u]:
                if v not in seen: seen.add(v); st.append(v)
        return seen
    for h in list(edges):
        for x,pos in edges[h]:
            if not pos and h in reach(x): return True
    return False
def ref(rules, queries, ev):
    pe = 0.0; pq = {q:0.0 for q in queries}; undefined=False
    for va in (True,False):
        for vb in (True,False):
            w = {'a':va,'b':vb}; pw = (0.3 if va else 0.7)*(0.6 if vb else 0.4)
            T,U = wfm(rules, w)
            for q in list(queries)+([ev[0]] if ev else []):
                if (q in U) != (q in T): undefined=True
            if ev and ((ev[0] in T) != ev[1]): continue
            pe += pw
            for q in queries:
                if q in T: pq[q]+=pw
    return pe, pq, undefined
def run(src):
    try:
        r = get_evaluatable().create_from(PrologString(src)).evaluate()
        return {str(k):v for k,v in r.items()}
    except Exception as e:
        return type(e).__name__
nr=int(sys.argv[1]); step=int(sys.argv[2]); off=int(sys.argv[3]); cap=float(sys.argv[4])
t=time.time(); n=0; bad=0; cls={}
for idx, rs in enumerate(itertools.combinations(allrules, nr)):
    if idx % step != off or not ok(rs): continue
    heads = sorted({h for h,b in rs})
    for ev in [None, ('a',True), (heads[0], False), (heads[-1], True)]:
        src = txt(rs, ev); n+=1
        neg = ground_negcycle(rs)
        pe, pq, undef = ref(rs, heads, ev)
        out = run(src)
        if neg:
            kind = 'must-reject' if undef else 'either'
            if undef and isinstance(out, dict): verdict='ANSWERED-MUST-REJECT'
            else: verdict='ok'
        else:
            kind='stratified'
            if pe < 1e-12: verdict = 'ok' if out=='InconsistentEvidenceError' else 'NOT-INCONSISTENT:'+str(out)
            elif not isinstance(out, dict): verdict='ERR:'+out
            else:
                verdict='ok'
                for q in heads:
                    if abs(out.get(q, 0.0) - pq[q]/pe) > 1e-9: verdict='WRONG'
        cls[(kind,verdict.split(':')[0] if verdict.startswith('ERR') is False else verdict)] = cls.get((kind,verdict.split(':')[0] if verdict.startswith('ERR') is False else verdict),0)+1
        if verdict!='ok':
            bad+=1
            if bad<=40: print(verdict, kind, src, 'REF', pe, {q:(pq[q]/pe if pe else None) for q in heads}, 'GOT', out, flush=True)
    if time.time()-t>cap: print('cap'); break
print('cases', n, 'bad', bad, cls, time.time()-t)
